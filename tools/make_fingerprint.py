#!/usr/bin/env python3
"""Deliberate, manual act: (re)generate reference/schema-fingerprint.json from the schema files of a tree that
is known to carry the genuine MusicXML 4.0 schema (the pinned commit).  Never run by a check."""
import json, os, sys
sys.path.insert(0, os.path.dirname(os.path.dirname(os.path.abspath(__file__))))
from mxsa.xsdmodel import Schema
root = sys.argv[1] if len(sys.argv) > 1 else '/repo'
sc = Schema(root)
out = {'generated_from': root, 'note': 'canonical digests per top-level schema component; see DESIGN.md C03/T8',
       'components': sc.fingerprint()}
path = os.path.join(os.path.dirname(os.path.dirname(os.path.abspath(__file__))), 'reference', 'schema-fingerprint.json')
with open(path, 'w') as f:
    json.dump(out, f, indent=0, sort_keys=True)
print(path, len(out['components']))
