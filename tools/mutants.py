#!/usr/bin/env python3
"""Exploration aid (not a check): systematic AST mutants of the hand-written code of the runtime closure.  For each mutant:
run all registered checks on a scratch copy; if none fires, run the repository's test suite on the copy.  Mutants that
compile, pass the tests and are reported by no check are written to the output file for manual triage (are they
equivalent, or do they break a property that no rule sees?).

usage: tools/mutants.py [--out /tmp/mutants.jsonl] [--jobs 16] [--limit N] [--files a,b]"""
import argparse, ast, copy, json, os, shutil, subprocess, sys, tempfile
from concurrent.futures import ThreadPoolExecutor

VERIF = os.path.dirname(os.path.dirname(os.path.abspath(__file__)))
REPO = '/repo'
PY = '/venv/bin/python'
TARGETS = {
    'musicxml/xmlelement/xmlelement.py': ('XMLElement', 'XMLScorePartwise.write'),
    'musicxml/xmlelement/xmlchildcontainer.py': None,
    'musicxml/xsd/xsdelement.py': None,
    'musicxml/xsd/xsdindicator.py': ('XSDSequence', 'XSDChoice', 'XSDGroup'),
    'musicxml/xsd/xsdtree.py': None,
    'musicxml/xsd/xsdattribute.py': ('XSDAttribute', 'XSDAttributeGroup'),
    'musicxml/xsd/xsdcomplextype.py': ('XSDComplexType',),
    'musicxml/xsd/xsdsimpletype.py': ('XSDSimpleType', 'XSDSimpleTypeInteger', 'XSDSimpleTypeNonNegativeInteger', 'XSDSimpleTypePositiveInteger',
                                      'XSDSimpleTypeDecimal', 'XSDSimpleTypeString', 'XSDSimpleTypeToken', 'XSDSimpleTypeDate'),
    'musicxml/parser/parser.py': None,
    'musicxml/util/core.py': None,
    'musicxml/xmlelement/containers.py': None,
}
CMP = {ast.Eq: ast.NotEq, ast.NotEq: ast.Eq, ast.Lt: ast.LtE, ast.LtE: ast.Lt, ast.Gt: ast.GtE, ast.GtE: ast.Gt, ast.In: ast.NotIn, ast.NotIn: ast.In,
       ast.Is: ast.IsNot, ast.IsNot: ast.Is}
SKIP_FUNCS = {'__repr__', '__str__', 'compact_repr', 'get_doc', 'get_xsd', '_get_attributes_error_message', 'show_force_valid', 'show_requirements_not_fulfilled'}


def functions_of(tree, only):
    out = []
    for n in tree.body:
        if isinstance(n, ast.ClassDef):
            for m in n.body:
                if isinstance(m, ast.FunctionDef):
                    q = f"{n.name}.{m.name}"
                    if only is None or n.name in only or q in only:
                        out.append((q, m))
        elif isinstance(n, ast.FunctionDef) and only is None:
            out.append((n.name, n))
    return [(q, f) for q, f in out if f.name not in SKIP_FUNCS]


def mutation_points(fn):
    """yield (description, path-to-node, mutator)"""
    pts = []
    for node in ast.walk(fn):
        if isinstance(node, ast.Compare) and len(node.ops) == 1 and type(node.ops[0]) in CMP:
            pts.append(('cmp', node, None))
        elif isinstance(node, ast.BoolOp):
            pts.append(('boolop', node, None))
        elif isinstance(node, (ast.If, ast.While)) or isinstance(node, ast.IfExp):
            pts.append(('negate', node, None))
        elif isinstance(node, ast.Constant) and isinstance(node.value, bool):
            pts.append(('bool', node, None))
        elif isinstance(node, ast.Constant) and isinstance(node.value, int) and not isinstance(node.value, bool) and node.value in (0, 1):
            pts.append(('int', node, None))
        elif isinstance(node, ast.UnaryOp) and isinstance(node.op, ast.USub) and isinstance(node.operand, ast.Constant) and node.operand.value == 1:
            pts.append(('neg1', node, None))
    # statement deletions
    for node in ast.walk(fn):
        for field in ('body', 'orelse'):
            lst = getattr(node, field, None)
            if isinstance(lst, list):
                for i, st in enumerate(lst):
                    if isinstance(st, (ast.Expr, ast.Assign, ast.AugAssign, ast.Raise, ast.Break, ast.Continue)) and not (isinstance(st, ast.Expr) and isinstance(st.value, ast.Constant)):
                        pts.append(('delete', (node, field, i), None))
                    elif isinstance(st, ast.Return) and st.value is not None and not (isinstance(st.value, ast.Constant) and st.value.value is None):
                        pts.append(('return-none', (node, field, i), None))
    return pts


def apply_point(kind, target):
    if kind == 'cmp':
        target.ops = [CMP[type(target.ops[0])]()]
    elif kind == 'boolop':
        target.op = ast.Or() if isinstance(target.op, ast.And) else ast.And()
    elif kind == 'negate':
        target.test = ast.UnaryOp(op=ast.Not(), operand=target.test)
    elif kind == 'bool':
        target.value = not target.value
    elif kind == 'int':
        target.value = 1 - target.value
    elif kind == 'neg1':
        target.op = ast.UAdd()
        target.operand = ast.Constant(value=0)
    elif kind == 'delete':
        node, field, i = target
        getattr(node, field)[i] = ast.Pass()
    elif kind == 'return-none':
        node, field, i = target
        getattr(node, field)[i] = ast.Return(value=ast.Constant(value=None))


def enumerate_mutants(files=None):
    out = []
    for rel, only in TARGETS.items():
        if files and rel not in files:
            continue
        src = open(os.path.join(REPO, rel), encoding='utf-8').read()
        tree = ast.parse(src)
        for q, fn in functions_of(tree, only):
            n_pts = len(mutation_points(fn))
            for k in range(n_pts):
                out.append((rel, q, k))
    return out


def build_mutant(rel, qual, k):
    src = open(os.path.join(REPO, rel), encoding='utf-8').read()
    tree = ast.parse(src)
    only = TARGETS[rel]
    fn = dict(functions_of(tree, only))[qual]
    pts = mutation_points(fn)
    kind, target, _ = pts[k]
    before = ast.unparse(target if not isinstance(target, tuple) else getattr(target[0], target[1])[target[2]])[:100]
    line = (target.lineno if not isinstance(target, tuple) else getattr(target[0], target[1])[target[2]].lineno)
    apply_point(kind, target)
    ast.fix_missing_locations(tree)
    lines = src.split('\n')
    new_fn = ast.unparse(fn)
    indent = ' ' * fn.col_offset
    start = (fn.decorator_list[0].lineno if fn.decorator_list else fn.lineno) - 1
    new_src = '\n'.join(lines[:start] + [indent + l if l else l for l in new_fn.split('\n')] + lines[fn.end_lineno:])
    return new_src, kind, before, line


def run_mutant(spec):
    rel, qual, k = spec
    rec = {'file': rel, 'function': qual, 'k': k}
    tmp = tempfile.mkdtemp(prefix='mxsa-mut-', dir='/dev/shm')
    try:
        try:
            new_src, kind, before, line = build_mutant(rel, qual, k)
        except Exception as e:
            rec['status'] = f'build-error: {e}'
            return rec
        rec.update({'kind': kind, 'before': before, 'line': line})
        root = os.path.join(tmp, 'repo')
        subprocess.check_call(f"cd {REPO} && git ls-files -z | rsync -a --from0 --files-from=- {REPO}/ {root}/", shell=True)
        open(os.path.join(root, rel), 'w', encoding='utf-8').write(new_src)
        try:
            compile(new_src, rel, 'exec')
        except SyntaxError as e:
            rec['status'] = f'does-not-compile: {e}'
            return rec
        ev = os.path.join(tmp, 'ev')
        os.makedirs(ev)
        env = dict(os.environ, MXSA_REPO=root, MXSA_EVIDENCE_DIR=ev)
        r = subprocess.run([os.path.join(VERIF, 'check'), '--all', '--quiet'], capture_output=True, text=True, env=env)
        fired = sorted({l.split('property=')[1].split()[0] for l in r.stdout.splitlines() if l.startswith('VIOLATION')})
        errors = sorted({l.split('property=')[1].split(':')[0] for l in r.stdout.splitlines() if l.startswith('ANALYSIS-ERROR')})
        rec['fired'] = fired
        rec['analysis_errors'] = errors
        if fired:
            rec['status'] = 'caught'
            return rec
        t = subprocess.run(f"cd {root} && {PY} -m pytest -q -x -p no:cacheprovider --timeout=300 2>&1 | tail -1", shell=True, capture_output=True, text=True)
        last = t.stdout.strip().splitlines()[-1] if t.stdout.strip() else ''
        rec['tests'] = last[:80]
        if ' passed' in last and 'failed' not in last and 'error' not in last:
            rec['status'] = 'SURVIVOR' if not errors else 'survivor-analysis-error'
        else:
            rec['status'] = 'killed-by-tests'
        return rec
    finally:
        shutil.rmtree(tmp, ignore_errors=True)


def main():
    ap = argparse.ArgumentParser()
    ap.add_argument('--out', default='/tmp/mutants.jsonl')
    ap.add_argument('--jobs', type=int, default=14)
    ap.add_argument('--limit', type=int)
    ap.add_argument('--files')
    a = ap.parse_args()
    specs = enumerate_mutants(a.files.split(',') if a.files else None)
    if a.limit:
        specs = specs[:a.limit]
    print(len(specs), 'mutants', flush=True)
    counts = {}
    with open(a.out, 'w') as out, ThreadPoolExecutor(max_workers=a.jobs) as ex:
        for i, rec in enumerate(ex.map(run_mutant, specs)):
            counts[rec['status'].split(':')[0]] = counts.get(rec['status'].split(':')[0], 0) + 1
            out.write(json.dumps(rec) + '\n')
            out.flush()
            if (i + 1) % 50 == 0:
                print(i + 1, counts, flush=True)
    print('done', counts)


if __name__ == '__main__':
    main()
