#!/usr/bin/env python3
"""Regenerates MANIFEST.json from the table below (the single place where claims are stated)."""
import json, os

VERIF = os.path.dirname(os.path.dirname(os.path.abspath(__file__)))

COMMON_NOTE = ("Trusted base: CPython's ast module, xml.etree (to read the .xsd files as data), the receiver typing of "
               "mxsa/ and the program normalisation of mxsa/normalise.py (helpers outside reference/functions.json inlined, renamed anchors renamed back, "
               "canonical statement shapes; DESIGN.md sections 10, 11.7, 11.10). The analyser never imports or runs musicxml. ")

CLAIMED = {
    'C03': dict(
        category='translation_validation',
        technique='static table comparison (ast class bindings vs independently parsed XSD), DFA equivalence, dispatch exhaustiveness',
        text=("Translation validation of the generated class tables against the schema, exhaustive over all 441 element classes, "
              "228 complex types, 151 simple types, 45 attribute groups, 27 groups and all (element, attribute) pairs: names, TYPE/"
              "XSD_TREE bindings, XPath literals, _SIMPLE_CONTENT, base classes (value gates), union tables, embedded fragments "
              "(note: DFA language equivalence), eval-name closure, dispatch exhaustiveness of the particle/attribute readers, "
              "and a per-component fingerprint of the loaded schema copy. This is the level static analysis decides exactly: "
              "both sides are tables."),
        note=("Decides that the *description* handed to the matcher and the attribute/type tables equal the schema; does not decide "
              "the matcher's run-time acceptance of words (C02). The pinned .xsd fingerprint stands in for the MusicXML 4.0 standard."),
        design='DESIGN.md section 4, C03'),
}

CLAIMED.update({
    'C14': dict(
        category='other',
        technique='copy-completeness / purity / freshness rules over the CFG and def-use of __deepcopy__ (ast)',
        text=("Decides the whole mechanism the statement rests on: XMLElement.__deepcopy__ passes the current value and the current xsd_check to "
              "the constructor, gives the copy a fresh copy of the current attribute dictionary on every path, deep-copies and re-adds every child "
              "unconditionally, stores nothing into the source and binds no field of the copy to an object of the source."),
        note="Does not decide that re-adding the children in schema order is accepted by the matcher (C02), nor isolation through shared class-level state (C13).",
        design='DESIGN.md section 4, C14'),
    'C17': dict(
        category='other',
        technique='CFG ordering rule (open-after-validate) + encoding discipline over every open() of the import closure (ast, call graph)',
        text=("Decides, on every path of every function of the runtime closure that opens a file for writing, that nothing whose call closure reaches the "
              "final checks or the ElementTree construction/serialisation runs after the open, that only constants and values computed before the open are "
              "written, that the written text is the XML declaration followed by exactly to_string(intelligent_choice), and that every file-opening call of "
              "the closure (schema files at import, parser input, write) is binary or names its encoding, equal to the declared one for write()."),
        note="Partial writes caused by the operating system after the text exists are outside the statement. ElementTree's own decoding of binary input is trusted.",
        design='DESIGN.md section 4, C17'),
    'C18': dict(
        category='other',
        technique='CFG reachability under the branch assumption self.xsd_check=False (guard dominance) + escaping-exception summaries',
        text=("Decides for add_child, remove, replace_child, get_children, _final_checks, to_string: with the element's own flag off no statement that touches "
              "matcher state, raises a structural exception or calls something that can let one escape is reachable; the unchecked get_children returns the "
              "insertion list; _final_checks consults only the element's own flag, does nothing but recurse when it is off, recurses into all children under both "
              "settings, and performs its three checks exactly when it is on; the shared bookkeeping of add_child happens under both settings."),
        note="Does not decide byte-identity with the checked build for schema-valid orders (needs the matcher, C02).",
        design='DESIGN.md section 4, C18'),
})

CLAIMED.update({
    'C01': dict(
        category='other',
        technique='CFG must-pass-through / guard analysis, field-ownership rule, reaching definitions, ordering tables by abstract evaluation (ast)',
        text=("Decides five structural necessary conditions of the statement, each over all paths of the functions involved: (a) under xsd_check, ET.tostring is "
              "dominated by the final checks, whose missing-children rejection depends only on xsd_check, the container's existence and the container's own verdict, "
              "and which visit every child; (b) the serialiser iterates the ordered view, which is the leaf-order comprehension without re-ordering or dropping filter; "
              "(c) only the four owner functions write a leaf's element list and each store of an element is dominated by a name-equality test whose failing edge raises; "
              "(d) every reaching definition of the leaf that receives a new element is max-filtered; (e) the count-vs-minOccurs/maxOccurs comparisons have the XSD's "
              "three-cell tables; plus the decision tables of the required-children checkers (R-EXH.validate-started), coherence of memo fields (R-MEMO) and the rule that "
              "the requirement-flag initialiser does not overwrite decided flags (R-INIT.flags, KF-19)."),
        note=("Does NOT decide that the matcher's leaf selection, choice commitment, duplication and re-homing yield a word of the content model for every history "
              "(run-time behaviour; see C02 under not_applicable). A change that breaks only that part is not detected."),
        design='DESIGN.md section 4, C01'),
    'C04': dict(
        category='other',
        technique='CFG dominance (check-before-store, guards of the rejections), table comparison of attribute names/types/use against the XSD, name-space disjointness',
        text=("Decides: every key stored into the attribute dictionary has passed _check_attribute, which rejects undeclared names and applies the attribute's simple type; "
              "in-place edits of the dictionary concern None-valued keys only; the required-attribute rejection is guarded by nothing but complex-typedness, is_required and "
              "absence from the current attributes; is_required <=> use='required'; attributes are serialised verbatim; schema attribute names are disjoint from everything "
              "that diverts a dot access; no function of the validation path is wrapped in a cache keyed by argument values (2 == 2.0 == True); plus the attribute-table rows of C03 for all (element, attribute) pairs (names incl. xml:/xlink: prefixes, types, use)."),
        note="Does not decide the value half of the iff (C05). Known findings KF-09/10/11/17/18 are genuine defects recorded in known_findings.json.",
        design='DESIGN.md section 4, C04'),
})

CLAIMED.update({
    'C05': dict(
        category='other',
        technique='facet-dispatch exhaustiveness vs the XSD, ordering tables of bound comparisons (abstract evaluation), regex-dialect scan, gate-to-sink def-use identity',
        text=("Decides: which value gate each of the 151 simple types inherits (base-class table vs restriction@base); every facet the schema uses is handled and the "
              "schema has none of the shapes the gate does not model; patterns are applied with fullmatch and every XSD-only regex construct in use is rewritten, the "
              "translated patterns compile, the replacement classes equal the XML 1.0 name productions; the rejecting comparison of every bound facet and primitive gate "
              "has the facet's three-cell table; the enumeration list is the type's own and per instance; the value validated is the value stored and rendered along the "
              "whole setter chain; the whitespace collapse in front of token patterns treats exactly the four XML whitespace characters as blanks; no gate is memoised by "
              "argument value; bool/non-finite floats and text on no-content types are reported (known findings KF-12/13/14)."),
        note="Does not decide two-sided exactness for arbitrary values (the collapsed form of every token, xs:date arithmetic, unions over arbitrary values).",
        design='DESIGN.md section 4, C05'),
})

CLAIMED.update({
    'C08': dict(
        category='other',
        technique='finite abstract evaluation of the parser ladders (extracted from the AST) against gate families read from the class tables; name-map inverses',
        text=("Decides the reader/writer agreements every round trip needs: the two conversion ladders of the parser are extracted as rungs with their handlers; every "
              "gate family (STR/INT/DEC/forced/union/no-content, derived from _TYPES/_UNION/_FORCED_PERMITTED of all element TYPEs and attribute types) x every lexical "
              "category the writer can emit reaches an accepting rung, earlier rungs fail with an exception class that rung's handler catches (the gates' raise classes "
              "are read from the source), integer content ends on the int rung; tag<->class and attribute-key maps are inverse; text is only stripped."),
        note="Does not decide float spelling fidelity (C05) nor re-acceptance of children in file order (matcher, C02).",
        design='DESIGN.md section 4, C08'),
    'C09': dict(
        category='other',
        technique='consumption / no-swallowing rules over the AST and CFG of the parser, key-space table comparison (Clark notation vs attribute tables)',
        text=("Decides the no-silent-loss half: the parser reads tag, text, every attribute and every child (unconditional loops on every path; tail is a known finding); the text is "
              "taken exactly when the node has text and is bound on every path; the converter returns the element it constructed; "
              "every except handler retries the same target or re-raises, every partwise tag resolves to its class in the parser's namespace, text is only stripped, the "
              "input is opened in binary mode, and the attribute key spaces (xml:/xlink: references, reserved names) agree with what ElementTree delivers."),
        note="Does not decide that every schema-valid file is accepted (needs the matcher, C02) nor value fidelity. Known findings KF-09/10/11/16/17.",
        design='DESIGN.md section 4, C09'),
})

CLAIMED.update({
    'C15': dict(
        category='other',
        technique='ownership/layering rule over write effects, path-sensitive decision table on the CFG (branch assumptions), name-table bijection, guard analysis of __getattr__',
        text=("Decides: __setattr__, _convert_attribute_to_child and __getattr__ store nothing themselves (every effect is a call of the explicit API); for the six "
              "combinations of (child found, value None, value is an element) exactly the corresponding explicit operation is reachable; the class lookup is dominated by "
              "the possible-children membership test; xml_<name> <-> element name is a bijection agreeing with the class naming rule on all 441 names; __getattr__ returns "
              "stored attributes by presence, None for declared attributes and possible children, the child when present (whether or not the container lists its name), AttributeError otherwise; attribute names are "
              "disjoint from everything that diverts a dot access (known finding KF-11: name)."),
        note="Equivalence of the *explicit* operations themselves (what add_child/replace_child do) is the business of C01/C06/C10.",
        design='DESIGN.md section 4, C15'),
    'C16': dict(
        category='other',
        technique='sink-discipline rule (ast), dominance of the fresh-element construction (CFG), interprocedural write-effect summaries specialised on intelligent_choice=False',
        text=("Decides: to_string returns ET.tostring(element, encoding='unicode') plus whitespace constants; the element is built only by ET.Element(name, {k: str(v)}), "
              ".text = str(value), append(child.et_xml_element), ET.indent, with no markup in string constants; a fresh element is constructed on every path and the "
              "et_xml_element property rebuilds on every access; the call closure of to_string(intelligent_choice=False), with the constant propagated through four calls, "
              "writes no primary state of any existing object; the only parent-dependent read of the builder is get_level() for ET.indent."),
        note="ElementTree's escaping is trusted. Requirement flags are classified as derived state. intelligent_choice=True is documented to restructure and is excluded.",
        design='DESIGN.md section 4, C16'),
})

CLAIMED.update({
    'C13': dict(
        category='other',
        technique='alias/ownership discipline: freshness of __init__ bindings, template-copy rule, interprocedural write effects with roots (self/param/fresh/class/module) and owner families',
        text=("Decides the mechanism the statement rests on: every __init__ field of the nine stateful classes is bound to a fresh or caller-owned object; class-level "
              "mutables are never mutated through an instance; the container templates are only ever copied, by copy routines that return constructor calls; and every "
              "write of the API closure that reaches an object shared between instances (class-level, module-level, schema-family objects) is one of the enumerated "
              "idempotent lazy caches with an argument-independent value, or a new per-class table kept in the class's own dictionary / a complete fresh table "
              "registered under a key of a class-level registry (fill, then publish; guarded; not edited afterwards); plus the deep-copy rules of C14."),
        note="Field-based, flow-insensitive aliasing. A fresh matcher object's references to schema nodes are treated as shared. ElementTree objects of the schema are read-only by the same rule.",
        design='DESIGN.md section 4, C13'),
    'C19': dict(
        category='other',
        technique='call-graph reachability of output effects, backward propagation of raise sites minus handlers, schema-derived discharge of unimplemented branches, parameter-to-subscript taint',
        text=("Decides over the call closure of the public element API: no output effect (print, sys.std*, ET.dump, logging/warnings calls) is reachable nor executed at "
              "import; every explicit raise of an undocumented class that can escape an entry point is either caught on every call path or discharged by a schema-derived "
              "argument (particle tags, minOccurs domain, content kinds, parent/child premise), else reported; no entry-point parameter reaches a subscript unchecked; no "
              "exception object is built and dropped; every eval() site's schema-derived name domain resolves in its module's namespace; the child-shortcut's name "
              "arithmetic sits behind its membership gate; an argument is not dereferenced before its type was checked; removing an attribute that is not set cannot raise."),
        note="Does not decide 'never hangs', RecursionError, or implicit exceptions outside the catalogue. Known findings KF-05/06/07/08/09/17.",
        design='DESIGN.md section 4, C19'),
    'C20': dict(
        category='other',
        technique='shared-write enumeration from interprocedural effect summaries + fill-then-publish shape rule on the CFG (guard, single store, no later mutation through the location or an alias)',
        text=("A data-race-freedom argument by construction, covering all interleavings: the only state shared between threads that the build/validate/serialise closure "
              "writes is the enumerated set of lazy caches; each store is guarded by a test of its own location, stores a value that depends on class-level inputs only, "
              "and the stored object is never edited in place or through an alias afterwards; no process-global switch (stdout redirection, locale, cwd, environment) is "
              "reachable from those entry points."),
        note="Trusted base: a single attribute store and list.append are atomic under the GIL; ElementTree reads are thread-safe; each thread works on its own element trees.",
        design='DESIGN.md section 4, C20'),
})

CLAIMED.update({
    'C06': dict(
        category='other',
        technique='field-ownership rule over all write effects (typed receivers) + must-pass-through pairing on the CFG under both xsd_check settings, with object identity by def-use',
        text=("Decides: only the owner functions write the insertion list, the leaf lists, the two back-pointers and the container root; on every normal path add_child "
              "hands the same child to the matcher, appends it and sets its parent; remove takes it off the list, detaches it from its own leaf, clears both back-pointers; "
              "replace_child swaps list position and leaf slot by identity of the removed child, sets the new child's pointers and clears the removed child's parent; "
              "duplicated branches are pruned only below a wrapper, only while another occurrence remains and only when no leaf of the branch holds a child (path search in the "
              "product of the CFG with the boolean flag variables); after re-homing every sub-tree of the trial copy is swapped in; the trial copies of the intelligent choice "
              "receive every attached element (collections derived from get_attached_elements() by name filters and list moves only, a copy made per element of a collection "
              "also gets the rest: R-CONS.rehome); lazily filled instance fields are reset around every write of the primary state they are computed from (R-MEMO)."),
        note=("Does not decide conservation of children inside the rest of the matcher's restructuring (run-time behaviour). KF-01/KF-02 (reported under C10) are C06 "
              "violations too. Two genuine defects found by these rules were repaired in /repo (fix 09fcebd, fix 58e301d)."),
        design='DESIGN.md section 4, C06'),
    'C10': dict(
        category='other',
        technique='interprocedural write-before-raise analysis (R-ATOM): effect summaries with freshness roots over call-graph SCCs, CFG reachability write->raise, mechanical pruning of dead raise sites',
        text=("Decides, from add_child, remove, replace_child, _set_attributes/__setattr__, the value setter, to_string and write: no write to primary state of an object that "
              "existed before the call is followed, on any path through the call graph, by a raise that can still escape, except the enumerated known findings (KF-01 attach "
              "before the occurrence check, KF-02/02b trial copies rewriting back-pointers); raise sites are pruned only by literal-argument guards, single-writer "
              "invariants, the parent/child premise, negated call-site guards or the selector-validated premise; a new raise site after a known unprotected write is a new violation."),
        note=("Assumes internal shape guards of the matcher infrastructure cannot fire, and classifies iterator caches, requirement flags and duplicate re-wiring as derived "
              "state (can only make the rule miss). Does not decide equality of acceptance of every next child."),
        design='DESIGN.md section 4, C10'),
    'C11': dict(
        category='other',
        technique='set/reset pairing of matcher flags between the call closures of add_child and remove (write effects + loop extent), guard analysis of the resets',
        text=("Decides for each matcher flag written on the insertion path whether the call closure of remove() contains a reset with the same traversal extent: duplicates "
              "are pruned (guards checked), requirement flags and the immediate choice commitment are reset exactly when the removed child was the last element of its leaf "
              "(the guard of the reset is evaluated for leaf counts 0 / 1 / >= 2, before or after the detachment by dominance) and under no further condition; force_validate "
              "has no reset (KF-03) and chosen_child is reset without the path loop the insertion uses (KF-04); only owner functions re-point the container root; the flag "
              "initialiser fills only flags that are still None (R-INIT.flags, KF-19); memo fields are coherent (R-MEMO)."),
        note="Does not decide observational equivalence with a rebuilt twin (run-time behaviour).",
        design='DESIGN.md section 4, C11'),
})

NOT_APPLICABLE = {
    'C02': "Acceptance and order preservation for every word of 94 regular languages is the run-time behaviour of a heuristic matcher (first-fit leaf choice, choice commitment, duplication) on a mutable tree; no structural rule bounds the reachable tree states, and running the matcher (concretely or symbolically) is a different technique family. The one structural by-product (an unimplemented branch reachable from a valid word) is reported under C19.",
    'C07': "'Every accepted state has a completion' is an existential claim per reachable matcher state; the reachable states are defined by execution histories, not by the shape of the code. The rejection points that exist are covered as ordering/atomicity obligations of C01/C10, which is not a verdict on C07.",
    'C12': "Same as C02 with permutations added: whether first-fit plus re-homing finds the unique arrangement is a property of the algorithm's decisions on concrete multisets. The only shape-level part (serialised by leaf order) is C01.b; claiming C12 through it would be a proxy.",
}

PENDING = "check under construction (DESIGN.md section 9); not claimed yet"


def main():
    ids = [json.loads(l)['id'] for l in open(os.path.join(VERIF, 'properties.jsonl'))]
    checks = []
    for pid in ids:
        if pid not in CLAIMED:
            continue
        c = CLAIMED[pid]
        checks.append({
            'property_id': pid,
            'quick_cmd': f"./check {pid} --tier quick",
            'thorough_cmd': f"./check {pid} --tier thorough",
            'evidence_file': f"/verif/evidence/{pid}.json",
            'replay_cmd_template': f"./check {pid} --replay {{path}}",
            'engine': 'mxsa',
            'level_claimed': {'category': c['category'], 'text': c['text'], 'design_ref': c['design']},
            'level_note': COMMON_NOTE + c['note'],
            'technique': c['technique'],
        })
    na = []
    for pid in ids:
        if pid in CLAIMED:
            continue
        na.append({'property_id': pid, 'reason': NOT_APPLICABLE.get(pid, PENDING)})
    man = {
        'version': 1,
        'setup_cmd': "/venv/bin/python -m compileall -q mxsa >/dev/null 2>&1 || python3 -m compileall -q mxsa >/dev/null 2>&1 || true",
        'hooks': {'guard': 'MUSICXML_VERIF',
                  'enable': 'no hooks: the analyser reads the source of /repo (ast) and its .xsd files; nothing is instrumented',
                  'baseline_off_cmd': 'cd /repo && /venv/bin/python -m pytest -ra -q -p no:cacheprovider --timeout=900 --continue-on-collection-errors',
                  'source_commits': [], 'add_only': True},
        'engines': [{'name': 'mxsa', 'path': '/verif/mxsa', 'serves_properties': [c['property_id'] for c in checks],
                     'kind_free_text': 'repository-specific static analyser (Python ast + XSD as data): source model with C3 MRO and star-import namespaces, independent XSD reader, automata, statement CFG with dominators, receiver typing, call graph, effect summaries, rule families R-TAB/R-EXH/R-DOM/R-OWN/R-PAIR/R-ATOM/R-COPY/R-EFF/R-LADDER/R-ORD'}],
        'checks': checks,
        'not_applicable': na,
        'notes': ("Exit codes: 0 held (KNOWN-FINDING lines possible), 1 VIOLATION, 2 ANALYSIS-ERROR (vanished anchor / idiom not understood). "
                  "Known findings: /verif/known_findings.json. Thorough tier = quick decision procedure + sensitivity controls (must-fire / must-stay-silent "
                  "edits on scratch copies outside /repo and /verif)."),
    }
    with open(os.path.join(VERIF, 'MANIFEST.json'), 'w') as f:
        json.dump(man, f, indent=1)
    print('checks:', [c['property_id'] for c in checks])


if __name__ == '__main__':
    main()
