#!/usr/bin/env python3
"""Confirm the stored behaviour-preserving patches (benign/Bxy) myself: the patch applies to /repo's HEAD, the full test suite passes with it,
and the differential transcript of the matching script (benign/diff_test_*.py, written by the sub-agents) is byte-identical on the unchanged and
the patched copy.  Writes benign/Bxy/confirmed.json."""
import hashlib, json, os, shutil, subprocess, sys, tempfile
from concurrent.futures import ThreadPoolExecutor
VERIF = os.path.dirname(os.path.dirname(os.path.abspath(__file__)))
PY = '/venv/bin/python'
SCRIPT = {'1': 'diff_test_xmlelement.py', '2': 'diff_test_container.py', '3': 'diff_test_schema_layer.py', '4': 'diff_test_validation_io.py',
          '6': 'diff_test_histories.py', '7': 'diff_test_container_state.py', '8': 'diff_test_element_api.py', '9': 'diff_test_schema_value_path.py'}


def sh(cmd, **kw):
    return subprocess.run(cmd, shell=True, capture_output=True, text=True, **kw)


def one(bid):
    path = os.path.join(VERIF, 'benign', bid)
    tmp = tempfile.mkdtemp(prefix=f'mxsa-benign-{bid}-', dir='/dev/shm')
    try:
        for name in ('ref', 'mut'):
            sh(f"mkdir -p {tmp}/{name} && git -C /repo archive HEAD | tar -x -C {tmp}/{name}")
        r = sh(f"patch -p1 -s -d {tmp}/mut -i {path}/patch.diff")
        if r.returncode != 0:
            return bid, {'ok': False, 'why': 'patch does not apply'}
        t = sh(f"cd {tmp}/mut && {PY} -m pytest -q -p no:cacheprovider -x 2>&1 | tail -1")
        last = t.stdout.strip()
        tests_ok = ' passed' in last and 'failed' not in last and 'error' not in last
        if bid.startswith('R'):
            # an upstream-style repair of a recorded finding: its demonstration fails on the unchanged copy and passes on the repaired one
            d_ref = sh(f"cd {path} && PYTHONPATH={tmp}/ref {PY} -W ignore demo.py", timeout=900)
            d_mut = sh(f"cd {path} && PYTHONPATH={tmp}/mut {PY} -W ignore demo.py", timeout=900)
            ok = tests_ok and d_ref.returncode != 0 and d_mut.returncode == 0
            rec = {'ok': ok, 'base': sh('git -C /repo rev-parse --short HEAD').stdout.strip(), 'test_suite': last[:60], 'demo_exit_unchanged': d_ref.returncode,
                   'demo_exit_repaired': d_mut.returncode}
            json.dump(rec, open(os.path.join(path, 'confirmed.json'), 'w'), indent=1)
            return bid, rec
        listed = os.path.join(path, 'scripts.txt')
        scripts = [l.strip() for l in open(listed) if l.strip()] if os.path.isfile(listed) else [SCRIPT[bid[1]]]
        os.makedirs(f"{tmp}/run")
        digests = {}
        for name in ('ref', 'mut'):
            parts = []
            for sc in scripts[:3]:
                script = os.path.join(VERIF, 'benign', sc)
                p = subprocess.run(f"cd {tmp}/run && PYTHONHASHSEED=0 PYTHONPATH={tmp}/{name} DIFF_HISTORIES=120 {PY} -W ignore {script} 2>/dev/null | sha256sum", shell=True,
                                   capture_output=True, text=True, timeout=1800)
                parts.append(p.stdout.split()[0] if p.stdout.split() else 'none')
            digests[name] = '+'.join(parts)
        ok = tests_ok and digests['ref'] == digests['mut'] and 'none' not in digests['ref']
        rec = {'ok': ok, 'base': sh('git -C /repo rev-parse --short HEAD').stdout.strip(), 'test_suite': last[:60], 'differential_script': ', '.join(scripts[:3]),
               'transcript_sha256_unchanged': digests['ref'], 'transcript_sha256_patched': digests['mut']}
        json.dump(rec, open(os.path.join(path, 'confirmed.json'), 'w'), indent=1)
        return bid, rec
    finally:
        shutil.rmtree(tmp, ignore_errors=True)


ids = sorted(d for d in os.listdir(os.path.join(VERIF, 'benign')) if os.path.isfile(os.path.join(VERIF, 'benign', d, 'patch.diff')))
if len(sys.argv) > 1:
    ids = [i for i in ids if i in sys.argv[1:]]
bad = 0
with ThreadPoolExecutor(max_workers=8) as ex:
    for bid, rec in ex.map(one, ids):
        print(bid, rec.get('ok'), rec.get('test_suite', rec.get('why')))
        bad += not rec.get('ok')
print(len(ids), 'patches,', bad, 'not confirmed')
