#!/usr/bin/env python3
"""Debug aid: print the normalised form of a function.  usage: MXSA_REPO=<tree> tools/show_normalised.py <module relpath> <qualname>"""
import ast, os, sys
sys.path.insert(0, os.path.dirname(os.path.dirname(os.path.abspath(__file__))))
from mxsa.srcmodel import SourceModel
from mxsa.normalise import module_function_quals
sm = SourceModel()
for m in sm.modules.values():
    if m.relpath == sys.argv[1]:
        for q, node, cls, parent in module_function_quals(m.tree):
            if q == sys.argv[2]:
                print(ast.unparse(node))
print({k: v for k, v in sm.normalisation.items() if k not in ('changed_modules',)}, file=sys.stderr)
