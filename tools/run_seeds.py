#!/usr/bin/env python3
"""Run the registered checks against seeded changes, each applied to a scratch copy of /repo's working tree
(under /dev/shm, removed afterwards).  Usage: tools/run_seeds.py [--dir /verif/seeded] [--props C01,C03] [seed ids...]"""
import argparse, json, os, shutil, subprocess, sys, tempfile
from concurrent.futures import ThreadPoolExecutor

VERIF = os.path.dirname(os.path.dirname(os.path.abspath(__file__)))


def find_seeds(d):
    out = []
    for root, dirs, files in os.walk(d):
        if 'patch.diff' in files:
            out.append(root)
    return sorted(out)


def run_one(seed_dir, props):
    sid = os.path.relpath(seed_dir, os.path.dirname(os.path.dirname(seed_dir))) if seed_dir.count('/') > 2 else seed_dir
    tmp = tempfile.mkdtemp(prefix='mxsa-seed-', dir='/dev/shm')
    try:
        subprocess.check_call(f"cd /repo && git ls-files -z | rsync -a --from0 --files-from=- /repo/ {tmp}/repo/", shell=True)
        r = subprocess.run(['patch', '-p1', '-s', '-d', f"{tmp}/repo", '-i', os.path.join(seed_dir, 'patch.diff')],
                           capture_output=True, text=True)
        if r.returncode != 0:
            return sid, {'error': 'patch failed: ' + r.stdout[-300:] + r.stderr[-300:]}
        ev = os.path.join(tmp, 'evidence')
        os.makedirs(ev)
        env = dict(os.environ, MXSA_REPO=f"{tmp}/repo", MXSA_EVIDENCE_DIR=ev)
        res = {}
        for p in props:
            r = subprocess.run([os.path.join(VERIF, 'check'), p, '--quiet'], capture_output=True, text=True, env=env)
            lines = [l for l in r.stdout.splitlines() if l.startswith(('VIOLATION', 'ANALYSIS-ERROR', '  at ', '  rule'))]
            viol = []
            cur = None
            for l in r.stdout.splitlines():
                if l.startswith('VIOLATION'):
                    cur = {'line': l}
                    viol.append(cur)
                elif cur is not None and l.startswith('  '):
                    cur.setdefault('ctx', []).append(l.strip())
                elif l.startswith('ANALYSIS-ERROR'):
                    viol.append({'line': l})
            res[p] = {'rc': r.returncode, 'viol': viol, 'stderr': r.stderr[-500:] if r.returncode == 2 else ''}
        return sid, res
    finally:
        shutil.rmtree(tmp, ignore_errors=True)


def main():
    ap = argparse.ArgumentParser()
    ap.add_argument('--dir', default=os.path.join(VERIF, 'seeded'))
    ap.add_argument('--props')
    ap.add_argument('--verbose', '-v', action='store_true')
    ap.add_argument('ids', nargs='*')
    a = ap.parse_args()
    if a.props:
        props = a.props.split(',')
    else:
        props = [c['property_id'] for c in json.load(open(os.path.join(VERIF, 'MANIFEST.json')))['checks']]
    seeds = find_seeds(a.dir)
    if a.ids:
        seeds = [s for s in seeds if any(i in s for i in a.ids)]
    with ThreadPoolExecutor(max_workers=8) as ex:
        results = list(ex.map(lambda s: run_one(s, props), seeds))
    caught = 0
    for sid, res in results:
        if 'error' in res:
            print(f"{sid}: {res['error']}")
            continue
        hits = [p for p, r in res.items() if r['rc'] == 1]
        errs = [p for p, r in res.items() if r['rc'] == 2]
        caught += bool(hits)
        print(f"{sid}: caught-by={hits or '-'}" + (f" analysis-error={errs}" if errs else ''))
        if a.verbose:
            for p, r in res.items():
                for v in r['viol']:
                    print('    ', p, ' | '.join(v.get('ctx', [])[1:3]) or v['line'])
                if r['rc'] == 2:
                    print('    ', p, r['stderr'][-300:])
    print(f"{caught}/{len(results)} seeds caught")


if __name__ == '__main__':
    main()
