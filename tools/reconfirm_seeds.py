#!/usr/bin/env python3
"""Re-confirm every stored seed against /repo's current HEAD (after a fix: commit moved it): the patch still applies, the full test
suite passes with it, the demonstration exits 0 on the unchanged copy and non-zero on the changed one.  Adds `reconfirmed` to meta.json."""
import json, os, shutil, subprocess, sys, tempfile
from concurrent.futures import ThreadPoolExecutor
VERIF = os.path.dirname(os.path.dirname(os.path.abspath(__file__)))
PY = '/venv/bin/python'


def sh(cmd, **kw):
    return subprocess.run(cmd, shell=True, capture_output=True, text=True, **kw)


def one(sid):
    path = os.path.join(VERIF, 'seeded', sid)
    tmp = tempfile.mkdtemp(prefix=f'mxsa-reconfirm-{sid}-', dir='/dev/shm')
    try:
        for name in ('ref', 'mut'):
            sh(f"mkdir -p {tmp}/{name} && git -C /repo archive HEAD | tar -x -C {tmp}/{name}")
        r = sh(f"patch -p1 -s -d {tmp}/mut -i {path}/patch.diff")
        if r.returncode != 0:
            return sid, {'ok': False, 'why': 'patch does not apply: ' + (r.stdout + r.stderr)[-200:]}
        t = sh(f"cd {tmp}/mut && {PY} -m pytest -q -p no:cacheprovider -x 2>&1 | tail -1")
        last = t.stdout.strip()
        tests_ok = ' passed' in last and 'failed' not in last and 'error' not in last
        d_ref = sh(f"cd {path} && PYTHONPATH={tmp}/ref {PY} -W ignore demo.py", timeout=900)
        d_mut = sh(f"cd {path} && PYTHONPATH={tmp}/mut {PY} -W ignore demo.py", timeout=900)
        ok = tests_ok and d_ref.returncode == 0 and d_mut.returncode != 0
        rec = {'ok': ok, 'base': sh('git -C /repo rev-parse --short HEAD').stdout.strip(), 'test_suite': last[:60], 'demo_exit_unchanged': d_ref.returncode,
               'demo_exit_changed': d_mut.returncode}
        mp = os.path.join(path, 'meta.json')
        meta = json.load(open(mp))
        meta['reconfirmed'] = rec
        json.dump(meta, open(mp, 'w'), indent=1)
        return sid, rec
    finally:
        shutil.rmtree(tmp, ignore_errors=True)


ids = sorted(d for d in os.listdir(os.path.join(VERIF, 'seeded')) if os.path.isfile(os.path.join(VERIF, 'seeded', d, 'patch.diff')))
if len(sys.argv) > 1:
    ids = [i for i in ids if i in sys.argv[1:]]
bad = 0
with ThreadPoolExecutor(max_workers=8) as ex:
    for sid, rec in ex.map(one, ids):
        if not rec.get('ok'):
            bad += 1
            print(sid, rec)
print(len(ids), 'seeds,', bad, 'not confirmed on the current HEAD')
