#!/usr/bin/env python3
"""Write reference/functions.json: the functions (qualified names per file, with their parameter names and the names they call) and
the stored attribute names (with the functions that mention them) of the tree the rules were written against.
mxsa/normalise.py uses it to (1) give renamed functions / fields their reference names back and (2) inline helpers that are not in
the inventory.  Regenerate only together with a review of the rules."""
import json, os, sys
VERIF = os.path.dirname(os.path.dirname(os.path.abspath(__file__)))
sys.path.insert(0, VERIF)
os.environ['MXSA_NO_NORMALISE'] = '1'
from mxsa.srcmodel import SourceModel
from mxsa.normalise import module_function_quals, function_profile, field_profiles
sm = SourceModel()
inv = {}
for m in sm.modules.values():
    quals = {q: function_profile(node) for q, node, cls, parent in module_function_quals(m.tree)}
    if quals:
        inv[m.relpath] = quals
import ast
module_names = {}
for m in sm.modules.values():
    names = set()
    for st in m.tree.body:
        if isinstance(st, ast.Assign):
            names |= {t.id for t in st.targets if isinstance(t, ast.Name)}
        elif isinstance(st, ast.AnnAssign) and isinstance(st.target, ast.Name):
            names.add(st.target.id)
    if names:
        module_names[m.relpath] = sorted(names)
out = {'functions': {k: inv[k] for k in sorted(inv)}, 'fields': field_profiles(sm), 'module_names': module_names}
json.dump(out, open(os.path.join(VERIF, 'reference', 'functions.json'), 'w'), indent=0, sort_keys=True)
print(sum(len(v) for v in inv.values()), 'functions in', len(inv), 'files;', len(out['fields']), 'stored attribute names')
