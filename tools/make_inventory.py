#!/usr/bin/env python3
"""Write reference/functions.json: the functions (qualified names per file) of the tree the rules were written against.
mxsa/normalise.py inlines helpers that are not in this inventory.  Regenerate only together with a review of the rules."""
import json, os, sys
VERIF = os.path.dirname(os.path.dirname(os.path.abspath(__file__)))
sys.path.insert(0, VERIF)
os.environ['MXSA_NO_NORMALISE'] = '1'
from mxsa.srcmodel import SourceModel
from mxsa.normalise import module_function_quals
sm = SourceModel()
inv = {m.relpath: sorted(q for q, *_ in module_function_quals(m.tree)) for m in sm.modules.values()}
inv = {k: v for k, v in sorted(inv.items()) if v}
json.dump(inv, open(os.path.join(VERIF, 'reference', 'functions.json'), 'w'), indent=0, sort_keys=True)
print(sum(len(v) for v in inv.values()), 'functions in', len(inv), 'files')
