#!/usr/bin/env python3
"""Confirm seeded changes delivered by sub-agents (default /tmp/seed-out/<Cxx>/<v>/) and keep the confirmed ones as
/verif/seeded/<Cxx><v>/.  For each: fresh scratch copy of /repo's HEAD -> apply patch -> full test suite must pass ->
demo must exit 0 on the unchanged copy and non-zero on the changed copy."""
import json, os, shutil, subprocess, sys, tempfile
from concurrent.futures import ThreadPoolExecutor

VERIF = os.path.dirname(os.path.dirname(os.path.abspath(__file__)))
SRC = sys.argv[1] if len(sys.argv) > 1 else '/tmp/seed-out'
PREFIX = sys.argv[2] if len(sys.argv) > 2 else ''
PY = '/venv/bin/python'


def sh(cmd, **kw):
    return subprocess.run(cmd, shell=True, capture_output=True, text=True, **kw)


def confirm(path):
    prop, var = path.split('/')[-2:]
    sid = f"{PREFIX}{prop}{var}"
    tmp = tempfile.mkdtemp(prefix=f'mxsa-confirm-{sid}-', dir='/dev/shm')
    rec = {'id': sid, 'property': prop}
    try:
        for name in ('ref', 'mut'):
            sh(f"mkdir -p {tmp}/{name} && git -C /repo archive HEAD | tar -x -C {tmp}/{name}")
        r = sh(f"patch -p1 -s -d {tmp}/mut -i {path}/patch.diff")
        if r.returncode != 0:
            rec['error'] = 'patch does not apply to HEAD: ' + (r.stdout + r.stderr)[-200:]
            return rec
        t = sh(f"cd {tmp}/mut && {PY} -m pytest -q -p no:cacheprovider --timeout=900 -x 2>&1 | tail -3")
        rec['tests'] = t.stdout.strip().splitlines()[-1] if t.stdout.strip() else ''
        tests_ok = ' passed' in rec['tests'] and 'failed' not in rec['tests'] and 'error' not in rec['tests']
        d_ref = sh(f"cd {path} && PYTHONPATH={tmp}/ref {PY} -W ignore demo.py", timeout=900)
        d_mut = sh(f"cd {path} && PYTHONPATH={tmp}/mut {PY} -W ignore demo.py", timeout=900)
        rec['demo_ref_rc'] = d_ref.returncode
        rec['demo_mut_rc'] = d_mut.returncode
        rec['demo_mut_tail'] = (d_mut.stdout + d_mut.stderr).strip().splitlines()[-1:] 
        rec['confirmed'] = bool(tests_ok and d_ref.returncode == 0 and d_mut.returncode != 0)
        if rec['confirmed']:
            dst = os.path.join(VERIF, 'seeded', sid)
            os.makedirs(dst, exist_ok=True)
            shutil.copy(f"{path}/patch.diff", dst)
            shutil.copy(f"{path}/demo.py", dst)
            meta = {}
            try:
                meta = json.load(open(f"{path}/meta.json"))
            except Exception as e:
                meta = {'note': f'agent meta.json unreadable: {e}'}
            out = {'id': sid, 'property': prop, 'summary': meta.get('summary'), 'needs': meta.get('needs'), 'files': meta.get('files'),
                   'agent_commands': meta.get('commands'),
                   'confirmed_by_me': {'base': sh('git -C /repo rev-parse --short HEAD').stdout.strip(),
                                       'procedure': 'git archive HEAD -> scratch copy under /dev/shm; patch -p1; full pytest suite; demo.py with PYTHONPATH=<unchanged copy> and PYTHONPATH=<changed copy>; scratch removed',
                                       'test_suite': rec['tests'], 'demo_exit_unchanged': d_ref.returncode, 'demo_exit_changed': d_mut.returncode,
                                       'demo_last_line_changed': rec['demo_mut_tail']}}
            json.dump(out, open(os.path.join(dst, 'meta.json'), 'w'), indent=1)
        return rec
    except subprocess.TimeoutExpired:
        rec['error'] = 'timeout'
        return rec
    finally:
        shutil.rmtree(tmp, ignore_errors=True)


paths = sorted(os.path.join(SRC, p, v) for p in os.listdir(SRC) for v in os.listdir(os.path.join(SRC, p))
               if os.path.isfile(os.path.join(SRC, p, v, 'patch.diff')) and os.path.isfile(os.path.join(SRC, p, v, 'demo.py')))
with ThreadPoolExecutor(max_workers=6) as ex:
    for rec in ex.map(confirm, paths):
        print(json.dumps(rec))
