#!/usr/bin/env python3
"""Exploration aid (not a check): behaviour-preserving *extract-method* variants of the hand-written code of the runtime
closure.  A contiguous block of statements of a function becomes a new private method / function; the variables it reads
become parameters, the variables it defines and that are used later are returned.  Every registered check must stay
silent on such a variant; one that fires is a false alarm to repair (the rule depends on where the code is written,
not on what it does).  Variants on which the repository's test suite fails are discarded (the extraction was not safe).

usage: tools/refactors.py [--out /tmp/refactors.jsonl] [--jobs 14] [--per-function 6] [--files a,b] [--seed 1]"""
import argparse, ast, copy, json, os, random, shutil, subprocess, sys, tempfile
from concurrent.futures import ThreadPoolExecutor

VERIF = os.path.dirname(os.path.dirname(os.path.abspath(__file__)))
REPO = '/repo'
PY = '/venv/bin/python'
sys.path.insert(0, os.path.dirname(os.path.abspath(__file__)))
from mutants import TARGETS, SKIP_FUNCS, functions_of          # noqa: E402

SCOPES = (ast.FunctionDef, ast.AsyncFunctionDef, ast.Lambda, ast.ClassDef)


def walk_local(node):
    stack = [node]
    first = True
    while stack:
        n = stack.pop()
        if not first and isinstance(n, SCOPES):
            continue
        first = False
        yield n
        stack.extend(reversed(list(ast.iter_child_nodes(n))))


def stored_names(nodes):
    out = []
    for st in nodes:
        for n in walk_local(st):
            if isinstance(n, ast.Name) and isinstance(n.ctx, (ast.Store, ast.Del)):
                out.append(n.id)
            elif isinstance(n, ast.ExceptHandler) and n.name:
                out.append(n.name)
            elif isinstance(n, (ast.ListComp, ast.SetComp, ast.DictComp, ast.GeneratorExp)):
                pass
    return out


def comp_targets(nodes):
    out = set()
    for st in nodes:
        for n in walk_local(st):
            if isinstance(n, ast.comprehension):
                for m in ast.walk(n.target):
                    if isinstance(m, ast.Name):
                        out.add(m.id)
    return out


def loaded_names(nodes):
    out = []
    for st in nodes:
        for n in ast.walk(st):
            if isinstance(n, ast.Name) and isinstance(n.ctx, ast.Load):
                out.append(n.id)
    return out


def escapes(block):
    """return / yield / break / continue that would leave the block, nested defs, super(), nonlocal"""
    for st in block:
        for n in walk_local(st):
            if isinstance(n, (ast.Return, ast.Yield, ast.YieldFrom, ast.Nonlocal, ast.Global, ast.FunctionDef, ast.ClassDef, ast.Lambda, ast.ExceptHandler, ast.Delete)):
                return True
            if isinstance(n, ast.Call) and isinstance(n.func, ast.Name) and n.func.id in ('super', 'locals', 'vars', 'eval', 'exec'):
                return True
        # break/continue not enclosed by a loop inside the block
        def chk(node, in_loop):
            for c in ast.iter_child_nodes(node):
                if isinstance(c, SCOPES):
                    continue
                if isinstance(c, (ast.Break, ast.Continue)) and not in_loop:
                    return True
                if chk(c, in_loop or isinstance(c, (ast.For, ast.While))):
                    return True
            return False
        if isinstance(st, (ast.Break, ast.Continue)) or chk(st, isinstance(st, (ast.For, ast.While))):
            return True
    return False


def statement_lists(fn):
    """every list of statements of the function (not of nested scopes) with a stable path"""
    out = []

    def rec(node, path):
        for field in ('body', 'orelse', 'finalbody'):
            lst = getattr(node, field, None)
            if isinstance(lst, list) and lst and isinstance(lst[0], ast.stmt):
                out.append((path + (field,), lst))
                for i, st in enumerate(lst):
                    if not isinstance(st, SCOPES):
                        rec(st, path + (field, i))
        if isinstance(node, ast.Try):
            for hi, h in enumerate(node.handlers):
                out.append((path + ('handlers', hi, 'body'), h.body))
                for i, st in enumerate(h.body):
                    if not isinstance(st, SCOPES):
                        rec(st, path + ('handlers', hi, 'body', i))
    rec(fn, ())
    return out


def candidates(fn):
    """(path, i, j) of extractable slices"""
    fn_locals = set(a.arg for a in fn.args.args + fn.args.kwonlyargs + fn.args.posonlyargs)
    if fn.args.vararg:
        fn_locals.add(fn.args.vararg.arg)
    if fn.args.kwarg:
        fn_locals.add(fn.args.kwarg.arg)
    fn_locals |= set(stored_names(fn.body))
    for n in walk_local(fn):
        if isinstance(n, (ast.FunctionDef, ast.ClassDef)) and n is not fn:
            fn_locals.add(n.name)
    out = []
    for path, lst in statement_lists(fn):
        start = 1 if (path == ('body',) and isinstance(lst[0], ast.Expr) and isinstance(lst[0].value, ast.Constant) and isinstance(lst[0].value.value, str)) else 0
        for i in range(start, len(lst)):
            for j in range(i + 1, min(len(lst), i + 3) + 1):
                block = lst[i:j]
                if escapes(block):
                    continue
                if all(isinstance(s, ast.Pass) for s in block):
                    continue
                out.append((path, i, j))
    return out, fn_locals


def resolve(fn, path):
    node = fn
    for p in path:
        node = getattr(node, p) if isinstance(p, str) else node[p]
    return node


def extract(src, rel, qual, k, only):
    tree = ast.parse(src)
    fns = dict(functions_of(tree, only))
    fn = fns[qual]
    cands, fn_locals = candidates(fn)
    path, i, j = cands[k]
    lst = resolve(fn, path)
    block = lst[i:j]
    is_method = '.' in qual
    self_name = fn.args.args[0].arg if is_method and fn.args.args and not any(isinstance(d, ast.Name) and d.id == 'staticmethod' for d in fn.decorator_list) else None
    if is_method and self_name is None:
        raise ValueError('static method')
    if any(isinstance(d, ast.Name) and d.id in ('classmethod', 'property') or isinstance(d, ast.Attribute) for d in fn.decorator_list):
        if any(isinstance(d, ast.Name) and d.id == 'classmethod' for d in fn.decorator_list):
            raise ValueError('classmethod')
    assigned = stored_names(block)
    comp_only = comp_targets(block) - set(assigned)
    loads = loaded_names(block)
    # names used outside the block
    other = []
    for path2, lst2 in [(('body',), fn.body)]:
        pass
    outside_nodes = []
    marker = set(id(n) for st in block for n in ast.walk(st))
    outside_loads = set()
    for n in ast.walk(fn):
        if id(n) in marker:
            continue
        if isinstance(n, ast.Name) and isinstance(n.ctx, ast.Load):
            outside_loads.add(n.id)
    outputs = [n for n in dict.fromkeys(assigned) if n in outside_loads]
    # outputs must be assigned unconditionally at the top level of the block (else they might be unbound at the return)
    def definitely(stmts):
        out = set()
        for st in stmts:
            if isinstance(st, ast.Assign):
                for t in st.targets:
                    for n in ast.walk(t):
                        if isinstance(n, ast.Name):
                            out.add(n.id)
            elif isinstance(st, (ast.AugAssign, ast.AnnAssign)) and isinstance(st.target, ast.Name):
                out.add(st.target.id)
            elif isinstance(st, ast.If) and st.orelse:
                out |= definitely(st.body) & definitely(st.orelse)
        return out
    top_assigned = definitely(block)
    cond_outputs = [o for o in outputs if o not in top_assigned]
    # first occurrence analysis for parameters
    first_store = set()
    seen = set()
    for st in block:
        if isinstance(st, ast.Assign) and all(isinstance(t, ast.Name) for t in st.targets):
            for n in ast.walk(st.value):
                if isinstance(n, ast.Name):
                    seen.add(n.id)
            for t in st.targets:
                if t.id not in seen:
                    first_store.add(t.id)
                seen.add(t.id)
        else:
            for n in ast.walk(st):
                if isinstance(n, ast.Name):
                    seen.add(n.id)
    params = [n for n in dict.fromkeys(loads) if n in fn_locals and n not in first_store and n not in comp_only and n != self_name]
    for o in cond_outputs:
        # conditionally assigned output: its previous value must flow through; it has to be bound before the block
        if o not in params:
            params.append(o)
    for a in stored_names(block):
        if a in [p for p in params] and a not in outputs and False:
            pass
    helper_name = f"_xh_{fn.name.strip('_')}_{k}"
    body = [copy.deepcopy(s) for s in block]
    if outputs:
        body.append(ast.Return(value=ast.Tuple(elts=[ast.Name(id=o, ctx=ast.Load()) for o in outputs], ctx=ast.Load()) if len(outputs) > 1
                               else ast.Name(id=outputs[0], ctx=ast.Load())))
    args = ([ast.arg(arg=self_name)] if self_name else []) + [ast.arg(arg=p) for p in params]
    helper = ast.FunctionDef(name=helper_name, args=ast.arguments(posonlyargs=[], args=args, kwonlyargs=[], kw_defaults=[], defaults=[]), body=body,
                             decorator_list=[], returns=None, type_comment=None)
    callee = ast.Attribute(value=ast.Name(id=self_name, ctx=ast.Load()), attr=helper_name, ctx=ast.Load()) if self_name else ast.Name(id=helper_name, ctx=ast.Load())
    call = ast.Call(func=callee, args=[ast.Name(id=p, ctx=ast.Load()) for p in params], keywords=[])
    if outputs:
        tgt = ast.Tuple(elts=[ast.Name(id=o, ctx=ast.Store()) for o in outputs], ctx=ast.Store()) if len(outputs) > 1 else ast.Name(id=outputs[0], ctx=ast.Store())
        new_stmt = ast.Assign(targets=[tgt], value=call)
    else:
        new_stmt = ast.Expr(value=call)
    before = ' ; '.join(ast.unparse(s).split('\n')[0][:60] for s in block)
    line = block[0].lineno
    lst[i:j] = [new_stmt]
    ast.fix_missing_locations(fn)
    ast.fix_missing_locations(helper)
    lines = src.split('\n')
    indent = ' ' * fn.col_offset
    start = (fn.decorator_list[0].lineno if fn.decorator_list else fn.lineno) - 1
    new_fn = ast.unparse(fn).split('\n')
    new_helper = ast.unparse(helper).split('\n')
    new_src = '\n'.join(lines[:start] + [indent + l if l else l for l in new_fn] + [''] + [indent + l if l else l for l in new_helper] + [''] + lines[fn.end_lineno:])
    return new_src, before, line, helper_name, params, outputs


# ---------------------------------------------------------------------------------------------------------------------
# further behaviour-preserving rewrites (kind != 'extract'): applied to the k-th eligible node of the function
def _eligible(fn, kind):
    out = []
    for n in walk_local(fn):
        if kind == 'negate-if' and isinstance(n, ast.If) and n.orelse and not (len(n.orelse) == 1 and isinstance(n.orelse[0], ast.If)):
            out.append(n)
        elif kind == 'split-and' and isinstance(n, ast.If) and not n.orelse and isinstance(n.test, ast.BoolOp) and isinstance(n.test.op, ast.And):
            out.append(n)
        elif kind == 'guard-to-else' and isinstance(n, ast.If) and not n.orelse and n.body and isinstance(n.body[-1], (ast.Raise, ast.Return)):
            out.append(n)
        elif kind == 'reword-message' and isinstance(n, ast.Raise) and n.exc is not None:
            out.append(n)
        elif kind == 'pos-to-kw' and isinstance(n, ast.Call) and n.args and not n.keywords and _callee_params(n) is not None:
            out.append(n)
        elif kind == 'intro-temp' and isinstance(n, (ast.Assign, ast.Expr, ast.Return)) and n.value is not None:
            c = _first_evaluated_call(n.value)
            if c is not None:
                out.append(n)
    return out


_PARAMS = None


def _callee_params(call):
    """parameter names of the callee when the method / function name is defined exactly once in the hand-written modules"""
    global _PARAMS
    if _PARAMS is None:
        _PARAMS = {}
        for rel in TARGETS:
            tree = ast.parse(open(os.path.join(REPO, rel), encoding='utf-8').read())
            for node in ast.walk(tree):
                if isinstance(node, ast.ClassDef):
                    for m in node.body:
                        if isinstance(m, ast.FunctionDef) and not m.decorator_list and not m.args.vararg and not m.args.kwarg:
                            _PARAMS.setdefault(m.name, []).append([a.arg for a in m.args.args][1:])
            for m in tree.body:
                if isinstance(m, ast.FunctionDef) and not m.args.vararg and not m.args.kwarg:
                    _PARAMS.setdefault(m.name, []).append([a.arg for a in m.args.args])
    name = call.func.attr if isinstance(call.func, ast.Attribute) else call.func.id if isinstance(call.func, ast.Name) else None
    if name is None or name.startswith('__') or name in ('append', 'remove', 'get', 'pop', 'insert', 'index', 'extend', 'copy', 'find', 'write', 'strip', 'split'):
        return None
    if isinstance(call.func, ast.Attribute) and isinstance(call.func.value, ast.Call) and isinstance(call.func.value.func, ast.Name) and call.func.value.func.id == 'super':
        return None
    ps = _PARAMS.get(name)
    if not ps or len(ps) != 1 or len(ps[0]) < len(call.args) or any(isinstance(a, ast.Starred) for a in call.args):
        return None
    return ps[0]


def _first_evaluated_call(e):
    """the receiver expression of the first call evaluated in e, when it is itself a call or an attribute chain worth naming"""
    cur = e
    while True:
        if isinstance(cur, ast.Call) and isinstance(cur.func, ast.Attribute):
            inner = cur.func.value
            if isinstance(inner, ast.Call) and isinstance(inner.func, ast.Attribute):
                cur = inner
                continue
            if isinstance(inner, ast.Attribute) and not isinstance(inner.value, ast.Name):
                return inner
            if isinstance(inner, ast.Attribute) and isinstance(inner.value, ast.Name):
                return inner if isinstance(cur, ast.Call) else None
            return cur if cur is not e else None
        return None


def rewrite(src, rel, qual, k, only, kind):
    tree = ast.parse(src)
    fn = dict(functions_of(tree, only))[qual]
    nodes = _eligible(fn, kind)
    n = nodes[k]
    before = ast.unparse(n).split('\n')[0][:80]
    line = n.lineno
    parent_lists = statement_lists(fn)

    def holder_of(stmt):
        for path, lst in parent_lists:
            for i, st in enumerate(lst):
                if st is stmt:
                    return lst, i
        return None, None
    if kind == 'negate-if':
        n.test = ast.UnaryOp(op=ast.Not(), operand=n.test)
        n.body, n.orelse = n.orelse, n.body
    elif kind == 'split-and':
        first, rest = n.test.values[0], n.test.values[1:]
        inner = ast.If(test=rest[0] if len(rest) == 1 else ast.BoolOp(op=ast.And(), values=rest), body=n.body, orelse=[])
        n.test = first
        n.body = [inner]
    elif kind == 'guard-to-else':
        lst, i = holder_of(n)
        if lst is None or i + 1 >= len(lst):
            raise ValueError('nothing after the guard')
        rest = lst[i + 1:]
        del lst[i + 1:]
        n.orelse = rest
    elif kind == 'reword-message':
        hit = False
        for c in ast.walk(n.exc):
            if isinstance(c, ast.Constant) and isinstance(c.value, str):
                c.value = c.value + ' (see the documentation)'
                hit = True
        if not hit:
            if isinstance(n.exc, ast.Call):
                n.exc.args.append(ast.Constant(value='see the documentation'))
            else:
                n.exc = ast.Call(func=n.exc, args=[ast.Constant(value='see the documentation')], keywords=[])
    elif kind == 'pos-to-kw':
        ps = _callee_params(n)
        last = len(n.args) - 1
        n.keywords = [ast.keyword(arg=ps[last], value=n.args[last])]
        n.args = n.args[:last]
    elif kind == 'intro-temp':
        lst, i = holder_of(n)
        if lst is None:
            raise ValueError('statement not found')
        target = _first_evaluated_call(n.value)
        tmp = f"tmp_{k}"

        class R(ast.NodeTransformer):
            def visit(self, node):
                if node is target:
                    return ast.Name(id=tmp, ctx=ast.Load())
                return super().visit(node)
        n.value = R().visit(n.value)
        lst.insert(i, ast.Assign(targets=[ast.Name(id=tmp, ctx=ast.Store())], value=target))
    ast.fix_missing_locations(fn)
    lines = src.split('\n')
    indent = ' ' * fn.col_offset
    start = (fn.decorator_list[0].lineno if fn.decorator_list else fn.lineno) - 1
    new_fn = ast.unparse(fn).split('\n')
    new_src = '\n'.join(lines[:start] + [indent + l if l else l for l in new_fn] + lines[fn.end_lineno:])
    return new_src, before, line, kind, [], []


KINDS = ('extract', 'negate-if', 'split-and', 'guard-to-else', 'intro-temp', 'reword-message', 'pos-to-kw', 'rename-function', 'rename-field', 'annotate')


def enumerate_variants(files, per_function, seed, kinds=('extract',)):
    out = []
    for kind in kinds:
        if kind == 'extract':
            out += [(rel, q, k, 'extract') for rel, q, k in enumerate_extract(files, per_function, seed)]
            continue
        rnd = random.Random(seed)
        if kind == 'rename-field':
            out += [('-', f, 0, kind) for f in PRIVATE_FIELDS]
            continue
        for rel, only in TARGETS.items():
            if files and rel not in files:
                continue
            src = open(os.path.join(REPO, rel), encoding='utf-8').read()
            tree = ast.parse(src)
            for q, fn in functions_of(tree, only):
                if kind == 'rename-function':
                    if not fn.name.startswith('__') and not fn.decorator_list and (fn.name.startswith('_') or 'XMLElement' not in q):
                        out.append((rel, q, 0, kind))
                    continue
                if kind == 'annotate':
                    out.append((rel, q, 0, kind))
                    continue
                ks = list(range(len(_eligible(fn, kind))))
                rnd.shuffle(ks)
                for k in sorted(ks[:per_function]):
                    out.append((rel, q, k, kind))
    return out


def enumerate_extract(files, per_function, seed):
    rnd = random.Random(seed)
    out = []
    for rel, only in TARGETS.items():
        if files and rel not in files:
            continue
        src = open(os.path.join(REPO, rel), encoding='utf-8').read()
        tree = ast.parse(src)
        for q, fn in functions_of(tree, only):
            if any(isinstance(d, ast.Name) and d.id in ('classmethod', 'staticmethod') for d in fn.decorator_list):
                continue
            if any(isinstance(n, (ast.Yield, ast.YieldFrom)) for n in walk_local(fn)):
                continue
            cands, _ = candidates(fn)
            ks = list(range(len(cands)))
            rnd.shuffle(ks)
            for k in sorted(ks[:per_function]):
                out.append((rel, q, k))
    return out


def program_wide(kind, rel, qual, root):
    """rename-function: a private method / function gets a new name everywhere; rename-field: an instance field gets a new name
    everywhere; annotate: every simple local assignment `x = e` of the function becomes `x: object = e`.  Edits the copy in place."""
    import re as _re
    files = [os.path.join(dp, f) for dp, _, fs in os.walk(os.path.join(root, 'musicxml')) for f in fs if f.endswith('.py') and '/tests' not in dp]
    if kind == 'rename-function':
        old = qual.split('.')[-1]
        new = old + '_renamed' if not old.endswith('_') else old + 'renamed_'
        pat = _re.compile(r'(?<![A-Za-z0-9_])' + _re.escape(old) + r'(?![A-Za-z0-9_])')
        n = 0
        for f in files:
            src = open(f, encoding='utf-8').read()
            new_src, k = pat.subn(new, src)
            if k:
                open(f, 'w', encoding='utf-8').write(new_src)
                n += k
        return f"{old} -> {new} ({n} occurrences)"
    if kind == 'rename-field':
        old = qual
        new = old + '_x'
        pat = _re.compile(r'(?<![A-Za-z0-9_])' + _re.escape(old) + r'(?![A-Za-z0-9_])')
        n = 0
        for f in files:
            src = open(f, encoding='utf-8').read()
            new_src, k = pat.subn(new, src)
            if k:
                open(f, 'w', encoding='utf-8').write(new_src)
                n += k
        return f"{old} -> {new} ({n} occurrences)"
    if kind == 'annotate':
        path = os.path.join(root, rel)
        src = open(path, encoding='utf-8').read()
        tree = ast.parse(src)
        fn = dict(functions_of(tree, TARGETS[rel]))[qual]
        n = 0
        for node in walk_local(fn):
            for field in ('body', 'orelse', 'finalbody'):
                lst = getattr(node, field, None)
                if isinstance(lst, list):
                    for i, st in enumerate(lst):
                        if isinstance(st, ast.Assign) and len(st.targets) == 1 and isinstance(st.targets[0], ast.Name):
                            lst[i] = ast.AnnAssign(target=st.targets[0], annotation=ast.Name(id='object', ctx=ast.Load()), value=st.value, simple=1)
                            n += 1
        if not n:
            raise ValueError('nothing to annotate')
        ast.fix_missing_locations(fn)
        lines = src.split('\n')
        indent = ' ' * fn.col_offset
        start = (fn.decorator_list[0].lineno if fn.decorator_list else fn.lineno) - 1
        new_fn = ast.unparse(fn).split('\n')
        open(path, 'w', encoding='utf-8').write('\n'.join(lines[:start] + [indent + l if l else l for l in new_fn] + lines[fn.end_lineno:]))
        return f"{n} assignments annotated"
    raise ValueError(kind)


PRIVATE_FIELDS = ['_unordered_children', '_attributes', '_value_', '_xsd_check', '_child_container_tree', '_et_xml_element', '_kwargs', '_xml_elements',
                  '_chosen_child', '_force_validate', '_requirements_fulfilled', '_parent_xml_element', '_required_element_names', '_PERMITTED', '_FORCED_PERMITTED',
                  '_PATTERN', '_XSD_TREE', '_XSD_ATTRIBUTES', '_type', '_name', '_is_required', 'parent_xsd_element', 'parent_container', 'min_occurrences',
                  'max_occurrences', '_traversed', '_SIMPLE_CONTENT', '_TYPES', '_UNION', '_ref', '_xsd_tree', '_content']


def run_variant(spec):
    rel, qual, k, kind = spec
    rec = {'file': rel, 'function': qual, 'k': k, 'kind': kind}
    if kind in ('rename-function', 'rename-field', 'annotate'):
        tmp = tempfile.mkdtemp(prefix='mxsa-rf-', dir='/dev/shm')
        try:
            root = os.path.join(tmp, 'repo')
            subprocess.check_call(f"cd {REPO} && git ls-files -z | rsync -a --from0 --files-from=- {REPO}/ {root}/", shell=True)
            try:
                rec['before'] = program_wide(kind, rel, qual, root)
            except Exception as e:
                rec['status'] = f'build-error: {type(e).__name__}: {e}'
                return rec
            rec['line'] = 0
            return _judge(rec, tmp, root)
        finally:
            shutil.rmtree(tmp, ignore_errors=True)
    tmp = tempfile.mkdtemp(prefix='mxsa-rf-', dir='/dev/shm')
    try:
        src = open(os.path.join(REPO, rel), encoding='utf-8').read()
        try:
            if kind == 'extract':
                new_src, before, line, helper, params, outputs = extract(src, rel, qual, k, TARGETS[rel])
            else:
                new_src, before, line, helper, params, outputs = rewrite(src, rel, qual, k, TARGETS[rel], kind)
            compile(new_src, rel, 'exec')
        except Exception as e:
            rec['status'] = f'build-error: {type(e).__name__}: {e}'
            return rec
        rec.update({'before': before, 'line': line, 'helper': helper, 'params': params, 'outputs': outputs})
        root = os.path.join(tmp, 'repo')
        subprocess.check_call(f"cd {REPO} && git ls-files -z | rsync -a --from0 --files-from=- {REPO}/ {root}/", shell=True)
        open(os.path.join(root, rel), 'w', encoding='utf-8').write(new_src)
        return _judge(rec, tmp, root)
    finally:
        shutil.rmtree(tmp, ignore_errors=True)


def _judge(rec, tmp, root):
    if True:
        t = subprocess.run(f"cd {root} && {PY} -m pytest -q -x -p no:cacheprovider 2>&1 | tail -1", shell=True, capture_output=True, text=True)
        last = t.stdout.strip().splitlines()[-1] if t.stdout.strip() else ''
        rec['tests'] = last[:80]
        if not (' passed' in last and 'failed' not in last and 'error' not in last):
            rec['status'] = 'unsafe-extraction'
            return rec
        ev = os.path.join(tmp, 'ev')
        os.makedirs(ev)
        env = dict(os.environ, MXSA_REPO=root, MXSA_EVIDENCE_DIR=ev)
        r = subprocess.run([os.path.join(VERIF, 'check'), '--all', '--quiet'], capture_output=True, text=True, env=env)
        fired = sorted({l.split('property=')[1].split()[0] for l in r.stdout.splitlines() if l.startswith('VIOLATION')})
        errors = sorted({l.split('property=')[1].split(':')[0] for l in r.stdout.splitlines() if l.startswith('ANALYSIS-ERROR')})
        rec['fired'] = fired
        rec['analysis_errors'] = errors
        firsts = []
        lines = r.stdout.splitlines()
        for idx, l in enumerate(lines):
            if l.startswith('VIOLATION') and idx + 3 < len(lines):
                firsts.append((lines[idx].split('property=')[1].split()[0], lines[idx + 2].strip()[:120], lines[idx + 3].strip()[:200]))
            elif l.startswith('ANALYSIS-ERROR'):
                firsts.append(('ERR', l[:300], ''))
        rec['reports'] = firsts[:6]
        rec['status'] = 'FALSE-ALARM' if fired else ('ANALYSIS-ERROR' if errors else 'silent')
        return rec


def main():
    ap = argparse.ArgumentParser()
    ap.add_argument('--out', default='/tmp/refactors.jsonl')
    ap.add_argument('--jobs', type=int, default=14)
    ap.add_argument('--per-function', type=int, default=6)
    ap.add_argument('--files')
    ap.add_argument('--seed', type=int, default=1)
    ap.add_argument('--kinds', default='extract')
    ap.add_argument('--rerun', help='re-run the variants of an earlier output file that were not silent')
    ap.add_argument('--show', help='print the variant source diff for file:function:k')
    a = ap.parse_args()
    if a.show:
        parts = a.show.split(':')
        rel, q, k = parts[0], parts[1], parts[2]
        kind = parts[3] if len(parts) > 3 else 'extract'
        src = open(os.path.join(REPO, rel), encoding='utf-8').read()
        new_src = (extract(src, rel, q, int(k), TARGETS[rel]) if kind == 'extract' else rewrite(src, rel, q, int(k), TARGETS[rel], kind))[0]
        import difflib
        sys.stdout.writelines(difflib.unified_diff(src.splitlines(True), new_src.splitlines(True), rel, rel, n=1))
        return
    specs = enumerate_variants(a.files.split(',') if a.files else None, a.per_function, a.seed, a.kinds.split(','))
    if a.rerun:
        specs = [(r['file'], r['function'], r['k'], r.get('kind', 'extract')) for r in map(json.loads, open(a.rerun)) if r['status'] in ('FALSE-ALARM', 'ANALYSIS-ERROR')]
    print(len(specs), 'variants', flush=True)
    counts = {}
    with open(a.out, 'w') as out, ThreadPoolExecutor(max_workers=a.jobs) as ex:
        for i, rec in enumerate(ex.map(run_variant, specs)):
            key = rec['status'].split(':')[0]
            counts[key] = counts.get(key, 0) + 1
            out.write(json.dumps(rec) + '\n')
            out.flush()
            if (i + 1) % 50 == 0:
                print(i + 1, counts, flush=True)
    print('done', counts)


if __name__ == '__main__':
    main()
