"""Sensitivity controls (DESIGN.md section 7).  Every control edits a scratch copy of /repo's working tree (created under a
fresh temporary directory outside /repo and /verif, removed afterwards), checks that the edited files still compile, runs the
named property checks on the copy and compares with the expectation:

  fire   - the check must exit 1 and name the expected rule in its report
  silent - the check must exit 0 (a behaviour-preserving refactoring)

Sources of controls: hand-written edits below, reverts of the `fix:` commits recorded in known_findings.json, and the
confirmed seeded changes under /verif/seeded that DESIGN.md lists as caught.  A control whose anchor text is absent on the
current tree is skipped (the tree may have been edited); a control that misbehaves is an ANALYSIS-ERROR, never a verdict."""
import ast
import json
import os
import py_compile
import re
import shutil
import subprocess
import sys
import tempfile
from concurrent.futures import ThreadPoolExecutor

VERIF = os.path.dirname(os.path.dirname(os.path.abspath(__file__)))
REPO = os.environ.get('MXSA_REPO', '/repo')

XE = 'musicxml/xmlelement/xmlelement.py'
CC = 'musicxml/xmlelement/xmlchildcontainer.py'
ST = 'musicxml/xsd/xsdsimpletype.py'
CT = 'musicxml/xsd/xsdcomplextype.py'
AT = 'musicxml/xsd/xsdattribute.py'
EL = 'musicxml/xsd/xsdelement.py'
IND = 'musicxml/xsd/xsdindicator.py'
TR = 'musicxml/xsd/xsdtree.py'
PA = 'musicxml/parser/parser.py'
CO = 'musicxml/util/core.py'
UT = 'musicxml/generate_classes/utils.py'
XSD = 'musicxml/generate_classes/musicxml_4_0.xsd'


class Skip(Exception):
    pass


def sub(old, new, path, count=1):
    def edit(root):
        p = os.path.join(root, path)
        s = open(p, encoding='utf-8').read()
        if s.count(old) != count:
            raise Skip(f"anchor text occurs {s.count(old)} time(s) in {path}")
        open(p, 'w', encoding='utf-8').write(s.replace(old, new))
        return [path]
    return edit


def multi(*edits):
    def edit(root):
        out = []
        for e in edits:
            out += e(root)
        return out
    return edit


def resub(pattern, repl, path, count=1, flags=0):
    def edit(root):
        p = os.path.join(root, path)
        s = open(p, encoding='utf-8').read()
        new, n = re.subn(pattern, repl, s, flags=flags)
        if n != count:
            raise Skip(f"pattern matches {n} time(s) in {path}")
        open(p, 'w', encoding='utf-8').write(new)
        return [path]
    return edit


def rename_local(path, func_qual, old, new):
    """Rename a local variable inside one function (by token, in the source lines of that function)."""
    def edit(root):
        p = os.path.join(root, path)
        src = open(p, encoding='utf-8').read()
        tree = ast.parse(src)
        target = None
        parts = func_qual.split('.')
        for n in ast.walk(tree):
            if isinstance(n, ast.ClassDef) and len(parts) == 2 and n.name == parts[0]:
                for m in n.body:
                    if isinstance(m, ast.FunctionDef) and m.name == parts[1] and not any('setter' in ast.unparse(d) for d in m.decorator_list):
                        target = m
            if isinstance(n, ast.FunctionDef) and len(parts) == 1 and n.name == parts[0]:
                target = target or n
        if target is None:
            raise Skip(f"{func_qual} not found")
        lines = src.split('\n')
        a, b = target.lineno - 1, target.end_lineno
        body = '\n'.join(lines[a:b])
        if not re.search(rf'\b{re.escape(old)}\b', body):
            raise Skip(f"{old} not used in {func_qual}")
        body = re.sub(rf'(?<![\w.]){re.escape(old)}\b', new, body)
        open(p, 'w', encoding='utf-8').write('\n'.join(lines[:a] + [body] + lines[b:]))
        return [path]
    return edit


def reformat_function(path, cls, name):
    """Replace one function by ast.unparse of itself (line breaks, quotes, parentheses, comments change; semantics do not)."""
    def edit(root):
        p = os.path.join(root, path)
        src = open(p, encoding='utf-8').read()
        tree = ast.parse(src)
        target = None
        for n in ast.walk(tree):
            if isinstance(n, ast.ClassDef) and n.name == cls:
                for m in n.body:
                    if isinstance(m, ast.FunctionDef) and m.name == name and not m.decorator_list:
                        target = m
            if cls is None and isinstance(n, ast.FunctionDef) and n.name == name:
                target = target or n
        if target is None:
            raise Skip(f"{cls}.{name} not found")
        lines = src.split('\n')
        indent = ' ' * target.col_offset
        new = '\n'.join(indent + l if l else l for l in ast.unparse(target).split('\n'))
        open(p, 'w', encoding='utf-8').write('\n'.join(lines[:target.lineno - 1] + [new] + lines[target.end_lineno:]))
        return [path]
    return edit


def reformat_all_modules():
    """Every Python module of the runtime closure is replaced by ast.unparse of itself: all formatting, comments, quoting and
    line numbers change; semantics do not."""
    def edit(root):
        out = []
        for rel in (XE, CC, ST, CT, AT, EL, IND, TR, PA, CO, UT, 'musicxml/xmlelement/containers.py', 'musicxml/exceptions.py',
                    'musicxml/xmlelement/exceptions.py', 'musicxml/util/helprervariables.py'):
            p = os.path.join(root, rel)
            if not os.path.isfile(p):
                raise Skip(f"{rel} missing")
            src = open(p, encoding='utf-8').read()
            open(p, 'w', encoding='utf-8').write(ast.unparse(ast.parse(src)) + '\n')
            out.append(rel)
        return out
    return edit


def rename_all_locals(path, suffix='_v'):
    """Rename every local variable (not parameters, not attributes) of every function in one file by appending a suffix."""
    def edit(root):
        p = os.path.join(root, path)
        src = open(p, encoding='utf-8').read()
        tree = ast.parse(src)

        class Ren(ast.NodeTransformer):
            def __init__(self):
                self.stack = []

            def visit_FunctionDef(self, node):
                params = {a.arg for a in node.args.posonlyargs + node.args.args + node.args.kwonlyargs}
                if node.args.vararg:
                    params.add(node.args.vararg.arg)
                if node.args.kwarg:
                    params.add(node.args.kwarg.arg)
                stored = set()
                nested_names = set()
                stack = list(node.body)
                while stack:
                    n = stack.pop()
                    if isinstance(n, (ast.FunctionDef, ast.ClassDef, ast.Lambda)):
                        if isinstance(n, ast.FunctionDef):
                            nested_names.add(n.name)
                        continue
                    if isinstance(n, ast.Name) and isinstance(n.ctx, ast.Store):
                        stored.add(n.id)
                    if isinstance(n, (ast.Global, ast.Nonlocal)):
                        params |= set(n.names)
                    stack.extend(ast.iter_child_nodes(n))
                locs = stored - params - nested_names
                outer = set().union(*self.stack) if self.stack else set()
                self.stack.append(locs | outer)
                node.body = [self.visit(b) for b in node.body]
                self.stack.pop()
                return node

            def visit_Name(self, node):
                if self.stack and node.id in self.stack[-1]:
                    return ast.copy_location(ast.Name(id=node.id + suffix, ctx=node.ctx), node)
                return node
        new = Ren().visit(tree)
        ast.fix_missing_locations(new)
        open(p, 'w', encoding='utf-8').write(ast.unparse(new) + '\n')
        return [path]
    return edit


def revert_commit(sha):
    def edit(root):
        r = subprocess.run(['git', '-C', REPO, 'show', sha, '--format=', '--', '.'], capture_output=True, text=True)
        if r.returncode != 0 or not r.stdout.strip():
            raise Skip(f"commit {sha} not available")
        pr = subprocess.run(['patch', '-R', '-p1', '-s', '-d', root], input=r.stdout, capture_output=True, text=True)
        if pr.returncode != 0:
            raise Skip(f"commit {sha} does not revert cleanly on this tree")
        return [l[6:] for l in r.stdout.splitlines() if l.startswith('+++ b/')]
    return edit


def apply_seed(sid):
    def edit(root):
        patch = os.path.join(VERIF, 'seeded', sid, 'patch.diff')
        txt = open(patch, encoding='utf-8').read()
        pr = subprocess.run(['patch', '-p1', '-s', '-d', root, '-i', patch], capture_output=True, text=True)
        if pr.returncode != 0:
            raise Skip(f"seed {sid} does not apply on this tree")
        return [l[6:] for l in txt.splitlines() if l.startswith('+++ b/')]
    return edit


def C(cid, kind, props, edit, expect=None, why=''):
    return {'id': cid, 'kind': kind, 'props': props, 'edit': edit, 'expect': expect, 'why': why}


# ----------------------------------------------------------------------------------------------------------------------
CONTROLS = [
    # ---- C01
    C('fire-final-checks-dropped', 'fire', ['C01', 'C18'], sub("            self._final_checks(intelligent_choice=intelligent_choice)\n        self._create_et_xml_element()",
                                                                "            pass\n        self._create_et_xml_element()", XE), 'R-DOM'),
    C('fire-serialiser-unordered', 'fire', ['C01'], sub("        for child in self.get_children():\n            self._et_xml_element.append(child.et_xml_element)",
                                                        "        for child in self.get_children(ordered=False):\n            self._et_xml_element.append(child.et_xml_element)", XE), 'R-DOM.ordered-view'),
    C('fire-name-test-dropped', 'fire', ['C01'], sub("        if el.name != self.name:\n            raise TypeError\n", "", EL), 'R-OWN.leaf'),
    C('fire-max-eq-to-gt', 'fire', ['C01'], sub("if len(self.content.xml_elements) == self.max_occurrences:", "if len(self.content.xml_elements) > self.max_occurrences:", CC), 'R-ORD'),
    C('fire-min-lt-to-le', 'fire', ['C01'], sub("            elif len(ch.content.xml_elements) < ch.min_occurrences:", "            elif len(ch.content.xml_elements) <= ch.min_occurrences:", CC), 'R-ORD'),
    C('fire-final-check-conditional', 'fire', ['C01'], sub("                if required_children:\n", "                if required_children and len(self._unordered_children) < 8:\n", XE), 'R-DOM.validate-before-serialise'),
    C('fire-ordered-view-sorted', 'fire', ['C01'], sub("for leaf in self._child_container_tree.iterate_leaves() for xml_element in", "for leaf in reversed(list(self._child_container_tree.iterate_leaves())) for xml_element in", XE), 'R-DOM.ordered-view'),
    C('fire-max-filter-dropped', 'fire', ['C01'], sub("            selected_same_name_leaves_max_not_reached = [leaf for leaf in selected_same_name_leaves if\n                                                         not leaf.max_is_reached]",
                                                       "            selected_same_name_leaves_max_not_reached = [leaf for leaf in selected_same_name_leaves]", CC), 'R-DOM.attach-max'),
    C('fire-revert-F6', 'fire', ['C01'], revert_commit('36429fb'), 'R-OWN.leaf'),
    # ---- C03
    C('fire-type-binding', 'fire', ['C03'], sub("    TYPE = XSDComplexTypeEmptyPlacement\n    _SEARCH_FOR_ELEMENT = None\n    XSD_TREE = XSD_TREE_DICT['element'].get('accent')",
                                                "    TYPE = XSDComplexTypeEmpty\n    _SEARCH_FOR_ELEMENT = None\n    XSD_TREE = XSD_TREE_DICT['element'].get('accent')", XE), 'R-TAB.T2'),
    C('fire-tree-key', 'fire', ['C03'], sub("XSD_TREE = XSD_TREE_DICT['element'].get('accidental-mark')", "XSD_TREE = XSD_TREE_DICT['element'].get('accidental')", XE), 'R-TAB.T3'),
    C('fire-all-entry-removed', 'fire', ['C03', 'C08', 'C09'], sub("'XMLAccent', 'XMLAccidental',", "'XMLAccidental',", XE), 'R-TAB'),
    C('fire-note-attrgroup-removed', 'fire', ['C03'], sub('    <xs:attributeGroup ref="printout" />\n    <xs:attribute name="print-leger" type="yes-no" />', '    <xs:attribute name="print-leger" type="yes-no" />', CT), 'R-TAB.T5'),
    C('fire-note-particles-swapped', 'fire', ['C03'], sub('        <xs:element name="stem" type="stem" minOccurs="0" />\n        <xs:element name="notehead" type="notehead" minOccurs="0" />',
                                                           '        <xs:element name="notehead" type="notehead" minOccurs="0" />\n        <xs:element name="stem" type="stem" minOccurs="0" />', CT), 'R-TAB.T5'),
    C('fire-xsd-maxoccurs', 'fire', ['C03'], resub(r'(<xs:element name="beam" type="beam" minOccurs="0" maxOccurs=")8(")', r'\g<1>6\2', XSD), 'R-TAB.T8'),
    C('fire-simple-content', 'fire', ['C03'], sub("    _SIMPLE_CONTENT = XSDSimpleTypeAccidentalValue\n    _XSD_TREE = XSD_TREE_DICT['complexType']['accidental-text']",
                                                  "    _SIMPLE_CONTENT = XSDSimpleTypeString\n    _XSD_TREE = XSD_TREE_DICT['complexType']['accidental-text']", CT), 'R-TAB.T4'),
    C('fire-simple-base-class', 'fire', ['C03', 'C05'], sub("class XSDSimpleTypeBeamLevel(XSDSimpleTypePositiveInteger):", "class XSDSimpleTypeBeamLevel(XSDSimpleTypeInteger):", ST), 'R-TAB.T7'),
    C('fire-occurrence-default', 'fire', ['C03'], sub("        self.min_occurrences = 1 if min_occurrences is None else int(min_occurrences)", "        self.min_occurrences = 0 if min_occurrences is None else int(min_occurrences)", CC), 'R-EXH.particles'),
    C('fire-revert-F8', 'fire', ['C03'], revert_commit('b34e793'), 'R-TAB'),
    C('silent-xsd-doc-and-order', 'silent', ['C03'], multi(resub(r'<xs:documentation>The above-below type is used', '<xs:documentation>EDITED The above-below type is used', XSD)), None, 'documentation text is not part of a component'),
    C('silent-note-choice-reordered', 'silent', ['C03'], sub('                    <xs:sequence>\n                        <xs:group ref="full-note" />\n                        <xs:element name="tie" type="tie" minOccurs="0" maxOccurs="2" />\n                    </xs:sequence>\n                    <xs:sequence>\n                        <xs:element name="cue" type="empty" />\n                        <xs:group ref="full-note" />\n                    </xs:sequence>',
                                                              '                    <xs:sequence>\n                        <xs:element name="cue" type="empty" />\n                        <xs:group ref="full-note" />\n                    </xs:sequence>\n                    <xs:sequence>\n                        <xs:group ref="full-note" />\n                        <xs:element name="tie" type="tie" minOccurs="0" maxOccurs="2" />\n                    </xs:sequence>', CT), None, 'alternatives of a choice commute'),
    # ---- C04
    C('fire-store-before-check', 'fire', ['C04', 'C10'], sub("        for key in new_attributes:\n            self._check_attribute(key, new_attributes[key])\n        self._attributes = {**self._attributes, **new_attributes}",
                                                             "        self._attributes = {**self._attributes, **new_attributes}\n        for key in new_attributes:\n            self._check_attribute(key, new_attributes[key])", XE), 'check-before-store'),
    C('fire-required-attr-skip', 'fire', ['C04'], sub("                if required_attribute.name not in self.attributes:", "                if required_attribute.name not in self.attributes and self._unordered_children:", XE), 'R-DOM.required-attributes'),
    C('fire-attr-keys-rewritten', 'fire', ['C04', 'C16'], sub("{k: str(v) for k, v in self.attributes.items()}", "{k.lower(): str(v) for k, v in self.attributes.items()}", XE), 'attributes-verbatim'),
    C('fire-is-required-inverted', 'fire', ['C04'], sub("            if self.xsd_tree.get_attributes().get('use') == 'required':", "            if self.xsd_tree.get_attributes().get('use') == 'optional':", AT), 'is_required'),
    C('fire-properties-extended', 'fire', ['C04', 'C15'], sub("'et_xml_element', 'name', 'type_',", "'et_xml_element', 'name', 'type_', 'color',", XE), 'R-TAB.routing'),
    # ---- C05
    C('fire-fullmatch-to-match', 'fire', ['C05'], sub("re.compile(self._PATTERN).fullmatch(v)", "re.compile(self._PATTERN).match(v)", ST), 'R-ORD.pattern'),
    C('fire-minexclusive-le-to-lt', 'fire', ['C05'], sub("child.tag == 'minExclusive' and v <= int(", "child.tag == 'minExclusive' and v < int(", ST), 'R-ORD.bounds'),
    C('fire-maxinclusive-gt-to-ge', 'fire', ['C05'], sub("child.tag == 'maxInclusive' and v > int(", "child.tag == 'maxInclusive' and v >= int(", ST), 'R-ORD.bounds'),
    C('fire-positive-le-to-lt', 'fire', ['C05'], sub("            if v <= 0:\n                raise ValueError(f'value {v} must be greater than 0.')", "            if v < 0:\n                raise ValueError(f'value {v} must be greater than 0.')", ST), 'R-ORD.bounds'),
    C('fire-enum-check-dropped', 'fire', ['C05'], sub("            if v not in self._PERMITTED:\n                raise ValueError(", "            if v not in self._PERMITTED and len(v) > 40:\n                raise ValueError(", ST), 'R-ORD.bounds'),
    C('fire-translate-c-dropped', 'fire', ['C05'], sub("            pattern_ = pattern_.replace('\\\\c', name_character)\n", "", TR), 'R-EXH.regex'),
    C('fire-value-stored-before-check', 'fire', ['C05', 'C10'], sub("        self.TYPE(val, parent=self)\n        self._value = val", "        self._value = val\n        self.TYPE(val, parent=self)", XE), 'checked-is-stored'),
    C('silent-reformat-check-value', 'silent', ['C05'], reformat_function(ST, 'XSDSimpleType', '_check_value'), None, 're-formatting'),
    # ---- C06
    C('fire-parent-not-set', 'fire', ['C06', 'C18'], sub("        self._unordered_children.append(child)\n        child._parent = self\n        return child", "        self._unordered_children.append(child)\n        return child", XE), 'R-PAIR.add'),
    C('fire-revert-F5', 'fire', ['C06'], revert_commit('9774017'), 'R-PAIR.replace'),
    C('fire-revert-F9', 'fire', ['C06'], revert_commit('09fcebd'), 'R-CONS.rehome'),
    C('fire-revert-F10', 'fire', ['C06', 'C11'], revert_commit('58e301d'), 'R-PAIR.remove'),
    C('fire-revert-F11', 'fire', ['C05'], revert_commit('4adff6c'), 'R-TEXT.collapse-set'),
    C('fire-revert-F12', 'fire', ['C11'], revert_commit('5b4d495'), 'R-PAIR.flags'),
    C('fire-back-pointer-not-cleared', 'fire', ['C06'], sub("            child.parent_xsd_element.xml_elements.remove(child)\n            child.parent_xsd_element = None\n", "            child.parent_xsd_element.xml_elements.remove(child)\n", XE), 'R-PAIR.remove'),
    C('fire-foreign-writer', 'fire', ['C06'], sub("    def find_child(self, name: Union['XMLElement', str], ordered: bool = False) -> 'XMLElement':\n", "    def find_child(self, name: Union['XMLElement', str], ordered: bool = False) -> 'XMLElement':\n        self._unordered_children.sort(key=lambda ch: ch.name) if ordered else None\n", XE), 'R-OWN.children'),
    C('silent-rename-local-replace', 'silent', ['C06', 'C01', 'C10'], rename_local(XE, 'XMLElement.replace_child', 'old_child', 'replaced'), None, 'renaming a local'),
    # ---- C08 / C09
    C('fire-ladder-swapped', 'fire', ['C08'], multi(sub("            output = eval(convert_to_xml_class_name(node.tag))(value_=float(text))", "            output = eval(convert_to_xml_class_name(node.tag))(value_=int(text))", PA),
                                                    sub("            output = eval(convert_to_xml_class_name(node.tag))(value_=int(text))\n\n", "            output = eval(convert_to_xml_class_name(node.tag))(value_=float(text))\n\n", PA)), 'R-LADDER'),
    C('fire-catch-and-pass', 'fire', ['C09', 'C08'], sub("            except ValueError:\n                setattr(output, k, float(v))", "            except ValueError:\n                pass", PA), 'NOSWALLOW'),
    C('fire-children-skipped', 'fire', ['C09'], sub("    for child in xml_node:\n        output.add_child(_parse_node(child))", "    for child in xml_node:\n        if child.tag != 'miscellaneous':\n            output.add_child(_parse_node(child))", PA), 'R-CONSUME'),
    C('fire-attr-filter', 'fire', ['C09'], sub("    for k, v in node.attrib.items():\n        try:", "    for k, v in node.attrib.items():\n        if k == 'id':\n            continue\n        try:", PA), 'R-CONSUME'),
    C('fire-revert-F3', 'fire', ['C17', 'C09'], revert_commit('7281d51'), 'R-ENC'),
    # ---- C10 / C11
    C('fire-append-before-matcher', 'fire', ['C10'], sub("            self._child_container_tree.add_element(child, forward)\n        self._unordered_children.append(child)", "            self._unordered_children.append(child)\n            self._child_container_tree.add_element(child, forward)\n        if not self.xsd_check:\n            self._unordered_children.append(child)", XE), 'R-ATOM'),
    C('fire-chosen-child-reset-dropped', 'fire', ['C11'], sub("                parent_container.chosen_child = None\n                parent_container.requirements_fulfilled = False\n", "                parent_container.requirements_fulfilled = False\n", XE), 'R-PAIR.flags'),
    C('silent-try-restore', 'silent', ['C10'], sub("        self.TYPE(val, parent=self)\n        self._value = val", "        old = self._value if hasattr(self, '_value') else None\n        try:\n            self.TYPE(val, parent=self)\n        except (TypeError, ValueError):\n            self._value = old\n            raise\n        self._value = val", XE), None, 'a handler that restores state before re-raising'),
    # ---- C13 / C20
    C('fire-class-level-children', 'fire', ['C13'], sub("    TYPE = None\n    _SEARCH_FOR_ELEMENT = ''\n    XSD_TREE = None\n\n    def __init__(self, value_='', xsd_check=True, **kwargs):", "    TYPE = None\n    _SEARCH_FOR_ELEMENT = ''\n    XSD_TREE = None\n    _unordered_children = []\n\n    def __init__(self, value_='', xsd_check=True, **kwargs):", XE), 'fresh-instance'),
    C('fire-template-not-copied', 'fire', ['C13'], sub("self._child_container_tree = copy.copy(containers[self.TYPE.__name__])", "self._child_container_tree = containers[self.TYPE.__name__]", XE), 'R-COPY.template'),
    C('fire-copy-shares-content', 'fire', ['C13'], sub("copied = self.__class__(content=self.content.__copy__(), min_occurrences", "copied = self.__class__(content=self.content, min_occurrences", CC), 'R-COPY.template'),
    C('fire-leaf-copy-returns-self', 'fire', ['C13'], sub("    def __copy__(self):\n        return self.__class__(self.xsd_tree.__deepcopy__())", "    def __copy__(self):\n        return self", EL), 'R-COPY.template'),
    C('fire-revert-F7', 'fire', ['C20', 'C13'], revert_commit('f659b8d'), 'R-EFF.shared'),
    C('silent-new-lazy-cache', 'silent', ['C20', 'C13'], sub("    @property\n    def ref(self):\n        if self._ref is None:\n            self._ref = self.xsd_tree.get_attributes().get('ref')\n        return self._ref",
                                                              "    @property\n    def ref(self):\n        if self._ref is None:\n            value = self.xsd_tree.get_attributes().get('ref')\n            self._ref = value\n        return self._ref", AT), None, 'fill-then-publish through a local'),
    # ---- C14
    C('fire-revert-F4', 'fire', ['C14', 'C13'], revert_commit('dcf3bc8'), 'R-COPY'),
    C('fire-deepcopy-drops-xsd-check', 'fire', ['C14'], sub("copied = self.__class__(value_=self.value_, xsd_check=self.xsd_check, **self._kwargs)", "copied = self.__class__(value_=self.value_, **self._kwargs)", XE), 'R-COPY.complete'),
    C('fire-deepcopy-shallow-children', 'fire', ['C14'], sub("            copied.add_child(copy.deepcopy(child))", "            copied.add_child(child)", XE), 'R-COPY.complete'),
    # ---- C15 / C16
    C('fire-shortcut-remove-missing', 'fire', ['C15'], sub("        elif value is None:\n            if found_child:\n                self.remove(found_child)", "        elif value is None:\n            pass", XE), 'R-TABLE.shortcut'),
    C('fire-tostring-concat', 'fire', ['C16'], sub("        return ET.tostring(self.et_xml_element, encoding='unicode') + '\\n'", "        return '<!-- ' + self.name + ' -->' + ET.tostring(self.et_xml_element, encoding='unicode') + '\\n'", XE), 'R-SINK'),
    C('fire-tostring-mutates', 'fire', ['C16'], sub("        self._create_et_xml_element()\n\n        return ET.tostring(", "        self._create_et_xml_element()\n        self._attributes = dict(sorted(self._attributes.items()))\n\n        return ET.tostring(", XE), 'R-EFF.pure'),
    # ---- C17
    C('fire-revert-F2', 'fire', ['C17'], revert_commit('63b7667'), 'open-after-validate'),
    C('fire-encoding-removed', 'fire', ['C17'], sub("with open(musicxml_xsd_path, encoding='utf-8') as file:", "with open(musicxml_xsd_path) as file:", UT), 'R-ENC'),
    # ---- C18
    C('fire-guard-removed', 'fire', ['C18'], sub("        if self.xsd_check:\n            parent_container = child.parent_xsd_element.parent_container.get_parent()", "        if True:\n            parent_container = child.parent_xsd_element.parent_container.get_parent()", XE), 'R-DOM.guard'),
    C('fire-parent-flag-consulted', 'fire', ['C18'], sub("    def _final_checks(self, intelligent_choice=False):\n        if self.xsd_check:", "    def _final_checks(self, intelligent_choice=False):\n        if self.xsd_check and (self.up is None or self.up.xsd_check):", XE), 'R-DOM.per-element'),
    # ---- C19
    C('fire-revert-F1', 'fire', ['C19'], revert_commit('b8da7d9'), 'R-EFF.io'),
    C('fire-print-added', 'fire', ['C19'], sub("    def duplicate(self):\n", "    def duplicate(self):\n        print('duplicating', self)\n", CC), 'R-EFF.io'),
    C('fire-keyerror-added', 'fire', ['C19'], sub("        if not same_name_leaves:\n            raise XMLChildContainerWrongElementError()", "        if not same_name_leaves:\n            raise KeyError(xml_element.name)", CC), 'R-EFF.escape'),
    # ---- behaviour-preserving refactorings over several properties
    C('silent-reformat-add-element', 'silent', ['C01', 'C06', 'C10', 'C19'], reformat_function(CC, 'XMLChildContainer', 'add_element'), None, 're-formatting'),
    C('silent-reformat-remove', 'silent', ['C06', 'C10', 'C11', 'C18'], reformat_function(XE, 'XMLElement', 'remove'), None, 're-formatting'),
    C('silent-reformat-set-attributes', 'silent', ['C04', 'C10'], reformat_function(XE, 'XMLElement', '_set_attributes'), None, 're-formatting'),
    C('silent-reformat-parser', 'silent', ['C08', 'C09'], reformat_function(PA, None, '_et_xml_to_music_xml'), None, 're-formatting'),
    C('silent-rename-local-add-element', 'silent', ['C01', 'C10', 'C19'], rename_local(CC, 'XMLChildContainer.add_element', 'selected', 'target_leaf'), None, 'renaming a local'),
    C('silent-independent-statements-reordered', 'silent', ['C13', 'C14', 'C06'], sub("        self._attributes = {}\n        self._et_xml_element = None\n", "        self._et_xml_element = None\n        self._attributes = {}\n", XE), None, 'independent statements commute'),
    C('silent-equivalent-comparison', 'silent', ['C01'], sub("            if len(self.content.xml_elements) == self.max_occurrences:", "            if self.max_occurrences == len(self.content.xml_elements):", CC), None, 'swapped operands'),
    C('silent-extract-helper-write', 'silent', ['C17'], sub("        xml_string = self.to_string(intelligent_choice=intelligent_choice)\n        with open(path, 'w', encoding='utf-8') as file:", "        xml_string = self.to_string(intelligent_choice=intelligent_choice)\n        destination = path\n        with open(destination, 'w', encoding='utf-8') as file:", XE), None, 'an alias for the path'),
]

ALL_PROPS = ['C01', 'C03', 'C04', 'C05', 'C06', 'C08', 'C09', 'C10', 'C11', 'C13', 'C14', 'C15', 'C16', 'C17', 'C18', 'C19', 'C20']
CONTROLS += [
    C('silent-extract-helper-add-child', 'silent', ['C06', 'C10', 'C18', 'C13', 'C15', 'C01'], multi(
        sub("        self._unordered_children.append(child)\n        child._parent = self\n        return child",
            "        self._register_child(child)\n        return child", XE),
        sub("    def find_child(self, name: Union['XMLElement', str], ordered: bool = False) -> 'XMLElement':\n",
            "    def _register_child(self, child):\n        self._unordered_children.append(child)\n        child._parent = self\n\n"
            "    def find_child(self, name: Union['XMLElement', str], ordered: bool = False) -> 'XMLElement':\n", XE)), None, 'bookkeeping of add_child extracted into a private helper'),
    C('silent-extract-helper-remove', 'silent', ['C06', 'C10', 'C11', 'C18'], multi(
        sub("            child.parent_xsd_element.xml_elements.remove(child)\n            child.parent_xsd_element = None\n",
            "            self._detach_from_leaf(child)\n", XE),
        sub("    def find_child(self, name: Union['XMLElement', str], ordered: bool = False) -> 'XMLElement':\n",
            "    def _detach_from_leaf(self, child):\n        child.parent_xsd_element.xml_elements.remove(child)\n        child.parent_xsd_element = None\n\n"
            "    def find_child(self, name: Union['XMLElement', str], ordered: bool = False) -> 'XMLElement':\n", XE)), None, 'leaf detach of remove extracted into a private helper'),
    C('silent-extract-helper-final-checks', 'silent', ['C01', 'C18', 'C16', 'C17', 'C04'], multi(
        sub("        if self.xsd_check:\n            self._final_checks(intelligent_choice=intelligent_choice)\n        self._create_et_xml_element()",
            "        self._validate(intelligent_choice)\n        self._create_et_xml_element()", XE),
        sub("    def find_child(self, name: Union['XMLElement', str], ordered: bool = False) -> 'XMLElement':\n",
            "    def _validate(self, intelligent_choice):\n        if self.xsd_check:\n            self._final_checks(intelligent_choice=intelligent_choice)\n\n"
            "    def find_child(self, name: Union['XMLElement', str], ordered: bool = False) -> 'XMLElement':\n", XE)), None, 'the validation step of to_string extracted into a private helper'),
    C('silent-extract-helper-duplication', 'silent', ['C01', 'C06', 'C10', 'C11', 'C19', 'C16'], multi(
        sub("            duplicated_parent = same_name_leaves[-1]._duplicate_parent_in_path()\n            if duplicated_parent:\n"
            "                selected_same_name_leaves = [leaf for leaf in duplicated_parent.iterate_leaves() if\n"
            "                                             leaf.content.name == xml_element.name and not\n"
            "                                             leaf.max_is_reached]\n"
            "                if self._parent_xml_element and self.up:\n                    self._parent_xml_element._child_container_tree = self.up\n\n"
            "            else:\n                raise XMLChildContainerChoiceHasAnotherChosenChild\n",
            "            selected_same_name_leaves = self._free_leaves_of_new_duplicate(same_name_leaves, xml_element.name)\n"
            "            if selected_same_name_leaves is None:\n                raise XMLChildContainerChoiceHasAnotherChosenChild\n", CC),
        sub("                duplicated_parent = selected_same_name_leaves[-1]._duplicate_parent_in_path()\n                if duplicated_parent:\n"
            "                    selected_same_name_leaves_max_not_reached = [leaf for leaf in duplicated_parent.iterate_leaves() if\n"
            "                                                                 leaf.content.name ==\n"
            "                                                                 xml_element.name and not leaf.max_is_reached]\n"
            "                    if self._parent_xml_element and self.up:\n                        self._parent_xml_element._child_container_tree = self.up\n"
            "                else:\n                    raise XMLChildContainerMaxOccursError()\n",
            "                selected_same_name_leaves_max_not_reached = self._free_leaves_of_new_duplicate(selected_same_name_leaves, xml_element.name)\n"
            "                if selected_same_name_leaves_max_not_reached is None:\n                    raise XMLChildContainerMaxOccursError()\n", CC),
        sub("    def _update_requirements_in_path(self):\n",
            "    def _free_leaves_of_new_duplicate(self, candidates, name):\n"
            "        duplicated_parent = candidates[-1]._duplicate_parent_in_path()\n        if duplicated_parent:\n"
            "            if self._parent_xml_element and self.up:\n                self._parent_xml_element._child_container_tree = self.up\n"
            "            return [leaf for leaf in duplicated_parent.iterate_leaves() if leaf.content.name == name and not leaf.max_is_reached]\n"
            "        return None\n\n    def _update_requirements_in_path(self):\n", CC)), None,
      'the two duplicate-the-repeatable-parent blocks of add_element extracted into one method (behaviour preserving)'),
    C('silent-correct-memo-ordered-children', 'silent', ['C01', 'C06', 'C11', 'C16', 'C10', 'C13', 'C14'], multi(
        sub("        self._unordered_children = []\n        self.value_ = value_", "        self._unordered_children = []\n        self._ordered_children = None\n        self.value_ = value_", XE),
        sub("            return [xml_element for leaf in self._child_container_tree.iterate_leaves() for xml_element in\n"
            "                    leaf.content.xml_elements if\n                    leaf.content.xml_elements]",
            "            if self._ordered_children is None:\n"
            "                self._ordered_children = [xml_element for leaf in self._child_container_tree.iterate_leaves() for xml_element in\n"
            "                                          leaf.content.xml_elements]\n            return list(self._ordered_children)", XE),
        sub("        self._unordered_children.append(child)\n        child._parent = self\n        return child",
            "        self._unordered_children.append(child)\n        child._parent = self\n        self._ordered_children = None\n        return child", XE),
        sub("        child._parent = None\n        del child", "        child._parent = None\n        self._ordered_children = None\n        del child", XE),
        sub("        new._parent = self\n        old_child._parent = None\n        return new",
            "        new._parent = self\n        old_child._parent = None\n        self._ordered_children = None\n        return new", XE),
        sub("                required_children = self._child_container_tree.get_required_element_names(\n                    intelligent_choice=intelligent_choice)\n",
            "                required_children = self._child_container_tree.get_required_element_names(\n                    intelligent_choice=intelligent_choice)\n"
            "                self._ordered_children = None\n", XE)), None,
      'a coherent memo of the ordered view: reset after every write of the state it is computed from (twin of seed R2-C06b, which resets before the write)'),
    C('silent-get-children-delegates', 'silent', ['C01', 'C06', 'C16'],
      sub("            return [xml_element for leaf in self._child_container_tree.iterate_leaves() for xml_element in\n"
          "                    leaf.content.xml_elements if\n                    leaf.content.xml_elements]",
          "            return self._child_container_tree.get_attached_elements()", XE), None,
      'get_children delegates to the container method that concatenates the leaf lists in leaf order'),
    C('silent-extract-helper-replace-leaf', 'silent', ['C01', 'C06', 'C10', 'C11', 'C13', 'C19'], multi(
        sub("            parent_xsd_element = old_child.parent_xsd_element\n            new.parent_xsd_element = parent_xsd_element\n"
            "            parent_xsd_element._xml_elements = [new if el == old_child else el for el in\n"
            "                                                parent_xsd_element.xml_elements]\n",
            "            old_child.parent_xsd_element.replace_xml_element(old_child, new)\n", XE),
        sub("    @property\n    def xml_elements(self):",
            "    def replace_xml_element(self, old, new):\n        new.parent_xsd_element = self\n"
            "        self._xml_elements = [new if el == old else el for el in self._xml_elements]\n\n    @property\n    def xml_elements(self):", EL)), None,
      'the leaf swap of replace_child moved into a new public method of the leaf class (behaviour preserving; seeds R2-C10b / R2-C11a are the broken variants)'),
    C('silent-feature-additions', 'silent', ALL_PROPS, multi(
        sub("    def find_child(self, name: Union['XMLElement', str], ordered: bool = False) -> 'XMLElement':\n",
            "    def get_child_names(self, ordered: bool = False):\n        return [child.name for child in self.get_children(ordered=ordered)]\n\n"
            "    def has_children(self) -> bool:\n        return len(self._unordered_children) > 0\n\n"
            "    def __repr__(self):\n        return f\"<{self.__class__.__name__} at {hex(id(self))}>\"\n\n"
            "    def find_child(self, name: Union['XMLElement', str], ordered: bool = False) -> 'XMLElement':\n", XE),
        sub("        if self.xsd_check:\n            if not self._child_container_tree:\n                raise XMLElementCannotHaveChildrenError()",
            "        if forward is not None and not isinstance(forward, int):\n"
            "            raise TypeError(f\"forward must be an int or None, not {type(forward).__name__}\")\n"
            "        import logging\n        logging.getLogger(__name__).debug(\"adding %s to %s\", child.__class__.__name__, self.__class__.__name__)\n"
            "        if self.xsd_check:\n            if not self._child_container_tree:\n                raise XMLElementCannotHaveChildrenError()", XE)), None,
      'new read-only public methods, a __repr__, a debug log line and an early documented TypeError for a non-int forward: every property still holds'),
    C('silent-upstream-fix-kf01-kf16', 'silent', ['C01', 'C06', 'C09', 'C10', 'C11', 'C19', 'C08'], multi(
        sub("            selected = same_name_leaves[forward]\n            if selected not in selected_same_name_leaves:\n"
            "                raise XMLChildContainerChoiceHasAnotherChosenChild('Wrong forwarding')",
            "            if not isinstance(forward, int) or not -len(same_name_leaves) <= forward < len(same_name_leaves):\n"
            "                raise XMLChildContainerWrongElementError(f'forward={forward!r} does not select one of {len(same_name_leaves)} leaves')\n"
            "            selected = same_name_leaves[forward]\n            if selected not in selected_same_name_leaves:\n"
            "                raise XMLChildContainerChoiceHasAnotherChosenChild('Wrong forwarding')\n"
            "            if selected.max_is_reached:\n                raise XMLChildContainerMaxOccursError()", CC),
        sub("    for k, v in node.attrib.items():",
            "    if node.tail and node.tail.strip():\n        raise ValueError(f\"Text between elements is not allowed: {node.tail.strip()!r} after <{node.tag}>\")\n\n"
            "    for k, v in node.attrib.items():", PA)), None,
      'a maintainer repairs two recorded findings (forward is range- and occurrence-checked before the attach; the parser rejects tail text)'),
    C('silent-upstream-fix-kf19', 'silent', ['C01', 'C11', 'C06', 'C10'],
      sub("                if node._requirements_fulfilled is None:\n                    node._requirements_fulfilled = True\n            else:\n"
          "                node._requirements_fulfilled = True\n",
          "                if node._requirements_fulfilled is None:\n                    node._requirements_fulfilled = True\n"
          "            elif node._requirements_fulfilled is None:\n                node._requirements_fulfilled = True\n", CC), None,
      'the flag initialiser only fills flags that are still None (a repair of KF-19): no alarm, and the KNOWN-FINDING line disappears'),
    C('fire-get-children-default-unordered', 'fire', ['C01'],
      sub("    def get_children(self, ordered: bool = True) -> List['XMLElement']:", "    def get_children(self, ordered: bool = False) -> List['XMLElement']:", XE), 'R-DOM.ordered-view',
      'the default of get_children flips to the insertion order: the serialiser (which passes no argument) writes children in insertion order'),
    C('fire-deref-hoisted-before-none-guard', 'fire', ['C19'],
      sub("        if self._child_container_tree:\n            return [xml_element for leaf in self._child_container_tree.iterate_leaves() for",
          "        leaves = self._child_container_tree.get_leaves()\n        if self._child_container_tree:\n            return [xml_element for leaf in leaves for", XE), 'R-DOM.none-guard',
      'the leaves are fetched into a local before the test that the container exists: AttributeError on None for an element without child content (the alias pass of '
      'the normaliser must not move the dereference back behind the guard)'),
    C('fire-class-name-before-membership-gate', 'fire', ['C15', 'C19'],
      sub("        child_name = name.replace('xml_', '')\n\n        if '-'.join(child_name.split('_')) not in self.possible_children_names:\n            raise NameError\n\n"
          "        child_class_name = 'XML' + ''.join([cap_first(partial) for partial in child_name.split('_')])\n        child_class = eval(child_class_name)\n",
          "        child_name = name.replace('xml_', '')\n        child_class = eval('XML' + ''.join([cap_first(partial) for partial in child_name.split('_')]))\n\n"
          "        if '-'.join(child_name.split('_')) not in self.possible_children_names:\n            raise NameError\n\n"
          "        child_class_name = 'XML' + ''.join([cap_first(partial) for partial in child_name.split('_')])\n", XE), 'R-TAB.shortcut-names',
      'the class lookup (eval, cap_first) runs before the membership gate: IndexError / NameError of the name arithmetic instead of the AttributeError of a rejected name'),
    C('silent-reformat-all-modules', 'silent', ALL_PROPS, reformat_all_modules(), None, 'whole-program re-formatting'),
    C('silent-rename-all-locals-container', 'silent', ALL_PROPS, rename_all_locals(CC), None, 'every local of xmlchildcontainer.py renamed'),
    C('silent-rename-all-locals-parser', 'silent', ['C08', 'C09', 'C17', 'C19'], rename_all_locals(PA), None, 'every local of parser.py renamed'),
    C('silent-rename-all-locals-simpletype', 'silent', ['C03', 'C05', 'C08', 'C13', 'C20'], rename_all_locals(ST), None, 'every local of xsdsimpletype.py renamed'),
    C('silent-rename-all-locals-attribute', 'silent', ['C03', 'C04', 'C13', 'C20', 'C19'], rename_all_locals(AT), None, 'every local of xsdattribute.py renamed'),
    C('silent-rename-all-locals-xmlelement', 'silent', ALL_PROPS, rename_all_locals(XE), None, 'every local of xmlelement.py renamed'),
    C('silent-rename-all-locals-xsdtree', 'silent', ['C03', 'C05', 'C13', 'C19', 'C20'], rename_all_locals(TR), None, 'every local of xsdtree.py renamed'),
    C('silent-rename-all-locals-xsdelement', 'silent', ['C01', 'C06', 'C10', 'C13'], rename_all_locals(EL), None, 'every local of xsdelement.py renamed'),
    C('silent-rename-all-locals-indicator', 'silent', ['C03', 'C13', 'C20'], rename_all_locals(IND), None, 'every local of xsdindicator.py renamed'),
    C('silent-rename-all-locals-core', 'silent', ['C03', 'C04', 'C08', 'C19'], rename_all_locals(CO), None, 'every local of util/core.py renamed'),
    C('silent-rename-all-locals-complextype', 'silent', ['C03', 'C04', 'C05', 'C13', 'C20'], rename_all_locals(CT), None, 'every local of xsdcomplextype.py renamed'),
]

# seeded changes and the properties whose checks are expected to report them (DESIGN.md section 7 table)
SEED_EXPECT = {
    'C01a': ['C06', 'C11'], 'C01b': ['C01'], 'C03a': ['C13', 'C20'], 'C03b': ['C03'], 'C04a': ['C04', 'C10'], 'C04b': ['C04'], 'C05a': ['C05', 'C13', 'C20'], 'C05b': ['C05'],
    'C06a': ['C06', 'C10'], 'C06b': ['C06'], 'C08a': ['C08', 'C09'], 'C08b': ['C05', 'C13', 'C20'], 'C09b': ['C04', 'C05', 'C16'], 'C10b': ['C10'],
    'C11a': ['C06', 'C11'], 'C11b': ['C11'], 'C13a': ['C05', 'C13', 'C20'], 'C13b': ['C13', 'C14'], 'C14a': ['C13', 'C14'], 'C14b': ['C13', 'C14'],
    'C15a': ['C15'], 'C15b': ['C10', 'C15'], 'C16a': ['C04', 'C05', 'C16'], 'C16b': ['C16'], 'C17a': ['C17'], 'C17b': ['C09', 'C17'], 'C18a': ['C18'],
    'C18b': ['C18'], 'C19a': ['C15', 'C19'], 'C19b': ['C19'], 'C20a': ['C13', 'C20'], 'C20b': ['C13', 'C20'],
}
# round 2 (40 seeds, 33 caught): expectations as observed on the pinned tree; the misses are listed in DESIGN.md 11.6
SEED_EXPECT.update({
    'R2-C06a': ['C06'],
    'R2-C01a': ['C01'], 'R2-C01b': ['C01', 'C06', 'C11'], 'R2-C02a': ['C01', 'C06', 'C10', 'C11', 'C19'], 'R2-C03a': ['C03', 'C13', 'C20'],
    'R2-C03b': ['C13', 'C20'], 'R2-C04a': ['C13', 'C20'], 'R2-C04b': ['C05', 'C13', 'C20'], 'R2-C05a': ['C05', 'C13', 'C20'],
    'R2-C05b': ['C04', 'C05'], 'R2-C06b': ['C01', 'C06', 'C10', 'C11'], 'R2-C08a': ['C05', 'C13'], 'R2-C09a': ['C04', 'C05', 'C16'],
    'R2-C10a': ['C06', 'C10', 'C11'], 'R2-C10b': ['C10'], 'R2-C11a': ['C06', 'C10', 'C11'], 'R2-C11b': ['C01', 'C06', 'C11', 'C16'],
    'R2-C12b': ['C10'], 'R2-C13a': ['C05', 'C13', 'C20'], 'R2-C13b': ['C13', 'C20'], 'R2-C14a': ['C04', 'C10'],      # C13 / C20 reported its (sound) per-class name table until the own-dictionary guard was recognised in its `.get(F) is None` spelling (11.16)
   
    'R2-C14b': ['C01', 'C06', 'C11', 'C16'], 'R2-C15a': ['C01', 'C06', 'C11', 'C15', 'C18'], 'R2-C15b': ['C10', 'C13', 'C20'], 'R2-C16a': ['C04', 'C05'],
    'R2-C16b': ['C01', 'C06', 'C11'], 'R2-C17a': ['C01', 'C16', 'C17', 'C18'], 'R2-C17b': ['C17'], 'R2-C18a': ['C18'],
    'R2-C18b': ['C06', 'C10', 'C11', 'C18', 'C19'], 'R2-C19a': ['C19'], 'R2-C19b': ['C19'], 'R2-C20a': ['C05', 'C13', 'C20'],
    'R2-C20b': ['C13', 'C20'],
})
# round 3 (18 seeds: no caches, no matcher heuristics; 17 caught)
SEED_EXPECT.update({
    'R3-C01a': ['C01', 'C19'], 'R3-C03a': ['C13', 'C20'], 'R3-C04a': ['C01', 'C18'], 'R3-C05a': ['C05'],
    'R3-C05xa': ['C04', 'C05', 'C16'], 'R3-C06a': ['C10'], 'R3-C08a': ['C08', 'C09'], 'R3-C09a': ['C09'],
    'R3-C10a': ['C06', 'C10', 'C11', 'C19'], 'R3-C13a': ['C13', 'C20'], 'R3-C14a': ['C13', 'C14'], 'R3-C15a': ['C15'],
    'R3-C16a': ['C04', 'C05', 'C16'], 'R3-C17a': ['C17', 'C19'], 'R3-C18a': ['C01', 'C18'], 'R3-C19a': ['C19'],
    'R3-C20a': ['C05', 'C13', 'C20'],
})

# round 4 (10 refactorings with one semantic slip each; 10 caught)
SEED_EXPECT.update({
    'R4-C04a': ['C04'], 'R4-C06a': ['C06'], 'R4-C10a': ['C01', 'C06', 'C10'], 'R4-C13a': ['C10'],
    'R4-C14a': ['C13', 'C14'], 'R4-C15a': ['C15'], 'R4-C17a': ['C17'], 'R4-C18a': ['C18'], 'R4-C19a': ['C19'],
})

# round 5 (20 changes: computations moved to another moment / routine maintenance of the schema layer; 16 caught at first contact, 20 after the rules
# R-ENC.input (binary), R-TEXT.collapse-set, R-MEMO.value-keyed, R-TABLE.read|child-ungated, R-TAINT.subscript|attribute-removal)
SEED_EXPECT.update({
    'R5-C04a': ['C13', 'C20'], 'R5-C04b': ['C04', 'C05'], 'R5-C05b': ['C05'], 'R5-C06a': ['C06'], 'R5-C09a': ['C08'],
    'R5-C09b': ['C09'], 'R5-C10a': ['C10'], 'R5-C11a': ['C06', 'C11'], 'R5-C13a': ['C13', 'C14'], 'R5-C13b': ['C13', 'C20'], 'R5-C15a': ['C15'],
    'R5-C16a': ['C16'], 'R5-C16b': ['C16'], 'R5-C17b': ['C17'], 'R5-C18b': ['C18'], 'R5-C19a': ['C10'], 'R5-C19b': ['C19'], 'R5-C20a': ['C13', 'C20'],
    'R5-C20b': ['C13', 'C20'],
})

# round 6 (8 pairs written by one sub-agent after all rules were frozen: the same refactoring without / with one slip; the good halves are
# benign/T-R6-*): 8 of 8 slips reported by the property they break, 8 of 8 good halves silent (3 alarmed at first contact)
SEED_EXPECT.update({
    'R6-C04a': ['C04'], 'R6-C05a': ['C05'], 'R6-C10a': ['C10'], 'R6-C11a': ['C11'], 'R6-C14a': ['C14'], 'R6-C15a': ['C15'], 'R6-C17a': ['C17'], 'R6-C18a': ['C18'],
})

# round 7 (8 sub-agents, one property each, rules untouched before the first run): 8 of 8 reported.  R7-C03a is an aliasing defect of a class-level table and
# is reported by the shared-state rule (C13 / C20), R7-C08a by C09 / C13 / C20 (C08 answers ANALYSIS-ERROR: the conversion ladder is not recognised any more)
SEED_EXPECT.update({
    'R7-C01a': ['C01'], 'R7-C03a': ['C13', 'C20'], 'R7-C06a': ['C06', 'C11'], 'R7-C08a': ['C09', 'C13', 'C20'], 'R7-C09a': ['C09', 'C13', 'C20'],
    'R7-C13a': ['C13', 'C14'], 'R7-C16a': ['C16', 'C05'], 'R7-C19a': ['C19', 'C15'],
})


def apply_patch_file(relpath):
    def edit(root):
        path = os.path.join(VERIF, relpath)
        pr = subprocess.run(['patch', '-p1', '-s', '-d', root, '-i', path], capture_output=True, text=True)
        if pr.returncode != 0:
            raise Skip(f"patch {relpath} does not apply on this tree")
        return [l[6:].split('\t')[0] for l in open(path).read().splitlines() if l.startswith('+++ b/')]
    return edit


CONTROLS.append(C('fire-wrong-unroll-final-checks', 'fire', ['C01', 'C18'], apply_patch_file('controls-data/wrong-unroll-final-checks.diff'), 'R-DOM',
                  'one level of the recursion of _final_checks unrolled for childless elements, but the inlined branch forgets the required-attribute check: the '
                  're-roll pass of the normaliser must not take it for the recursive call (twin T-R3-C04a, which is complete, must stay silent)'))


def apply_benign(bid):
    def edit(root):
        path = os.path.join(VERIF, 'benign', bid, 'patch.diff')
        pr = subprocess.run(['patch', '-p1', '-s', '-d', root, '-i', path], capture_output=True, text=True)
        if pr.returncode != 0:
            raise Skip(f"benign patch {bid} does not apply on this tree")
        return [l[6:].split('\t')[0] for l in open(path).read().splitlines() if l.startswith('+++ b/')]
    return edit


# behaviour-preserving maintenance patches written by independent sub-agents (DESIGN.md 11.10): every check must stay silent
for _bid in sorted(os.listdir(os.path.join(VERIF, 'benign'))) if os.path.isdir(os.path.join(VERIF, 'benign')) else []:
    if os.path.isfile(os.path.join(VERIF, 'benign', _bid, 'patch.diff')):
        _skip = []
        _lim = os.path.join(VERIF, 'benign', _bid, 'limits.json')
        if os.path.isfile(_lim):
            _skip = json.load(open(_lim)).get('analysis_error', [])       # properties whose analysis honestly stops (exit 2) on this patch: DESIGN.md 11.10
        CONTROLS.append(C(f"silent-benign-{_bid}", 'silent', [p_ for p_ in ALL_PROPS if p_ not in _skip], apply_benign(_bid), None, 'independent behaviour-preserving maintenance patch'))

for _sid, _props in SEED_EXPECT.items():
    CONTROLS.append(C(f"fire-seed-{_sid}", 'fire', _props, apply_seed(_sid), None, 'confirmed seeded change'))


# ----------------------------------------------------------------------------------------------------------------------
def _run_control(ctl, only_prop=None):
    props = [p for p in ctl['props'] if only_prop is None or p == only_prop]
    if not props:
        return None
    tmp = tempfile.mkdtemp(prefix='mxsa-control-')
    rec = {'id': ctl['id'], 'kind': ctl['kind'], 'results': {}}
    try:
        root = os.path.join(tmp, 'repo')
        subprocess.check_call(f"cd {REPO} && git ls-files -z | rsync -a --from0 --files-from=- {REPO}/ {root}/", shell=True)
        try:
            touched = ctl['edit'](root)
        except Skip as e:
            rec['skipped'] = str(e)
            return rec
        for t in touched:
            if t.endswith('.py'):
                try:
                    py_compile.compile(os.path.join(root, t), doraise=True, cfile=os.path.join(tmp, 'x.pyc'))
                except py_compile.PyCompileError as e:
                    rec['error'] = f"edited file {t} does not compile: {e}"
                    return rec
        ev = os.path.join(tmp, 'ev')
        os.makedirs(ev)
        env = dict(os.environ, MXSA_REPO=root, MXSA_EVIDENCE_DIR=ev)
        for p in props:
            r = subprocess.run([os.path.join(VERIF, 'check'), p, '--tier', 'quick', '--quiet'], capture_output=True, text=True, env=env)
            out = r.stdout
            if ctl['kind'] == 'fire':
                ok = r.returncode == 1 and 'VIOLATION' in out and (not ctl['expect'] or p != ctl['props'][0] or ctl['expect'] in out)
            else:
                ok = r.returncode == 0 and 'VIOLATION' not in out
            rec['results'][p] = {'rc': r.returncode, 'ok': ok,
                                 'first': next((l.strip() for l in out.splitlines() if l.startswith('  rule') or l.startswith('ANALYSIS')), '')[:160]}
        return rec
    finally:
        shutil.rmtree(tmp, ignore_errors=True)


def run_controls(only_prop=None, ids=None, jobs=16):
    ctls = [c for c in CONTROLS if (ids is None or c['id'] in ids)]
    with ThreadPoolExecutor(max_workers=jobs) as ex:
        recs = [r for r in ex.map(lambda c: _run_control(c, only_prop), ctls) if r is not None]
    return recs


def summarise(recs):
    fired, silent, skipped, bad = [], [], [], []
    for r in recs:
        if 'skipped' in r:
            skipped.append(f"{r['id']}: {r['skipped']}")
            continue
        if 'error' in r:
            bad.append(f"{r['id']}: {r['error']}")
            continue
        for p, res in r['results'].items():
            tag = f"{r['id']}@{p}"
            if res['ok']:
                (fired if r['kind'] == 'fire' else silent).append(tag)
            else:
                bad.append(f"{tag}: expected {r['kind']}, got rc={res['rc']} {res['first']}")
    return fired, silent, skipped, bad


SAFE_KINDS = ('negate-if', 'split-and', 'guard-to-else', 'intro-temp', 'pos-to-kw', 'annotate', 'rename-field')
VARIANTS_PER_PROPERTY = 48


def refactoring_sweep(pid: str, seed: int = 1):
    """Specificity controls generated on the fly: behaviour-preserving rewrites of the hand-written runtime closure that are safe by
    construction (tools/refactors.py: negated branches, split conjunctions, guard clauses turned into else, named sub-expressions,
    keyword arguments, annotated assignments, renamed fields).  The property's check must stay silent on every one of them.
    -> (number silent, list of descriptions of variants that raised an alarm or broke the analysis)"""
    import random
    sys.path.insert(0, os.path.join(VERIF, 'tools'))
    import refactors as rf
    rf.REPO = REPO
    specs = rf.enumerate_variants(None, 2, seed, SAFE_KINDS)
    random.Random(seed).shuffle(specs)
    specs = specs[:VARIANTS_PER_PROPERTY]

    def one(spec):
        rel, qual, k, kind = spec
        tmp = tempfile.mkdtemp(prefix='mxsa-variant-')
        try:
            root = os.path.join(tmp, 'repo')
            subprocess.check_call(f"cd {REPO} && git ls-files -z | rsync -a --from0 --files-from=- {REPO}/ {root}/", shell=True)
            try:
                if kind in ('rename-function', 'rename-field', 'annotate'):
                    what = rf.program_wide(kind, rel, qual, root)
                else:
                    src = open(os.path.join(REPO, rel), encoding='utf-8').read()
                    new_src, what = rf.rewrite(src, rel, qual, k, rf.TARGETS[rel], kind)[:2]
                    compile(new_src, rel, 'exec')
                    open(os.path.join(root, rel), 'w', encoding='utf-8').write(new_src)
            except Exception:
                return None          # this rewrite does not apply at that place
            ev = os.path.join(tmp, 'ev')
            os.makedirs(ev)
            env = dict(os.environ, MXSA_REPO=root, MXSA_EVIDENCE_DIR=ev)
            r = subprocess.run([os.path.join(VERIF, 'check'), pid, '--tier', 'quick', '--quiet'], capture_output=True, text=True, env=env)
            ok = r.returncode == 0 and 'VIOLATION' not in r.stdout
            return ok, f"{kind} {rel}::{qual}#{k} ({str(what)[:60]}): rc={r.returncode}"
        finally:
            shutil.rmtree(tmp, ignore_errors=True)
    with ThreadPoolExecutor(max_workers=16) as ex:
        res = [r for r in ex.map(one, specs) if r is not None]
    return sum(1 for ok, _ in res if ok), [d for ok, d in res if not ok]


def run(pid: str) -> int:
    """Thorough tier of one property: run its controls, append the outcome to the evidence file, exit 2 when a control misbehaves."""
    recs = run_controls(only_prop=pid)
    fired, silent, skipped, bad = summarise(recs)
    try:
        seed = int(os.environ.get('VERIF_SEED', '1') or 1)
    except ValueError:
        seed = 1
    n_silent, alarmed = refactoring_sweep(pid, seed)
    bad = bad + [f"behaviour-preserving variant raised an alarm: {d}" for d in alarmed]
    ev_path = os.path.join(os.environ.get('MXSA_EVIDENCE_DIR') or os.path.join(VERIF, 'evidence'), f"{pid}.json")
    try:
        ev = json.load(open(ev_path))
        ev['tier'] = 'thorough'
        cov = ev['coverage']
        cov['controls_fired'] = fired
        cov['controls_silent'] = silent
        cov['controls_skipped'] = skipped
        cov['controls_misbehaved'] = bad
        cov['generated_refactoring_variants_silent'] = n_silent
        cov['generated_refactoring_variants_alarmed'] = alarmed
        cov['evaluations'] = cov.get('evaluations', 0) + len(fired) + len(silent)
        json.dump(ev, open(ev_path, 'w'), indent=1, ensure_ascii=False)
    except Exception as e:        # pragma: no cover
        print(f"ANALYSIS-ERROR property={pid}: cannot update evidence with control results: {e}")
        return 2
    print(f"{pid} [thorough] sensitivity controls: {len(fired)} fired as required, {len(silent)} stayed silent as required, {len(skipped)} skipped, {len(bad)} misbehaved; "
          f"{n_silent} generated behaviour-preserving variants stayed silent")
    for b in bad:
        print(f"ANALYSIS-ERROR property={pid}: control {b}")
    return 2 if bad else 0


def run_all(argv) -> int:
    ids = set(argv) if argv else None
    recs = run_controls(ids=ids)
    fired, silent, skipped, bad = summarise(recs)
    print(f"controls: {len(fired)} fired, {len(silent)} silent, {len(skipped)} skipped, {len(bad)} misbehaved")
    for s in skipped:
        print('  skipped', s)
    for b in bad:
        print('  MISBEHAVED', b)
    return 2 if bad else 0
