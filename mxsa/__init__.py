"""mxsa - a static analyser written for one code base: alexgorji/musicxml.

Nothing in this package imports or executes the `musicxml` package.  It reads the Python sources with
`ast` and the schema files with `xml.etree` (as data).
"""
