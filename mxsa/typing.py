"""Whole-program receiver typing for this code base (0-CFA style fix-point over sets of abstract types).

Atoms
  ('inst', C)   instance of class C (or a subclass)      ('cls', C)   the class object C (or a subclass)
  ('list', fs)  list / iterator / set of elements fs     ('dict', fs) mapping with values fs
  ('tuple', (fs, fs, ..))                                  ('func', key) a function object
  ('ext', name) object of a library outside the closure   ('prim', name) str/int/float/bool/none
  ('strp', p)   a string known to start with p (argument of eval)
"""
import ast
from typing import Dict, FrozenSet, List, Optional, Set, Tuple

from .astutil import unparse, const_value, walk_local, SCOPE_TYPES
from .srcmodel import SourceModel, FuncInfo, ClassInfo

Atom = tuple
TSet = FrozenSet[Atom]
EMPTY: TSet = frozenset()
MAX_DEPTH = 3

TREE_FAMILY_ITER = {'get_children', 'traverse', 'iterate_leaves', 'get_reversed_path_to_root', '_raw_traverse',
                    '_raw_reversed_path_to_root', 'get_children_of_type', 'filter_nodes', 'get_layer'}
TREE_FAMILY_ONE = {'get_parent', 'up', 'get_root', 'next', 'previous', 'get_farthest_leaf', 'add_child'}


def inst(c): return ('inst', c)
def clsatom(c): return ('cls', c)
def lst(fs): return ('list', frozenset(fs))
def prim(n): return ('prim', n)


def depth(a: Atom) -> int:
    if a[0] in ('list', 'dict'):
        return 1 + max([depth(x) for x in a[1]] or [0])
    if a[0] == 'tuple':
        return 1 + max([depth(x) for fs in a[1] for x in fs] or [0])
    return 0


def clip(ts) -> TSet:
    """Normalise a set of atoms: one list atom, one dict atom, one tuple atom per arity (element sets joined),
    bounded nesting, bounded 'ext' chains, only class-like string prefixes."""
    lists, dicts, tuples, out = None, None, {}, set()
    for a in ts:
        k = a[0]
        if k == 'list':
            lists = (lists or frozenset()) | a[1]
        elif k == 'dict':
            dicts = (dicts or frozenset()) | a[1]
        elif k == 'tuple':
            cur = tuples.get(len(a[1]))
            tuples[len(a[1])] = a[1] if cur is None else tuple(x | y for x, y in zip(cur, a[1]))
        elif k == 'strp':
            if a[1][:3] in ('XML', 'XSD'):
                out.add(a)
        elif k == 'ext':
            if a[1].count('.') <= 3:
                out.add(a if len(a) == 2 else (a[0], a[1], next(iter(clip({a[2]})), ('list', frozenset()))))
        else:
            out.add(a)
    if lists is not None:
        out.add(('list', clip(lists)))
    if dicts is not None:
        out.add(('dict', clip(dicts)))
    for t in tuples.values():
        out.add(('tuple', tuple(clip(x) for x in t)))
    return frozenset(a for a in out if depth(a) <= MAX_DEPTH)


def elems(ts: TSet) -> TSet:
    out = set()
    for a in ts:
        if a[0] == 'list':
            out |= a[1]
        elif a[0] == 'dict':
            out.add(prim('str'))
        elif a[0] == 'tuple':
            for fs in a[1]:
                out |= fs
        elif a[0] == 'ext' and a[1] in ('ET.Element',):
            out.add(a)
    return frozenset(out)


class Typing:
    def __init__(self, sm: SourceModel):
        self.sm = sm
        self.var: Dict[Tuple[str, str], Set[Atom]] = {}      # (func fq, var) -> atoms
        self.ret: Dict[str, Set[Atom]] = {}                  # func fq -> atoms
        self.field: Dict[Tuple[str, str], Set[Atom]] = {}    # (class name, field) -> atoms
        self.modvar: Dict[Tuple[str, str], Set[Atom]] = {}   # (module, name) -> atoms
        self.changed = False
        self.expr_type: Dict[ast.AST, TSet] = {}
        self._family_cache: Dict[str, Optional[str]] = {}
        self._seed()
        self._solve()

    # ------------------------------------------------------------------ helpers
    def cls(self, name) -> Optional[ClassInfo]:
        return self.sm.get_class(name)

    def tree_family(self, cname: str) -> Optional[str]:
        """The Tree subclass family of a class: the class directly below Tree in its MRO."""
        if cname in self._family_cache:
            return self._family_cache[cname]
        c = self.cls(cname)
        fam = None
        if c is not None:
            names = [x.name for x in c.mro]
            if 'Tree' in names:
                i = names.index('Tree')
                fam = names[i - 1] if i > 0 else 'Tree'
        self._family_cache[cname] = fam
        return fam

    def _add(self, table, key, atoms) -> None:
        atoms = clip(atoms)
        if not atoms:
            return
        cur = table.setdefault(key, set())
        n = len(cur)
        cur |= atoms
        if len(cur) != n:
            self.changed = True

    # ------------------------------------------------------------------ seeding from annotations and module level
    def _ann_type(self, ann, fi: Optional[FuncInfo]) -> Set[Atom]:
        if ann is None:
            return set()
        if isinstance(ann, ast.Constant) and isinstance(ann.value, str):
            try:
                ann = ast.parse(ann.value, mode='eval').body
            except SyntaxError:
                return set()
        if isinstance(ann, ast.Name):
            n = ann.id
            if n in ('str', 'int', 'float', 'bool'):
                return {prim(n)}
            if n == 'T' and fi is not None and fi.cls is not None:
                return {inst(fi.cls.name)}
            if self.cls(n) is not None:
                return {inst(n)}
            return set()
        if isinstance(ann, ast.Attribute):
            t = unparse(ann)
            if t in ('ET.Element',):
                return {('ext', 'ET.Element')}
            return set()
        if isinstance(ann, ast.Subscript):
            head = unparse(ann.value)
            if head in ('Optional', 'Union', 'typing.Optional'):
                out = set()
                items = ann.slice.elts if isinstance(ann.slice, ast.Tuple) else [ann.slice]
                for it in items:
                    out |= self._ann_type(it, fi)
                return out
            if head in ('List', 'list', 'Iterator', 'Iterable', 'Set', 'set'):
                return {lst(self._ann_type(ann.slice, fi))}
            if head in ('Tree',):
                return {inst('Tree')}
        return set()

    def _seed(self):
        for fi in self.sm.functions:
            a = fi.node.args
            allargs = a.posonlyargs + a.args + a.kwonlyargs
            for i, arg in enumerate(allargs):
                if i == 0 and fi.cls is not None and fi.parent is None and not fi.is_staticmethod:
                    if fi.is_classmethod:
                        self._add(self.var, (fi.fq, arg.arg), {clsatom(fi.cls.name)})
                    else:
                        self._add(self.var, (fi.fq, arg.arg), {inst(fi.cls.name)})
                    continue
                self._add(self.var, (fi.fq, arg.arg), self._ann_type(arg.annotation, fi))
            if a.kwarg:
                self._add(self.var, (fi.fq, a.kwarg.arg), {('dict', frozenset())})
            if a.vararg:
                self._add(self.var, (fi.fq, a.vararg.arg), {lst(())})
            self._add(self.ret, fi.fq, self._ann_type(fi.node.returns, fi) if fi.cls is None or fi.cls.name != 'Tree' else set())

    # ------------------------------------------------------------------ solving
    def _solve(self):
        for it in range(30):
            self.changed = False
            for m in self.sm.modules.values():
                self._module_level(m)
            for fi in self.sm.functions:
                self._function(fi)
            if not self.changed:
                break
        self.iterations = it + 1

    def _module_level(self, m):
        env = _Env(self, None, m)
        for st in m.tree.body:
            if isinstance(st, (ast.FunctionDef, ast.ClassDef, ast.Import, ast.ImportFrom)):
                continue
            env.visit_stmt(st)

    def _function(self, fi: FuncInfo):
        env = _Env(self, fi, fi.module)
        for st in fi.node.body:
            env.visit_stmt(st)

    # ------------------------------------------------------------------ public queries
    def type_of(self, node) -> TSet:
        return self.expr_type.get(node, EMPTY)

    def var_type(self, fi: FuncInfo, name: str) -> TSet:
        return frozenset(self.var.get((fi.fq, name), ()))

    # member lookup -----------------------------------------------------------------------------------------
    def related_field(self, cname: str, name: str) -> Set[Atom]:
        """Union of the recorded types of field `name` over classes related to cname (ancestors and descendants)."""
        c = self.cls(cname)
        out = set()
        if c is None:
            return out
        anc = {x.name for x in c.mro}
        for (k, f), v in self.field.items():
            if f != name:
                continue
            if k in anc:
                out |= v
            else:
                kc = self.cls(k)
                if kc is not None and kc.is_subclass_of(cname):
                    out |= v
        return out

    def overriders(self, cname: str, name: str):
        key = (cname, name)
        cache = self.__dict__.setdefault('_ov_cache', {})
        if key not in cache:
            cache[key] = [s for s in self.sm.subclasses(cname) if s.name != cname and (name in s.methods or name in s.setters)]
        return cache[key]

    def member(self, recv: Atom, name: str):
        """-> list of ('method', FuncInfo, recv) | ('property', FuncInfo, recv) | ('field', atoms) | ('classattr', ClassInfo, expr)"""
        out = []
        kind, cname = recv[0], recv[1]
        c = self.cls(cname) if kind in ('inst', 'cls') else None
        if c is None:
            return out
        # dynamic dispatch: the class itself plus subclasses that override the member
        cands = [c] + self.overriders(cname, name)
        seen = set()
        for k in cands:
            f = k.lookup(name)
            if f is not None and f not in seen:
                seen.add(f)
                out.append(('property' if f.is_property else 'method', f, (kind, k.name)))
        if not seen:
            b = c.lookup_binding(name)
            if b is not None:
                out.append(('classattr', b[0], b[1]))
            # class attributes re-bound in subclasses (generated tables): a few representatives are enough,
            # the generated bindings all have the same shape
            shapes = set()
            for s_ in self.sm.subclasses(cname):
                if s_ is not c and name in s_.bindings:
                    sh = type(s_.bindings[name]).__name__ + ':' + unparse(s_.bindings[name])[:24]
                    if sh not in shapes and len(shapes) < 6:
                        shapes.add(sh)
                        out.append(('classattr', s_, s_.bindings[name]))
        if kind == 'inst':
            fld = self.related_field(cname, name)
            if fld:
                out.append(('field', fld))
        elif kind == 'cls':
            fld = self.related_field(cname, name)
            if fld:
                out.append(('field', fld))
        return out


class _Env:
    """Evaluates one function body (flow-insensitively) and records facts into the Typing tables."""

    def __init__(self, ty: Typing, fi: Optional[FuncInfo], module):
        self.ty = ty
        self.fi = fi
        self.m = module
        self.sm = ty.sm

    # -- variables ------------------------------------------------------------------------------------------
    def get_var(self, name: str) -> Set[Atom]:
        fi = self.fi
        while fi is not None:
            v = self.ty.var.get((fi.fq, name))
            if v:
                return set(v)
            if name in fi.nested:
                return {('func', fi.nested[name].fq)}
            fi = fi.parent
        mv = self.ty.modvar.get((self.m.name, name))
        if mv:
            return set(mv)
        r = self.sm.resolve_name(self.m.name, name)
        if r is None:
            if name in ('True', 'False'):
                return {prim('bool')}
            return set()
        if r[0] == 'class':
            return {clsatom(r[1].name)}
        if r[0] == 'func':
            return {('func', r[1].fq)}
        if r[0] == 'assign':
            mod, _ = r[1]
            orig = self.sm.namespace(self.m.name)[name][1]
            return set(self.ty.modvar.get((mod.name, orig), ()))
        if r[0] == 'ext':
            return {('ext', '.'.join(x for x in r[1] if x))}
        return set()

    def set_var(self, name: str, atoms):
        if self.fi is None:
            self.ty._add(self.ty.modvar, (self.m.name, name), atoms)
        else:
            self.ty._add(self.ty.var, (self.fi.fq, name), atoms)

    # -- statements -----------------------------------------------------------------------------------------
    def visit_stmt(self, st):
        if isinstance(st, (ast.FunctionDef, ast.AsyncFunctionDef, ast.ClassDef)):
            return
        if isinstance(st, ast.Assign):
            v = self.eval(st.value)
            for t in st.targets:
                self.assign(t, v, st.value)
        elif isinstance(st, ast.AnnAssign):
            if st.value is not None:
                self.assign(st.target, self.eval(st.value), st.value)
        elif isinstance(st, ast.AugAssign):
            self.eval(st.value)
            self.eval(st.target)
        elif isinstance(st, (ast.For, ast.AsyncFor)):
            it = self.eval(st.iter)
            self.assign(st.target, elems(it), None)
            for s in st.body + st.orelse:
                self.visit_stmt(s)
        elif isinstance(st, ast.While):
            self.eval(st.test)
            for s in st.body + st.orelse:
                self.visit_stmt(s)
        elif isinstance(st, ast.If):
            self.eval(st.test)
            self.narrow(st.test)
            for s in st.body + st.orelse:
                self.visit_stmt(s)
        elif isinstance(st, (ast.With, ast.AsyncWith)):
            for i in st.items:
                v = self.eval(i.context_expr)
                if i.optional_vars is not None:
                    self.assign(i.optional_vars, v, None)
            for s in st.body:
                self.visit_stmt(s)
        elif isinstance(st, ast.Try):
            for s in st.body + st.orelse + st.finalbody:
                self.visit_stmt(s)
            for h in st.handlers:
                if h.name:
                    self.set_var(h.name, {('ext', 'exception')})
                for s in h.body:
                    self.visit_stmt(s)
        elif isinstance(st, ast.Return):
            if st.value is not None and self.fi is not None:
                self.ty._add(self.ty.ret, self.fi.fq, self.eval(st.value))
        elif isinstance(st, ast.Expr):
            self.eval(st.value)
        elif isinstance(st, ast.Raise):
            if st.exc is not None:
                self.eval(st.exc)
        elif isinstance(st, ast.Assert):
            self.eval(st.test)
        elif isinstance(st, ast.Delete):
            for t in st.targets:
                self.eval(t)

    def narrow(self, test):
        for n in ast.walk(test):
            if isinstance(n, ast.Call) and isinstance(n.func, ast.Name) and n.func.id == 'isinstance' and len(n.args) == 2:
                if isinstance(n.args[0], ast.Name):
                    k = self.eval(n.args[1])
                    self.set_var(n.args[0].id, {inst(a[1]) for a in k if a[0] == 'cls'})

    def assign(self, target, atoms, value_node):
        atoms = set(atoms)
        if isinstance(target, ast.Name):
            self.set_var(target.id, atoms)
        elif isinstance(target, (ast.Tuple, ast.List)):
            # unpack tuples element-wise where known
            tup = [a for a in atoms if a[0] == 'tuple' and len(a[1]) == len(target.elts)]
            for i, t in enumerate(target.elts):
                if isinstance(t, ast.Starred):
                    t = t.value
                sub = set()
                for a in tup:
                    sub |= a[1][i]
                if not tup:
                    sub = set(elems(frozenset(atoms)))
                self.assign(t, sub, None)
        elif isinstance(target, ast.Attribute):
            recv = self.eval(target.value)
            for r in recv:
                if r[0] in ('inst', 'cls'):
                    c = self.ty.cls(r[1])
                    setters = []
                    if c is not None and r[0] == 'inst':
                        for k in [c] + self.ty.overriders(r[1], target.attr):
                            st = k.lookup_setter(target.attr)
                            if st is not None and st not in setters:
                                setters.append(st)
                    if setters:
                        for st in setters:
                            ps = st.params
                            if len(ps) >= 2:
                                self.ty._add(self.ty.var, (st.fq, ps[1]), atoms)
                    else:
                        self.ty._add(self.ty.field, (r[1], target.attr), atoms)
        elif isinstance(target, ast.Subscript):
            recv = self.eval(target.value)
            self.eval(target.slice)
            # d[k] = v / d[k][j] = v : widen the container's value type where the container is a named variable
            base = target.value
            wrapped = set(clip(atoms))
            while isinstance(base, ast.Subscript):
                wrapped = {('dict', frozenset(wrapped))}
                base = base.value
            if isinstance(base, ast.Name):
                new = set()
                for r in self.get_var(base.id):
                    if r[0] == 'dict':
                        new.add(('dict', frozenset(r[1] | wrapped)))
                    elif r[0] == 'list':
                        new.add(('list', frozenset(r[1] | wrapped)))
                self.set_var(base.id, new)
        elif isinstance(target, ast.Starred):
            self.assign(target.value, {lst(atoms)}, None)

    # -- expressions ----------------------------------------------------------------------------------------
    def eval(self, e) -> Set[Atom]:
        v = self._eval(e)
        v = set(clip(v))
        old = self.ty.expr_type.get(e)
        if old is None or not v <= old:
            self.ty.expr_type[e] = frozenset(v | (old or frozenset()))
        return v

    def _eval(self, e) -> Set[Atom]:
        ty = self.ty
        if isinstance(e, ast.Constant):
            v = e.value
            if isinstance(v, str):
                return {prim('str'), ('strp', v)} if len(v) < 40 else {prim('str')}
            if isinstance(v, bool):
                return {prim('bool')}
            if isinstance(v, int):
                return {prim('int')}
            if isinstance(v, float):
                return {prim('float')}
            if v is None:
                return {prim('none')}
            return set()
        if isinstance(e, ast.Name):
            return self.get_var(e.id)
        if isinstance(e, ast.JoinedStr):
            for v in e.values:
                if isinstance(v, ast.FormattedValue):
                    self.eval(v.value)
            first = e.values[0] if e.values else None
            if isinstance(first, ast.Constant) and isinstance(first.value, str):
                return {prim('str'), ('strp', first.value)}
            return {prim('str')}
        if isinstance(e, (ast.List, ast.Set, ast.Tuple)):
            parts = [self.eval(x.value if isinstance(x, ast.Starred) else x) for x in e.elts]
            if isinstance(e, ast.Tuple):
                return {('tuple', tuple(frozenset(clip(p)) for p in parts))}
            u = set()
            for p in parts:
                u |= p
            return {lst(u)}
        if isinstance(e, ast.Dict):
            u = set()
            for k, v in zip(e.keys, e.values):
                if k is not None:
                    self.eval(k)
                u |= self.eval(v)
            return {('dict', frozenset(clip(u)))}
        if isinstance(e, (ast.ListComp, ast.SetComp, ast.GeneratorExp)):
            self.comprehension(e.generators)
            return {lst(self.eval(e.elt))}
        if isinstance(e, ast.DictComp):
            self.comprehension(e.generators)
            self.eval(e.key)
            return {('dict', frozenset(clip(self.eval(e.value))))}
        if isinstance(e, ast.IfExp):
            self.eval(e.test)
            return self.eval(e.body) | self.eval(e.orelse)
        if isinstance(e, ast.BoolOp):
            u = set()
            for v in e.values:
                u |= self.eval(v)
            return u
        if isinstance(e, ast.UnaryOp):
            v = self.eval(e.operand)
            return {prim('bool')} if isinstance(e.op, ast.Not) else v
        if isinstance(e, ast.Compare):
            self.eval(e.left)
            for c in e.comparators:
                self.eval(c)
            return {prim('bool')}
        if isinstance(e, ast.BinOp):
            l, r = self.eval(e.left), self.eval(e.right)
            if isinstance(e.op, ast.Add):
                out = set()
                for a in l:
                    if a[0] == 'strp':
                        out |= {a, prim('str')}
                    elif a[0] in ('list', 'prim'):
                        out.add(a)
                for a in r:
                    if a[0] == 'list' or (a[0] == 'prim' and a[1] != 'none'):
                        out.add(a)
                return out
            return {a for a in l | r if a[0] == 'prim'}
        if isinstance(e, ast.Starred):
            return self.eval(e.value)
        if isinstance(e, ast.Lambda):
            return {('func', f"<lambda@{e.lineno}>")}
        if isinstance(e, ast.Subscript):
            recv = self.eval(e.value)
            self.eval(e.slice)
            out = set()
            is_slice = isinstance(e.slice, ast.Slice)
            for a in recv:
                if a[0] == 'list':
                    out |= {a} if is_slice else set(a[1])
                elif a[0] == 'dict':
                    out |= a[1]
                elif a[0] == 'tuple':
                    idx = const_value(e.slice)
                    if isinstance(idx, int) and -len(a[1]) <= idx < len(a[1]):
                        out |= a[1][idx]
                    else:
                        for fs in a[1]:
                            out |= fs
                elif a[0] == 'prim' and a[1] == 'str':
                    out.add(a)
                elif a[0] == 'strp':
                    out.add(prim('str'))
                elif a[0] == 'ext':
                    out.add(a)
            return out
        if isinstance(e, ast.Attribute):
            return self.attribute(e)
        if isinstance(e, ast.Call):
            return self.call(e)
        if isinstance(e, ast.NamedExpr):
            v = self.eval(e.value)
            self.assign(e.target, v, e.value)
            return v
        if isinstance(e, ast.Slice):
            for x in (e.lower, e.upper, e.step):
                if x is not None:
                    self.eval(x)
            return set()
        for c in ast.iter_child_nodes(e):
            if isinstance(c, ast.expr):
                self.eval(c)
        return set()

    def comprehension(self, gens):
        for g in gens:
            it = self.eval(g.iter)
            self.assign(g.target, elems(frozenset(it)), None)
            for c in g.ifs:
                self.eval(c)
                self.narrow(c)

    def attribute(self, e: ast.Attribute) -> Set[Atom]:
        recv = self.eval(e.value)
        name = e.attr
        out = set()
        for r in recv:
            if r[0] in ('inst', 'cls'):
                if name == '__class__' and r[0] == 'inst':
                    out.add(clsatom(r[1]))
                    continue
                if name == '__name__' and r[0] == 'cls':
                    out |= {prim('str'), ('strp', r[1])}
                    continue
                if name == '__mro__':
                    c = self.ty.cls(r[1])
                    out.add(lst({clsatom(r[1])}))
                    continue
                for m in self.ty.member(r, name):
                    if m[0] == 'property':
                        out |= self.ret_of(m[1], m[2])
                    elif m[0] == 'method':
                        out.add(('func', m[1].fq))
                    elif m[0] == 'field':
                        out |= m[1]
                    elif m[0] == 'classattr':
                        sub = _Env(self.ty, None, m[1].module)
                        out |= sub.eval(m[2])
            elif r[0] == 'ext':
                if r[1] in ('ET.Element',) and name == 'attrib':
                    out.add(('dict', frozenset({prim('str')})))
                elif r[1] in ('ET.Element',) and name in ('tag', 'text', 'tail'):
                    out.add(prim('str'))
                else:
                    out.add(('ext', f"{r[1]}.{name}"))
            elif r[0] == 'strp' or (r[0] == 'prim' and r[1] == 'str'):
                out.add(('ext', f"str.{name}"))
            elif r[0] == 'list':
                out.add(('ext', f"list.{name}", r))
            elif r[0] == 'dict':
                out.add(('ext', f"dict.{name}", r))
        return out

    def ret_of(self, f: FuncInfo, recv: Atom) -> Set[Atom]:
        """Return type of f when called on receiver recv; Tree members are family-preserving."""
        base = set(self.ty.ret.get(f.fq, ()))
        if f.cls is not None and f.cls.name == 'Tree' and recv[0] == 'inst':
            fam = self.ty.tree_family(recv[1]) or recv[1]
            if f.name in TREE_FAMILY_ITER:
                return {lst({inst(fam)})}
            if f.name in TREE_FAMILY_ONE:
                return {inst(fam), prim('none')}
        return base

    def call(self, e: ast.Call) -> Set[Atom]:
        args = []
        for a in e.args:
            if isinstance(a, ast.Starred):
                v = self.eval(a.value)
                tups = [x for x in v if x[0] == 'tuple']
                if len(tups) == 1 and len(v) == 1:
                    args.extend(set(fs) for fs in tups[0][1])
                else:
                    args.append(set(elems(frozenset(v))))
            else:
                args.append(self.eval(a))
        kwargs = {k.arg: self.eval(k.value) for k in e.keywords}
        f = e.func
        # builtins and library functions -------------------------------------------------------------------
        if isinstance(f, ast.Name):
            n = f.id
            local = self.get_var(n)
            if not local or all(a[0] == 'ext' for a in local):
                if n == 'eval' and args:
                    return self.eval_classes(args[0])
                if n in ('list', 'sorted', 'reversed', 'iter', 'set', 'tuple', 'frozenset'):
                    return {lst(elems(frozenset(args[0])))} if args else {lst(())}
                if n == 'zip':
                    return {lst({('tuple', tuple(frozenset(clip(elems(frozenset(a)))) for a in args))})}
                if n == 'enumerate':
                    return {lst({('tuple', (frozenset({prim('int')}), frozenset(clip(elems(frozenset(args[0]))))))})} if args else set()
                if n in ('len', 'int'):
                    return {prim('int')}
                if n == 'float':
                    return {prim('float')}
                if n in ('str', 'repr'):
                    return {prim('str')}
                if n in ('isinstance', 'hasattr', 'bool', 'callable'):
                    return {prim('bool')}
                if n == 'type' and len(args) == 1:
                    return {clsatom(a[1]) for a in args[0] if a[0] == 'inst'}
                if n == 'super':
                    if self.fi is not None and self.fi.cls is not None:
                        mro = self.fi.cls.mro
                        return {('super', self.fi.cls.name)} if len(mro) > 1 else set()
                    return set()
                if n == 'getattr' and len(args) >= 2:
                    return set()
                if n == 'setattr' and len(e.args) == 3:
                    # setattr(obj, k, v): a store of an unknown attribute name
                    return set()
                if n == 'open':
                    return {('ext', 'file')}
                if n == 'max' or n == 'min':
                    return set(elems(frozenset(args[0]))) if args else set()
                if n == 'dict':
                    return {('dict', frozenset())}
                if n == 'range':
                    return {lst({prim('int')})}
        if isinstance(f, ast.Attribute):
            full = unparse(f)
            if full in ('copy.copy', 'copy.deepcopy') and args:
                return set(args[0])
            if full in ('ET.fromstring', 'ET.Element', 'ET.SubElement'):
                return {('ext', 'ET.Element')}
            if full == 'ET.parse':
                return {('ext', 'ET.ElementTree')}
            if full == 'ET.tostring':
                return {prim('str')}
        callee = self.eval(f)
        out = set()
        # the library's naming functions (their maps are verified by R-TAB.naming): known prefixes
        if isinstance(f, ast.Name) and f.id == 'convert_to_xml_class_name':
            return {prim('str'), ('strp', 'XML')}
        if isinstance(f, ast.Name) and f.id == 'convert_to_xsd_class_name':
            kind = const_value(e.args[1]) if len(e.args) > 1 else const_value(next((k.value for k in e.keywords if k.arg == 'type_'), None))
            pre = {'complex_type': 'XSDComplexType', 'group': 'XSDGroup', 'simple_type': 'XSDSimpleType', None: 'XSDSimpleType'}.get(kind)
            if pre:
                return {prim('str'), ('strp', pre)}
        for c in callee:
            if c[0] == 'cls':
                out.add(inst(c[1]))
                self.bind_call(self.find_init(c[1]), args, kwargs, e, offset=1)
            elif c[0] == 'func':
                fi = self.func_by_fq(c[1])
                if fi is not None:
                    recv = None
                    off = 0
                    if isinstance(f, ast.Attribute) and fi.cls is not None and fi.parent is None and not fi.is_staticmethod:
                        off = 1
                        rv = self.ty.type_of(f.value)
                        recv = next((r for r in rv if r[0] in ('inst', 'cls')), None)
                    if recv is not None and recv[0] == 'inst':
                        out |= self.ret_of(fi, recv)
                    else:
                        out |= set(self.ty.ret.get(fi.fq, ()))
                    self.bind_call(fi, args, kwargs, e, offset=off)
            elif c[0] == 'inst':
                # calling an instance: __call__
                for m in self.ty.member(c, '__call__'):
                    if m[0] == 'method':
                        out |= set(self.ty.ret.get(m[1].fq, ()))
                        self.bind_call(m[1], args, kwargs, e, offset=1)
            elif c[0] == 'ext':
                out |= self.ext_call(c, args, f)
            elif c[0] == 'super':
                pass
        # super().__init__ / super().method
        if isinstance(f, ast.Attribute) and isinstance(f.value, ast.Call) and isinstance(f.value.func, ast.Name) \
                and f.value.func.id == 'super' and self.fi is not None and self.fi.cls is not None:
            for k in self.fi.cls.mro[1:]:
                if f.attr in k.methods:
                    out |= set(self.ty.ret.get(k.methods[f.attr].fq, ()))
                    self.bind_call(k.methods[f.attr], args, kwargs, e, offset=1)
                    break
        # __copy__/__deepcopy__ called explicitly keep the receiver type as a floor
        if isinstance(f, ast.Attribute) and f.attr in ('__copy__', '__deepcopy__'):
            out |= {r for r in self.ty.type_of(f.value) if r[0] == 'inst'}
        return out

    def ext_call(self, c, args, f) -> Set[Atom]:
        name = c[1]
        holder = c[2] if len(c) > 2 else None
        if holder is not None:
            meth = name.split('.')[-1]
            if holder[0] == 'list':
                if meth in ('pop', '__getitem__'):
                    return set(holder[1])
                if meth in ('copy',):
                    return {holder}
                if meth in ('index', 'count'):
                    return {prim('int')}
                if meth in ('append', 'extend', 'insert', 'add') and isinstance(f, ast.Attribute):
                    # widen the element type of the list variable / field
                    new = set()
                    for a in args[-1:] if meth != 'extend' else [elems(frozenset(args[0]))] if args else []:
                        new |= set(a)
                    self.widen_container(f.value, new)
                return set()
            if holder[0] == 'dict':
                if meth in ('get', 'pop', 'setdefault'):
                    return set(holder[1]) | {prim('none')}
                if meth == 'items':
                    return {lst({('tuple', (frozenset({prim('str')}), frozenset(holder[1])))})}
                if meth == 'values':
                    return {lst(holder[1])}
                if meth == 'keys':
                    return {lst({prim('str')})}
                if meth == 'copy':
                    return {holder}
                return set()
        if name.startswith('str.'):
            meth = name[4:]
            if meth in ('split', 'splitlines'):
                return {lst({prim('str')})}
            if meth in ('startswith', 'endswith', 'isdigit'):
                return {prim('bool')}
            return {prim('str')}
        if name.startswith('ET.Element.'):
            meth = name.split('.')[-1]
            if meth in ('find',):
                return {('ext', 'ET.Element'), prim('none')}
            if meth in ('findall', 'iter'):
                return {lst({('ext', 'ET.Element')})}
            if meth == 'get':
                return {prim('str'), prim('none')}
        if name.startswith('ET.ElementTree.'):
            if name.endswith('getroot'):
                return {('ext', 'ET.Element')}
        if name.startswith('re.'):
            return {('ext', 're.obj')}
        return set()

    def widen_container(self, holder_expr, new_atoms):
        if not new_atoms:
            return
        new_atoms = clip(new_atoms)
        if isinstance(holder_expr, ast.Name):
            cur = self.get_var(holder_expr.id)
            upd = {('list', frozenset(a[1] | new_atoms)) for a in cur if a[0] == 'list'}
            self.set_var(holder_expr.id, upd)
        elif isinstance(holder_expr, ast.Attribute):
            recv = self.ty.type_of(holder_expr.value)
            for r in recv:
                if r[0] in ('inst', 'cls'):
                    cur = self.ty.related_field(r[1], holder_expr.attr)
                    upd = {('list', frozenset(a[1] | new_atoms)) for a in cur if a[0] == 'list'}
                    if upd:
                        self.ty._add(self.ty.field, (r[1], holder_expr.attr), upd)
                    else:
                        # property returning a field, e.g. x.xml_elements.append(..)
                        for m in self.ty.member(r, holder_expr.attr):
                            if m[0] == 'property':
                                self.ty._add(self.ty.ret, m[1].fq, {('list', frozenset(new_atoms))})

    def find_init(self, cname) -> Optional[FuncInfo]:
        c = self.ty.cls(cname)
        return c.lookup('__init__') if c else None

    def func_by_fq(self, fq) -> Optional[FuncInfo]:
        idx = self.ty.__dict__.setdefault('_fq_index', None)
        if idx is None:
            idx = {f.fq: f for f in self.sm.functions}
            self.ty._fq_index = idx
        return idx.get(fq)

    def bind_call(self, fi: Optional[FuncInfo], args, kwargs, call, offset=0):
        """Propagate argument types into the callee's parameters."""
        if fi is None:
            return
        a = fi.node.args
        params = [x.arg for x in a.posonlyargs + a.args]
        for i, atoms in enumerate(args):
            j = i + offset
            if j < len(params):
                self.ty._add(self.ty.var, (fi.fq, params[j]), atoms)
        names = set(params) | {x.arg for x in a.kwonlyargs}
        for k, atoms in kwargs.items():
            if k in names:
                self.ty._add(self.ty.var, (fi.fq, k), atoms)

    def eval_classes(self, arg_atoms) -> Set[Atom]:
        """eval(<string>): classes of the evaluating module's namespace whose names start with the known prefix."""
        out = set()
        ns = self.sm.namespace(self.m.name)
        for a in arg_atoms:
            if a[0] != 'strp':
                continue
            p = a[1]
            hits = set()
            for name, (mod, orig) in ns.items():
                if name.startswith(p) and mod in self.sm.modules and orig in self.sm.modules[mod].classes:
                    hits.add(orig)
            # collapse each hit to its highest ancestor whose name still starts with the prefix; exception
            # classes (external base Exception) are never the result of the library's eval sites
            roots = set()
            for h in hits:
                c = self.ty.cls(h)
                if c is None or any('Exception' in u or 'Error' in u for k in c.mro for u in k.unknown_bases):
                    continue
                top = h
                for b in c.mro[1:]:
                    if b.name.startswith(p) or (len(p) <= 3 and b.name[:3] == p[:3] and b.name != 'XSDTreeElement'):
                        top = b.name
                roots.add(top)
            out |= {clsatom(r) for r in roots}
        return out
