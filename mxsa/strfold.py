"""Constant folding of the library's pure naming functions (util/core.py: cap_first, convert_to_xml_class_name,
convert_to_xsd_class_name) over the finite set of names the schema contains.

The functions are string -> string maps without side effects; folding them over constants is what a compiler does with a
constexpr.  The folder interprets a small, explicitly enumerated subset of Python on *its own* values (str, int, bool, None,
list, tuple): assignments to local names, if / elif / else, return, raise, try / except <names>, for over a list, string
methods (split, join, replace, strip, upper, lower, capitalize, startswith, endswith, isupper), indexing and slicing,
concatenation, f-strings, comparisons, boolean operators, list / generator comprehensions, conditional expressions, len / str,
and calls of other functions of the same module that are folded the same way.  Anything else raises NotFoldable, which the
caller reports as ANALYSIS-ERROR - never as a verdict.  Nothing of the library is imported or executed by Python."""
import ast
from typing import Dict

from .astutil import unparse


class NotFoldable(Exception):
    pass


class _Raise(Exception):
    def __init__(self, name):
        self.name = name


class _Return(Exception):
    def __init__(self, value):
        self.value = value


STR_METHODS = {'split', 'join', 'replace', 'strip', 'lstrip', 'rstrip', 'upper', 'lower', 'capitalize', 'title', 'startswith', 'endswith', 'isupper', 'islower',
               'isdigit', 'isalpha', 'find', 'index', 'count', 'partition', 'rpartition', 'removeprefix', 'removesuffix'}
BUILTIN_EXC = {'IndexError': IndexError, 'KeyError': KeyError, 'ValueError': ValueError, 'TypeError': TypeError, 'AttributeError': AttributeError}


class Folder:
    def __init__(self, functions: Dict[str, ast.FunctionDef], budget=200000, module_tree=None):
        self.functions = functions
        self.budget = budget
        # module-level names bound exactly once to a literal built from constants (tuples / lists of constants and of such tuples): named constants
        self.constants = {}
        if module_tree is not None:
            seen = {}
            for st in module_tree.body:
                if isinstance(st, ast.Assign) and len(st.targets) == 1 and isinstance(st.targets[0], ast.Name):
                    seen.setdefault(st.targets[0].id, []).append(st.value)
            for k, vs in seen.items():
                if len(vs) == 1:
                    try:
                        self.constants[k] = ast.literal_eval(vs[0])
                    except (ValueError, SyntaxError, TypeError):
                        pass

    def call(self, name: str, *args, **kwargs):
        fn = self.functions.get(name)
        if fn is None:
            raise NotFoldable(f"function {name} is not a function of the module")
        a = fn.args
        if a.vararg or a.kwarg or a.kwonlyargs:
            raise NotFoldable(f"{name}: signature not supported")
        params = [x.arg for x in a.posonlyargs + a.args]
        env = {}
        defaults = dict(zip(params[len(params) - len(a.defaults):], a.defaults))
        for i, p in enumerate(params):
            if i < len(args):
                env[p] = args[i]
            elif p in kwargs:
                env[p] = kwargs[p]
            elif p in defaults:
                env[p] = self.expr(defaults[p], {})
            else:
                raise NotFoldable(f"{name}: no argument for {p}")
        try:
            self.block(fn.body, env)
        except _Return as r:
            return r.value
        return None

    # ------------------------------------------------------------------ statements
    def block(self, stmts, env):
        for s in stmts:
            self.budget -= 1
            if self.budget < 0:
                raise NotFoldable('evaluation budget exhausted')
            if isinstance(s, ast.Expr) and isinstance(s.value, ast.Constant):
                continue
            if isinstance(s, ast.Pass):
                continue
            if isinstance(s, ast.Return):
                raise _Return(self.expr(s.value, env) if s.value is not None else None)
            if isinstance(s, ast.Raise):
                e = s.exc.func if isinstance(s.exc, ast.Call) else s.exc
                raise _Raise(unparse(e) if e is not None else 'Exception')
            if isinstance(s, ast.Assign) and len(s.targets) == 1 and isinstance(s.targets[0], ast.Name):
                env[s.targets[0].id] = self.expr(s.value, env)
                continue
            if isinstance(s, ast.AugAssign) and isinstance(s.target, ast.Name) and isinstance(s.op, ast.Add):
                env[s.target.id] = self._add(env[s.target.id], self.expr(s.value, env))
                continue
            if isinstance(s, ast.If):
                self.block(s.body if self._truth(self.expr(s.test, env)) else s.orelse, env)
                continue
            if isinstance(s, ast.For) and isinstance(s.target, ast.Name) and not s.orelse:
                for v in self._iter(self.expr(s.iter, env)):
                    env[s.target.id] = v
                    self.block(s.body, env)
                continue
            if isinstance(s, ast.For) and isinstance(s.target, ast.Tuple) and all(isinstance(t, ast.Name) for t in s.target.elts) and not s.orelse:
                for v in self._iter(self.expr(s.iter, env)):
                    if not isinstance(v, (tuple, list)) or len(v) != len(s.target.elts):
                        raise NotFoldable('unpacking in a for target')
                    for t, x in zip(s.target.elts, v):
                        env[t.id] = x
                    self.block(s.body, env)
                continue
            if isinstance(s, ast.Try) and not s.finalbody and not s.orelse:
                try:
                    self.block(s.body, env)
                except (_Raise, IndexError, KeyError, ValueError, TypeError, AttributeError) as ex:
                    name = ex.name if isinstance(ex, _Raise) else type(ex).__name__
                    for h in s.handlers:
                        names = ['*'] if h.type is None else [unparse(x) for x in (h.type.elts if isinstance(h.type, ast.Tuple) else [h.type])]
                        if '*' in names or name in names or 'Exception' in names:
                            self.block(h.body, env)
                            break
                    else:
                        raise
                continue
            raise NotFoldable(f"statement `{unparse(s)[:60]}`")

    # ------------------------------------------------------------------ expressions
    @staticmethod
    def _truth(v) -> bool:
        if isinstance(v, (str, int, bool, list, tuple, type(None))):
            return bool(v)
        raise NotFoldable('truth value of a non-constant')

    @staticmethod
    def _iter(v):
        if isinstance(v, (list, tuple, str)):
            return list(v)
        raise NotFoldable('iteration over a non-sequence')

    @staticmethod
    def _add(a, b):
        if isinstance(a, str) and isinstance(b, str) or isinstance(a, list) and isinstance(b, list) or \
                isinstance(a, int) and isinstance(b, int) and not isinstance(a, bool) and not isinstance(b, bool):
            return a + b
        raise TypeError('unsupported operand types')

    def expr(self, e, env):
        self.budget -= 1
        if self.budget < 0:
            raise NotFoldable('evaluation budget exhausted')
        if isinstance(e, ast.Constant):
            return e.value
        if isinstance(e, ast.Name):
            if e.id in env:
                return env[e.id]
            if e.id in self.constants and isinstance(self.constants[e.id], (str, int, bool, tuple, list, type(None))):
                return self.constants[e.id]
            raise NotFoldable(f"free name {e.id}")
        if isinstance(e, ast.JoinedStr):
            out = ''
            for v in e.values:
                if isinstance(v, ast.Constant):
                    out += str(v.value)
                elif isinstance(v, ast.FormattedValue) and v.format_spec is None and v.conversion in (-1, 115):
                    x = self.expr(v.value, env)
                    if not isinstance(x, (str, int)):
                        raise NotFoldable('f-string of a non-scalar')
                    out += str(x)
                else:
                    raise NotFoldable('f-string with format specification')
            return out
        if isinstance(e, ast.BinOp) and isinstance(e.op, ast.Add):
            return self._add(self.expr(e.left, env), self.expr(e.right, env))
        if isinstance(e, ast.BinOp) and isinstance(e.op, ast.Mult):
            a, b = self.expr(e.left, env), self.expr(e.right, env)
            if isinstance(a, str) and isinstance(b, int) or isinstance(a, int) and isinstance(b, str):
                return a * b
            raise NotFoldable('multiplication')
        if isinstance(e, ast.UnaryOp) and isinstance(e.op, ast.Not):
            return not self._truth(self.expr(e.operand, env))
        if isinstance(e, ast.UnaryOp) and isinstance(e.op, ast.USub):
            v = self.expr(e.operand, env)
            if isinstance(v, int):
                return -v
            raise NotFoldable('negation')
        if isinstance(e, ast.BoolOp):
            v = None
            for x in e.values:
                v = self.expr(x, env)
                if isinstance(e.op, ast.And) and not self._truth(v):
                    return v
                if isinstance(e.op, ast.Or) and self._truth(v):
                    return v
            return v
        if isinstance(e, ast.IfExp):
            return self.expr(e.body if self._truth(self.expr(e.test, env)) else e.orelse, env)
        if isinstance(e, ast.Compare):
            left = self.expr(e.left, env)
            for op, c in zip(e.ops, e.comparators):
                right = self.expr(c, env)
                if isinstance(op, ast.Eq):
                    ok = left == right
                elif isinstance(op, ast.NotEq):
                    ok = left != right
                elif isinstance(op, ast.In):
                    ok = left in right
                elif isinstance(op, ast.NotIn):
                    ok = left not in right
                elif isinstance(op, ast.Is):
                    ok = left is right
                elif isinstance(op, ast.IsNot):
                    ok = left is not right
                elif isinstance(op, (ast.Lt, ast.LtE, ast.Gt, ast.GtE)) and isinstance(left, int) and isinstance(right, int):
                    ok = {ast.Lt: left < right, ast.LtE: left <= right, ast.Gt: left > right, ast.GtE: left >= right}[type(op)]
                else:
                    raise NotFoldable(f"comparison {unparse(e)}")
                if not ok:
                    return False
                left = right
            return True
        if isinstance(e, (ast.List, ast.Tuple)):
            vals = [self.expr(x, env) for x in e.elts]
            return vals if isinstance(e, ast.List) else tuple(vals)
        if isinstance(e, (ast.ListComp, ast.GeneratorExp)) and len(e.generators) == 1 and isinstance(e.generators[0].target, ast.Name):
            gen = e.generators[0]
            out = []
            for v in self._iter(self.expr(gen.iter, env)):
                env2 = dict(env)
                env2[gen.target.id] = v
                if all(self._truth(self.expr(c, env2)) for c in gen.ifs):
                    out.append(self.expr(e.elt, env2))
            return out
        if isinstance(e, ast.Subscript):
            v = self.expr(e.value, env)
            if not isinstance(v, (str, list, tuple)):
                raise NotFoldable('subscript of a non-sequence')
            if isinstance(e.slice, ast.Slice):
                lo = self.expr(e.slice.lower, env) if e.slice.lower is not None else None
                hi = self.expr(e.slice.upper, env) if e.slice.upper is not None else None
                st = self.expr(e.slice.step, env) if e.slice.step is not None else None
                return v[lo:hi:st]
            i = self.expr(e.slice, env)
            if not isinstance(i, int):
                raise NotFoldable('non-integer index')
            return v[i]          # IndexError propagates like in Python (a handler may catch it)
        if isinstance(e, ast.Call):
            if isinstance(e.func, ast.Attribute) and e.func.attr in STR_METHODS and not e.keywords:
                recv = self.expr(e.func.value, env)
                args = [self.expr(a, env) for a in e.args]
                if isinstance(recv, str) and all(isinstance(a, (str, int, list, tuple)) for a in args):
                    if e.func.attr == 'join':
                        if not all(isinstance(x, str) for x in args[0]):
                            raise TypeError('join of non-strings')
                    return getattr(recv, e.func.attr)(*args)
                raise NotFoldable(f"method {e.func.attr} on a non-string")
            if isinstance(e.func, ast.Name) and not e.keywords or isinstance(e.func, ast.Name) and e.func.id in self.functions:
                name = e.func.id
                if name == 'map' and len(e.args) == 2 and isinstance(e.args[0], ast.Name) and e.args[0].id in self.functions and 'map' not in self.functions:
                    return [self.call(e.args[0].id, x) for x in self._iter(self.expr(e.args[1], env))]
                args = [self.expr(a, env) for a in e.args]
                kwargs = {k.arg: self.expr(k.value, env) for k in e.keywords}
                if name in self.functions:
                    return self.call(name, *args, **kwargs)
                if name == 'len' and len(args) == 1 and isinstance(args[0], (str, list, tuple)):
                    return len(args[0])
                if name == 'str' and len(args) == 1 and isinstance(args[0], (str, int)):
                    return str(args[0])
                if name in ('list', 'tuple') and len(args) == 1:
                    return list(self._iter(args[0])) if name == 'list' else tuple(self._iter(args[0]))
                if name == 'reversed' and len(args) == 1:
                    return list(reversed(self._iter(args[0])))
                if name == 'isinstance' and len(e.args) == 2 and isinstance(e.args[1], ast.Name) and e.args[1].id in ('str', 'int', 'list', 'tuple', 'bool'):
                    return isinstance(args[0], {'str': str, 'int': int, 'list': list, 'tuple': tuple, 'bool': bool}[e.args[1].id])
            raise NotFoldable(f"call {unparse(e)[:50]}")
        raise NotFoldable(f"expression {unparse(e)[:50]}")
