"""Lazily built whole-program structures shared by the rules of one run."""
from .callgraph import CallGraph
from .effects import Effects


def get_cg(ctx) -> CallGraph:
    return ctx.lazy('cg', lambda: CallGraph(ctx.sm))


def get_effects(ctx) -> Effects:
    return ctx.lazy('effects', lambda: Effects(get_cg(ctx)))
