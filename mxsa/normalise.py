"""Whole-program normalisation that runs before every analysis: helper functions that are *not anchors* are inlined into
their callers, so that the rules see what the program does and not where the statements happen to be written.

Which functions may be anchors?  Only those the rules were written against: the functions of the reference tree, listed in
reference/functions.json (tools/make_inventory.py).  A function that is not in that inventory was introduced by a later
edit (an extracted method, a new private helper); no rule can mention it, and leaving it as a call would make the
statement-shape rules blind to its body or, worse, alarm on a behaviour-preserving extraction.  The inventory never makes
a rule fire: it only decides what is expanded.

A call is expanded when it resolves by name to exactly one new function (no inventoried function or second new function
shares the name - otherwise dispatch would be ambiguous), the callee is a plain function/method (no decorator, generator,
nested scope, *args) and its `return`s are in tail position (or the call is itself returned).  Everything else is left as
a call and handled by the interprocedural analyses as before.  What was expanded, and what was not and why, is recorded
in the evidence (coverage.normalisation)."""
import ast
import builtins
import copy
import json
import os
from typing import Dict, List, Optional, Set, Tuple

SCOPES = (ast.FunctionDef, ast.AsyncFunctionDef, ast.Lambda, ast.ClassDef)


def unparse_(e) -> str:
    try:
        return ast.unparse(e)
    except Exception:
        return ''
INVENTORY_PATH = os.path.join(os.path.dirname(os.path.dirname(os.path.abspath(__file__))), 'reference', 'functions.json')
MAX_ROUNDS = 4


class NotInlinable(Exception):
    pass


def load_inventory() -> Optional[dict]:
    try:
        with open(INVENTORY_PATH) as f:
            return json.load(f)
    except OSError:
        return None


def function_profile(node) -> dict:
    """what identifies a function besides its name: parameter names and the multiset of names it calls / reads as attributes"""
    calls = []
    for n in ast.walk(node):
        if isinstance(n, ast.Call):
            if isinstance(n.func, ast.Attribute):
                calls.append(n.func.attr)
            elif isinstance(n.func, ast.Name):
                calls.append(n.func.id)
        elif isinstance(n, ast.Attribute):
            calls.append('.' + n.attr)
    a = node.args
    return {'params': [x.arg for x in a.posonlyargs + a.args + a.kwonlyargs], 'uses': sorted(calls)}


def _hand_written_functions(sm):
    for m in sm.modules.values():
        if not (m.name.startswith('musicxml') or m.name == 'verysimpletree.tree'):
            continue
        for q, node, cls, parent in module_function_quals(m.tree):
            yield m, q, node, cls, parent


def field_profiles(sm) -> Dict[str, List[str]]:
    """stored attribute name -> sorted list of the functions (file::qualname) that mention it, plus 'class:<file>' markers for
    class-level bindings in hand-written base classes"""
    stored = set()
    loaded = set()
    for m, q, node, cls, parent in _hand_written_functions(sm):
        for n in ast.walk(node):
            if isinstance(n, ast.Attribute) and isinstance(n.ctx, ast.Store):
                stored.add(n.attr)
            elif isinstance(n, ast.Attribute):
                loaded.add(n.attr)
    # class-level tables (e.g. _UNION, _SIMPLE_CONTENT) are bound in class bodies and only read through attributes
    for m in sm.modules.values():
        if not m.name.startswith('musicxml'):
            continue
        for st in m.tree.body:
            if isinstance(st, ast.ClassDef):
                for b in st.body:
                    tg = b.targets if isinstance(b, ast.Assign) else [b.target] if isinstance(b, ast.AnnAssign) else []
                    for t in tg:
                        if isinstance(t, ast.Name) and t.id in loaded:
                            stored.add(t.id)
    out: Dict[str, set] = {}
    for m, q, node, cls, parent in _hand_written_functions(sm):
        if parent is not None:
            continue
        for n in ast.walk(node):
            if isinstance(n, ast.Attribute) and n.attr in stored:
                out.setdefault(n.attr, set()).add(f"{m.relpath}::{q}")
    for m in sm.modules.values():
        if not m.name.startswith('musicxml'):
            continue
        for st in m.tree.body:
            if isinstance(st, ast.ClassDef):
                for b in st.body:
                    tg = b.targets if isinstance(b, ast.Assign) else [b.target] if isinstance(b, ast.AnnAssign) else []
                    for t in tg:
                        if isinstance(t, ast.Name) and t.id in stored:
                            out.setdefault(t.id, set()).add(f"class:{m.relpath}")
    return {k: sorted(v) for k, v in sorted(out.items())}


class Renamer:
    """Give renamed functions and fields their reference names back (program-wide alpha-renaming).  A function of the reference
    inventory that no longer exists is matched with a function of the same scope that is not in the inventory, has the same
    parameters and a similar profile of used names; a stored attribute name of the reference that no longer occurs anywhere is
    matched with a new stored name mentioned by (nearly) the same functions.  Ambiguous or dissimilar candidates are left alone:
    the rule that needs the anchor then stops with ANALYSIS-ERROR, it does not guess."""

    def __init__(self, sm, inv):
        self.sm, self.inv = sm, inv
        self.function_renames: Dict[str, str] = {}
        self.field_renames: Dict[str, str] = {}

    @staticmethod
    def _sim(a: List[str], b: List[str]) -> float:
        from collections import Counter
        ca, cb = Counter(a), Counter(b)
        inter = sum((ca & cb).values())
        union = sum((ca | cb).values())
        return inter / union if union else 1.0

    def detect_functions(self):
        ref = self.inv.get('functions', {})
        all_present_names = set()
        for m, q, node, cls, parent in _hand_written_functions(self.sm):
            all_present_names.add(node.name)
        for m in self.sm.modules.values():
            known = ref.get(m.relpath, {})
            if not known:
                continue
            present = {q: (node, cls, parent) for q, node, cls, parent in module_function_quals(m.tree)}
            missing = [q for q in known if q not in present and '<locals>' not in q]
            new = [q for q in present if q not in known and '<locals>' not in q]
            if not missing or not new:
                continue
            moving = {x.split('.')[-1].replace('[setter]', '') for x in missing + new}

            def blur(uses):
                # names of functions that are themselves being renamed compare equal
                return sorted('<renamed>' if u.lstrip('.') in moving else u for u in uses)
            scored = []
            for q in missing:
                scope = q.rsplit('.', 1)[0] if '.' in q else ''
                for c in new:
                    cscope = c.rsplit('.', 1)[0] if '.' in c else ''
                    if cscope != scope or c.endswith('[setter]') != q.endswith('[setter]'):
                        continue
                    prof = function_profile(present[c][0])
                    if len(prof['params']) != len(known[q]['params']):
                        continue
                    sim = self._sim(blur(known[q]['uses']), blur(prof['uses']))
                    if prof['params'] == known[q]['params']:
                        sim += 0.05
                    scored.append((sim, q, c))
            scored.sort(reverse=True)
            used_q, used_c = set(), set()
            for sim, q, c in scored:
                if q in used_q or c in used_c or sim < 0.6:
                    continue
                # a clear winner: no other candidate for q or c within 0.1
                rivals = [s2 for s2, q2, c2 in scored if (q2 == q) != (c2 == c) and q2 not in used_q and c2 not in used_c and abs(s2 - sim) < 0.1]
                if rivals:
                    continue
                used_q.add(q)
                used_c.add(c)
                old_name = q.split('.')[-1].replace('[setter]', '')
                new_name = c.split('.')[-1].replace('[setter]', '')
                if self.function_renames.get(new_name, old_name) == old_name:
                    self.function_renames[new_name] = old_name

    def detect_fields(self):
        ref = self.inv.get('fields', {})
        if not ref:
            return
        cur = field_profiles(self.sm)
        gone = [f for f in ref if f not in cur and not self._mentioned(f)]
        new = [f for f in cur if f not in ref]
        fmap = {v: k for k, v in self.function_renames.items()}       # reference name -> current name
        for f in gone:
            want = set(ref[f])
            cands = []
            for g in new:
                have = set()
                for x in cur[g]:
                    # map current function names back to reference names
                    head, _, q = x.partition('::')
                    if q:
                        parts = q.split('.')
                        parts[-1] = self.function_renames.get(parts[-1].replace('[setter]', ''), parts[-1].replace('[setter]', '')) + ('[setter]' if parts[-1].endswith('[setter]') else '')
                        x = f"{head}::{'.'.join(parts)}"
                    have.add(x)
                inter, union = len(want & have), len(want | have)
                cands.append((inter / union if union else 0.0, g))
            cands.sort(reverse=True)
            if cands and cands[0][0] >= 0.75 and (len(cands) == 1 or cands[0][0] - cands[1][0] >= 0.2):
                self.field_renames[cands[0][1]] = f

    def _mentioned(self, name) -> bool:
        for m in self.sm.modules.values():
            if not (m.name.startswith('musicxml') or m.name == 'verysimpletree.tree'):
                continue
            for n in ast.walk(m.tree):
                if isinstance(n, ast.Attribute) and n.attr == name:
                    return True
        return False

    def apply(self) -> Set[str]:
        changed = set()
        if not self.function_renames and not self.field_renames:
            return changed
        fr, fl = self.function_renames, self.field_renames
        for m in self.sm.modules.values():
            if not (m.name.startswith('musicxml') or m.name == 'verysimpletree.tree'):
                continue
            hit = False
            for n in ast.walk(m.tree):
                if isinstance(n, (ast.FunctionDef, ast.AsyncFunctionDef)) and n.name in fr:
                    n.name = fr[n.name]
                    hit = True
                elif isinstance(n, ast.Attribute):
                    if n.attr in fr:
                        n.attr = fr[n.attr]
                        hit = True
                    elif n.attr in fl:
                        n.attr = fl[n.attr]
                        hit = True
                elif isinstance(n, ast.Name):
                    if n.id in fr:
                        n.id = fr[n.id]
                        hit = True
                    elif n.id in fl and not isinstance(n.ctx, ast.Load) and False:
                        pass
                elif isinstance(n, ast.Constant) and isinstance(n.value, str):
                    if n.value in fr:
                        n.value = fr[n.value]
                        hit = True
                    elif n.value in fl:
                        n.value = fl[n.value]
                        hit = True
                elif isinstance(n, ast.keyword) and n.arg in fl:
                    pass
            # class-level bindings of renamed fields
            for st in m.tree.body:
                if isinstance(st, ast.ClassDef):
                    for b in st.body:
                        tg = b.targets if isinstance(b, ast.Assign) else [b.target] if isinstance(b, ast.AnnAssign) else []
                        for t in tg:
                            if isinstance(t, ast.Name) and t.id in fl:
                                t.id = fl[t.id]
                                hit = True
                    for n in ast.walk(st):
                        if isinstance(n, ast.Name) and n.id in fl and isinstance(n.ctx, ast.Load):
                            # a class body reading its own binding
                            pass
            if hit:
                changed.add(m.name)
        return changed


def walk_local(node, include_root=True):
    stack = [node]
    first = True
    while stack:
        n = stack.pop()
        if not first and isinstance(n, SCOPES):
            continue
        if include_root or not first:
            yield n
        first = False
        stack.extend(reversed(list(ast.iter_child_nodes(n))))


def module_function_quals(tree) -> List[Tuple[str, ast.FunctionDef, Optional[ast.ClassDef], Optional[ast.FunctionDef]]]:
    """(qualname, def node, class node, parent function node) for every function of a module, nested ones included."""
    out = []

    def nested(fn, qual, cls):
        stack = list(fn.body)
        while stack:
            n = stack.pop()
            if isinstance(n, (ast.FunctionDef, ast.AsyncFunctionDef)):
                q = f"{qual}.<locals>.{n.name}"
                out.append((q, n, cls, fn))
                nested(n, q, cls)
                continue
            if isinstance(n, (ast.ClassDef, ast.Lambda)):
                continue
            stack.extend(ast.iter_child_nodes(n))

    for st in tree.body:
        if isinstance(st, (ast.FunctionDef, ast.AsyncFunctionDef)):
            out.append((st.name, st, None, None))
            nested(st, st.name, None)
        elif isinstance(st, ast.ClassDef):
            for m in st.body:
                if isinstance(m, (ast.FunctionDef, ast.AsyncFunctionDef)):
                    setter = any(isinstance(d, ast.Attribute) and d.attr == 'setter' for d in m.decorator_list)
                    q = f"{st.name}.{m.name}" + ('[setter]' if setter else '')
                    out.append((q, m, st, None))
                    nested(m, q, st)
    return out


# ---------------------------------------------------------------------------------------------------------------------
def _stored(fn) -> Set[str]:
    out = set()
    for n in walk_local(fn, include_root=False):
        if isinstance(n, ast.Name) and isinstance(n.ctx, (ast.Store, ast.Del)):
            out.add(n.id)
        elif isinstance(n, ast.ExceptHandler) and n.name:
            out.add(n.name)
        elif isinstance(n, (ast.FunctionDef, ast.ClassDef)):
            out.add(n.name)
    for n in ast.walk(fn):
        if isinstance(n, (ast.FunctionDef, ast.ClassDef)) and n is not fn:
            pass
    return out


def _params(fn) -> List[str]:
    a = fn.args
    return [x.arg for x in a.posonlyargs + a.args + a.kwonlyargs]


def _comp_only(fn) -> Set[str]:
    comp = set()
    for n in walk_local(fn, include_root=False):
        if isinstance(n, ast.comprehension):
            for m in ast.walk(n.target):
                if isinstance(m, ast.Name):
                    comp.add(m.id)
    return comp


def _contains_return(node) -> bool:
    return any(isinstance(n, ast.Return) for n in walk_local(node))


def _terminates(stmts) -> bool:
    if not stmts:
        return False
    last = stmts[-1]
    if isinstance(last, (ast.Return, ast.Raise)):
        return True
    if isinstance(last, ast.If):
        return _terminates(last.body) and _terminates(last.orelse)
    if isinstance(last, ast.Try) and not last.finalbody and not last.orelse:
        return _terminates(last.body) and all(_terminates(h.body) for h in last.handlers)
    return False


def _tail(stmts, assign) -> List[ast.stmt]:
    """Rewrite a statement list whose returns are in tail position: `return X` -> assign(X); statements after a branch that
    returns move into the other branch."""
    out = []
    for i, st in enumerate(stmts):
        rest = stmts[i + 1:]
        if isinstance(st, ast.Return):
            out += assign(st.value)
            return out
        if isinstance(st, ast.If) and _contains_return(st):
            body_t, else_t = _terminates(st.body), _terminates(st.orelse)
            if body_t and else_t:
                new = ast.If(test=st.test, body=_tail(st.body, assign), orelse=_tail(st.orelse, assign))
            elif body_t:
                new = ast.If(test=st.test, body=_tail(st.body, assign), orelse=_tail(list(st.orelse) + rest, assign))
            elif else_t:
                new = ast.If(test=st.test, body=_tail(list(st.body) + rest, assign), orelse=_tail(st.orelse, assign))
            else:
                if rest and (len(rest) > 3 or any(_contains_return(r) for r in rest)):
                    raise NotInlinable('a return nested below a branch that may also fall through')
                new = ast.If(test=st.test, body=_tail(list(st.body) + [copy.deepcopy(r) for r in rest], assign),
                             orelse=_tail(list(st.orelse) + [copy.deepcopy(r) for r in rest], assign))
            if not new.body:
                new.body = [ast.Pass()]
            ast.copy_location(new, st)
            out.append(new)
            return out
        if isinstance(st, ast.Try) and not rest and not st.finalbody and not st.orelse and _contains_return(st):
            # a try statement in tail position: `return X` inside the body / a handler becomes the assignment in the same place
            new_try = ast.Try(body=_tail(st.body, assign) or [ast.Pass()], handlers=[], orelse=[], finalbody=[])
            for h in st.handlers:
                nh = ast.ExceptHandler(type=h.type, name=h.name, body=_tail(h.body, assign) or [ast.Pass()])
                new_try.handlers.append(ast.copy_location(nh, h))
            out.append(ast.copy_location(new_try, st))
            return out
        if isinstance(st, ast.For) and not st.orelse and _contains_return(st) and _loop_returns_are_plain(st):
            # a search loop: `for x in xs: if c: return E` ... `return D`  ->  `for x in xs: if c: t = E; break` / `else: t = D`
            probe = assign(ast.Name(id='_', ctx=ast.Load()))
            if probe and isinstance(probe[-1], ast.Return):
                # the call is itself in return position: the returns stay returns, what follows the loop follows it here too
                new = copy.deepcopy(st)
                new.body = _replace_loop_returns(new.body, assign, add_break=False)
                out.append(new)
                out += _tail(rest, assign)
                return out
            new = copy.deepcopy(st)
            new.body = _replace_loop_returns(new.body, assign, add_break=True)
            new.orelse = _tail(rest, assign) if rest else assign(None)
            if not new.orelse:
                new.orelse = [ast.Pass()]
            out.append(new)
            return out
        if not isinstance(st, ast.Return) and _contains_return(st):
            raise NotInlinable('a return inside a loop / try / with')
        out.append(st)
    return out


def _loop_returns_are_plain(loop: ast.For) -> bool:
    """every return of the loop sits in its body under ifs only (not in a nested loop, try or with), and the loop has no break / continue of its own"""
    def ok(stmts) -> bool:
        for s in stmts:
            if isinstance(s, (ast.Break, ast.Continue)):
                return False
            if isinstance(s, ast.If):
                if not ok(s.body) or not ok(s.orelse):
                    return False
            elif isinstance(s, (ast.For, ast.While, ast.Try, ast.With)):
                if _contains_return(s) or any(isinstance(n, (ast.Break, ast.Continue)) for n in ast.walk(s)) and not isinstance(s, (ast.For, ast.While)):
                    return False
            elif _contains_return(s) and not isinstance(s, ast.Return):
                return False
        return True
    return ok(loop.body)


def _replace_loop_returns(stmts, assign, add_break: bool):
    out = []
    for s in stmts:
        if isinstance(s, ast.Return):
            out += [ast.copy_location(x, s) for x in assign(s.value)]
            if add_break:
                out.append(ast.copy_location(ast.Break(), s))
            return out
        if isinstance(s, ast.If):
            new = ast.If(test=s.test, body=_replace_loop_returns(s.body, assign, add_break) or [ast.Pass()], orelse=_replace_loop_returns(s.orelse, assign, add_break))
            out.append(ast.copy_location(new, s))
        else:
            out.append(s)
    return out


class _Subst(ast.NodeTransformer):
    def __init__(self, mapping: Dict[str, ast.AST], rename: Dict[str, str]):
        self.mapping = mapping
        self.rename = rename

    def visit_Name(self, node):
        if node.id in self.mapping and isinstance(node.ctx, ast.Load):
            return ast.copy_location(copy.deepcopy(self.mapping[node.id]), node)
        if node.id in self.rename:
            return ast.copy_location(ast.Name(id=self.rename[node.id], ctx=node.ctx), node)
        return node

    def visit_ExceptHandler(self, node):
        self.generic_visit(node)
        if node.name in self.rename:
            node.name = self.rename[node.name]
        return node


def _pure_chain(e, depth=0) -> bool:
    if isinstance(e, (ast.Name, ast.Constant)):
        return True
    if isinstance(e, ast.Attribute) and depth < 3:
        return _pure_chain(e.value, depth + 1)
    return False


class Inliner:
    def __init__(self, sm, inventory):
        self.sm = sm
        self.inv = inventory
        self.counter = 0
        self.log: List[dict] = []
        self.not_inlined: List[dict] = []
        self.new_defs: Dict[str, List[Tuple]] = {}        # simple name -> [(module, qual, node, cls, parent)]
        self.known_names: Set[str] = set()
        self.mod_funcs = {}
        for m in sm.modules.values():
            fl = module_function_quals(m.tree)
            self.mod_funcs[m.name] = fl
            known = set(self.inv.get('functions', {}).get(m.relpath, {}))
            for q, node, cls, parent in fl:
                if q in known:
                    self.known_names.add(node.name)
                else:
                    self.new_defs.setdefault(node.name, []).append((m, q, node, cls, parent))
        self.changed_modules: Set[str] = set()
        self.budget = 20000          # AST nodes the expansion may add in total: a normalisation, not a code generator
        # helpers that can reach themselves through other new helpers are never expanded
        calls: Dict[str, Set[str]] = {}
        for name, defs in self.new_defs.items():
            for (_m, _q, node, _cls, _parent) in defs:
                for n in ast.walk(node):
                    if isinstance(n, ast.Call):
                        cal = n.func.attr if isinstance(n.func, ast.Attribute) else n.func.id if isinstance(n.func, ast.Name) else None
                        if cal in self.new_defs:
                            calls.setdefault(name, set()).add(cal)
        self.recursive: Set[str] = set()
        for name in self.new_defs:
            seen, stack = set(), list(calls.get(name, ()))
            while stack:
                x = stack.pop()
                if x == name:
                    self.recursive.add(name)
                    break
                if x in seen:
                    continue
                seen.add(x)
                stack.extend(calls.get(x, ()))

    # -- which helper does a call denote?
    def target_of(self, call: ast.Call, caller_mod, caller_fn):
        if isinstance(call.func, ast.Attribute):
            name = call.func.attr
            kind = 'method'
        elif isinstance(call.func, ast.Name):
            name = call.func.id
            kind = 'func'
        else:
            return None
        defs = self.new_defs.get(name)
        if not defs or name in self.known_names or len(defs) != 1 or name in self.recursive:
            return None
        m, q, node, cls, parent = defs[0]
        if kind == 'method' and cls is None:
            return None
        if kind == 'func':
            if cls is not None and parent is None:
                return None
            if parent is not None:
                # nested helper: callable only inside its parent
                if not any(n is node for n in ast.walk(caller_fn)):
                    return None
            elif m is not caller_mod:
                imp = caller_mod.imports.get(name) if hasattr(caller_mod, 'imports') else None
                if not (imp and imp[0] == m.name and imp[1] == name):
                    return None
        return defs[0]

    def check_callee(self, m, node, cls, caller_mod):
        if node.decorator_list and not all(isinstance(d, ast.Name) and d.id in ('staticmethod', 'classmethod') for d in node.decorator_list):
            raise NotInlinable('decorated')
        if isinstance(node, ast.AsyncFunctionDef):
            raise NotInlinable('async')
        a = node.args
        if a.vararg or a.kwarg:
            raise NotInlinable('*args/**kwargs')
        for n in walk_local(node, include_root=False):
            if isinstance(n, (ast.Yield, ast.YieldFrom, ast.Global, ast.Nonlocal, ast.FunctionDef, ast.AsyncFunctionDef, ast.ClassDef, ast.Lambda, ast.Await)):
                raise NotInlinable(f"contains {type(n).__name__}")
            if isinstance(n, ast.Call) and isinstance(n.func, ast.Name) and n.func.id in ('super', 'locals', 'vars', 'exec'):
                raise NotInlinable(f"calls {n.func.id}()")
            if isinstance(n, ast.Name) and n.id == '__class__':
                raise NotInlinable('__class__')
        if m is not caller_mod:
            local = set(_params(node)) | _stored(node) | _comp_only(node)
            for n in ast.walk(node):
                if isinstance(n, ast.Name) and n.id not in local and not hasattr(builtins, n.id):
                    a_ = self.sm.namespace(m.name).get(n.id)
                    b_ = self.sm.namespace(caller_mod.name).get(n.id)
                    if a_ is None or a_ != b_:
                        raise NotInlinable(f"global name {n.id} of {m.relpath} means something else in {caller_mod.relpath}")

    # -- build the replacement statements
    def expand(self, call: ast.Call, target, caller_fn, caller_mod, ctx: str, tgt_expr, stmt):
        m, q, node, cls, parent = target
        size = sum(1 for _ in ast.walk(node))
        if size > self.budget:
            raise NotInlinable('expansion budget exhausted')
        self.budget -= size
        self.check_callee(m, node, cls, caller_mod)
        if any(isinstance(a, ast.Starred) for a in call.args) or any(k.arg is None for k in call.keywords):
            raise NotInlinable('starred call')
        params = _params(node)
        is_static = any(isinstance(d, ast.Name) and d.id == 'staticmethod' for d in node.decorator_list)
        is_classmethod = any(isinstance(d, ast.Name) and d.id == 'classmethod' for d in node.decorator_list)
        bound = cls is not None and not is_static and parent is None
        on_self = is_classmethod and isinstance(call.func, ast.Attribute) and isinstance(call.func.value, ast.Name) and call.func.value.id == 'self'
        if is_classmethod and not on_self and not (isinstance(call.func, ast.Attribute) and isinstance(call.func.value, ast.Name) and call.func.value.id in ('cls',)):
            raise NotInlinable('classmethod called on something other than cls')
        args: Dict[str, ast.AST] = {}
        pos = list(call.args)
        names = list(params)
        if bound:
            if not names:
                raise NotInlinable('method without self')
            # a classmethod reached through an instance receives the instance's class
            args[names[0]] = ast.Attribute(value=ast.Name(id='self', ctx=ast.Load()), attr='__class__', ctx=ast.Load()) if on_self else call.func.value
            names = names[1:]
        n_pos = len(node.args.posonlyargs) + len(node.args.args) - (1 if bound else 0)
        if len(pos) > n_pos:
            raise NotInlinable('too many positional arguments')
        for p, a in zip(names, pos):
            args[p] = a
        for k in call.keywords:
            if k.arg not in params or k.arg in args:
                raise NotInlinable('unexpected keyword')
            args[k.arg] = k.value
        # defaults
        pos_params = [x.arg for x in node.args.posonlyargs + node.args.args]
        defaults = dict(zip(pos_params[len(pos_params) - len(node.args.defaults):], node.args.defaults))
        for x, d in zip(node.args.kwonlyargs, node.args.kw_defaults):
            if d is not None:
                defaults[x.arg] = d
        for p in params:
            if p not in args:
                if p not in defaults:
                    raise NotInlinable(f"no argument for parameter {p}")
                args[p] = defaults[p]
        self.counter += 1
        k = self.counter
        callee_stored = _stored(node)
        callee_locals = set(params) | callee_stored
        caller_locals = set(_params(caller_fn)) | _stored(caller_fn)
        body = [copy.deepcopy(s) for s in node.body]
        if body and isinstance(body[0], ast.Expr) and isinstance(body[0].value, ast.Constant) and isinstance(body[0].value.value, str):
            body = body[1:]
        pre: List[ast.stmt] = []
        mapping: Dict[str, ast.AST] = {}
        rename: Dict[str, str] = {}
        # the variable(s) every return hands back, and the name(s) the call's result is bound to
        rets = [n for s in body for n in walk_local(s) if isinstance(n, ast.Return)]
        tgt_names: List[str] = []
        if ctx == 'assign':
            if isinstance(tgt_expr, ast.Name):
                tgt_names = [tgt_expr.id]
            elif isinstance(tgt_expr, ast.Tuple) and all(isinstance(e, ast.Name) for e in tgt_expr.elts):
                tgt_names = [e.id for e in tgt_expr.elts]
        shape = None
        if tgt_names and rets:
            shapes = set()
            for r in rets:
                if isinstance(r.value, ast.Name):
                    shapes.add((r.value.id,))
                elif isinstance(r.value, ast.Tuple) and all(isinstance(e, ast.Name) for e in r.value.elts):
                    shapes.add(tuple(e.id for e in r.value.elts))
                else:
                    shapes.add(None)
            if len(shapes) == 1 and None not in shapes:
                sh = next(iter(shapes))
                if len(sh) == len(tgt_names) and len(set(sh)) == len(sh):
                    shape = sh
        through = set()      # parameters that are updated by the callee and handed back into the caller's variable of the same name
        if shape:
            for s_, t_ in zip(shape, tgt_names):
                if s_ == t_ and s_ in params and isinstance(args[s_], ast.Name) and args[s_].id == s_:
                    through.add(s_)
        # names read by statements that can still run after this call: the rest of its statement list and of every enclosing list
        later_loads = set()
        in_loop = False
        cur = stmt
        guard = 0
        while cur is not caller_fn and guard < 50:
            guard += 1
            holder = None
            for n_ in ast.walk(caller_fn):
                for field in ('body', 'orelse', 'finalbody'):
                    lst_ = getattr(n_, field, None)
                    if isinstance(lst_, list) and any(x is cur for x in lst_):
                        holder = (n_, lst_)
                if isinstance(n_, ast.Try):
                    for h_ in n_.handlers:
                        if any(x is cur for x in h_.body):
                            holder = (n_, h_.body)
            if holder is None:
                in_loop = True          # not found: be conservative
                break
            n_, lst_ = holder
            idx_ = next(i_ for i_, x in enumerate(lst_) if x is cur)
            for later in lst_[idx_ + 1:]:
                for y in ast.walk(later):
                    if isinstance(y, ast.Name) and isinstance(y.ctx, ast.Load):
                        later_loads.add(y.id)
            if isinstance(n_, (ast.For, ast.While, ast.Try, ast.With)):
                in_loop = in_loop or isinstance(n_, (ast.For, ast.While))
                if isinstance(n_, ast.Try):
                    for y in ast.walk(n_):
                        if isinstance(y, ast.Name) and isinstance(y.ctx, ast.Load):
                            later_loads.add(y.id)       # handlers / finally may read it
            cur = n_
        for p in params:
            a = args[p]
            if p in through:
                continue
            if p in callee_stored and isinstance(a, ast.Name) and a.id not in later_loads and not in_loop and a.id in caller_locals and \
                    sum(1 for q_ in params if isinstance(args[q_], ast.Name) and args[q_].id == a.id) == 1:
                # the caller never looks at this variable again: the callee may go on using (and rebinding) it under the caller's name
                if a.id != p:
                    rename[p] = a.id
                continue
            if p not in callee_stored and _pure_chain(a):
                mapping[p] = a
            else:
                tmp = f"{p}__i{k}" if p in caller_locals or p in ('self',) else p
                if not isinstance(a, ast.Name) or a.id != tmp:
                    pre.append(ast.Assign(targets=[ast.Name(id=tmp, ctx=ast.Store())], value=copy.deepcopy(a), lineno=stmt.lineno))
                if tmp != p:
                    rename[p] = tmp
        if shape and all((s_ in callee_stored and s_ not in params) or s_ in through for s_ in shape):
            ok = True
            for s_, t_ in zip(shape, tgt_names):
                if s_ != t_ and t_ in callee_locals:
                    ok = False
            if ok:
                for s_, t_ in zip(shape, tgt_names):
                    if s_ != t_:
                        rename[s_] = t_
        for n in callee_stored - set(params):
            if n in rename:
                continue
            if n in caller_locals and n not in tgt_names:
                rename[n] = f"{n}__i{k}"
        sub = _Subst(mapping, rename)
        body = [sub.visit(s) for s in body]

        def assign(value):
            if ctx == 'expr':
                if value is None or isinstance(value, (ast.Constant, ast.Name)):
                    return []
                return [ast.Expr(value=value)]
            if ctx == 'return':
                return [ast.Return(value=value)]
            v = value if value is not None else ast.Constant(value=None)
            t = copy.deepcopy(tgt_expr)
            if ast.dump(t).replace('Store()', 'Load()') == ast.dump(v).replace('Store()', 'Load()'):
                return []
            return [ast.Assign(targets=[t], value=v)]

        if ctx == 'tail-expr':
            # the value of the call is discarded: every `return X` of the callee ends the caller as well (X evaluated for its effects only)
            class DropValue(ast.NodeTransformer):
                def visit_FunctionDef(self, n):
                    return n

                def visit_Lambda(self, n):
                    return n

                def visit_Return(self, n):
                    if n.value is None or isinstance(n.value, (ast.Constant, ast.Name)):
                        return ast.copy_location(ast.Return(value=None), n)
                    return [ast.copy_location(ast.Expr(value=n.value), n), ast.copy_location(ast.Return(value=None), n)]
            new_body = []
            for b_ in body:
                r_ = DropValue().visit(b_)
                new_body += r_ if isinstance(r_, list) else [r_]
        elif ctx == 'return':
            new_body = body
            if not _terminates(new_body):
                new_body = new_body + [ast.Return(value=ast.Constant(value=None))]
        else:
            new_body = _tail(body, assign)
            if ctx == 'assign' and not _terminates(body):
                has_value_return = any(r.value is not None for r in rets)
                if not rets:
                    new_body = new_body + assign(None)
                elif has_value_return:
                    pre.append(ast.Assign(targets=[copy.deepcopy(tgt_expr)], value=ast.Constant(value=None)))
        out = pre + new_body
        if not out:
            out = [ast.Pass()]
        cross = m is not caller_mod
        for s in out:
            for n in ast.walk(s):
                if cross or not hasattr(n, 'lineno'):
                    if isinstance(n, (ast.stmt, ast.expr)) or hasattr(n, 'lineno'):
                        n.lineno = stmt.lineno
                        n.col_offset = stmt.col_offset
                        n.end_lineno = getattr(stmt, 'end_lineno', stmt.lineno)
                        n.end_col_offset = getattr(stmt, 'end_col_offset', 0)
            ast.fix_missing_locations(s)
        return out

    # -- one pass over a function
    def process_function(self, mod, qual, fn) -> bool:
        changed = False

        def do_list(lst, tail=False):
            nonlocal changed
            i = 0
            while i < len(lst):
                st = lst[i]
                repl = None
                call = ctx = tgt = None
                if isinstance(st, ast.Expr) and isinstance(st.value, ast.Call):
                    # in tail position of the caller (nothing runs after the statement) the callee's returns are the caller's returns
                    call, ctx = st.value, ('tail-expr' if tail and i == len(lst) - 1 else 'expr')
                elif isinstance(st, ast.Assign) and len(st.targets) == 1 and isinstance(st.value, ast.Call):
                    call, ctx, tgt = st.value, 'assign', st.targets[0]
                elif isinstance(st, ast.Return) and isinstance(st.value, ast.Call):
                    call, ctx = st.value, 'return'
                elif isinstance(st, ast.If):
                    # `if helper(...)` / `if not helper(...)`: hoist the call
                    t = st.test
                    inner = t.operand if isinstance(t, ast.UnaryOp) and isinstance(t.op, ast.Not) else t
                    if isinstance(inner, ast.Call) and self.target_of(inner, mod, fn) is not None:
                        self.counter += 1
                        tmp = f"cond__i{self.counter}"
                        hoisted = ast.Assign(targets=[ast.Name(id=tmp, ctx=ast.Store())], value=inner)
                        ast.copy_location(hoisted, st)
                        ast.fix_missing_locations(hoisted)
                        nm = ast.copy_location(ast.Name(id=tmp, ctx=ast.Load()), inner)
                        if inner is t:
                            st.test = nm
                        else:
                            t.operand = nm
                        lst.insert(i, hoisted)
                        changed = True
                        continue
                if call is not None:
                    target = self.target_of(call, mod, fn)
                    if target is not None and target[2] is not fn:
                        try:
                            repl = self.expand(call, target, fn, mod, ctx, tgt, st)
                            self.log.append({'helper': f"{target[0].relpath}::{target[1]}", 'into': f"{mod.relpath}::{qual}", 'line': st.lineno})
                        except NotInlinable as e:
                            self.not_inlined.append({'helper': f"{target[0].relpath}::{target[1]}", 'caller': f"{mod.relpath}::{qual}", 'line': st.lineno, 'why': str(e)})
                            repl = None
                if repl is not None:
                    lst[i:i + 1] = repl
                    changed = True
                    i += len(repl)
                    continue
                for field in ('body', 'orelse', 'finalbody'):
                    sub = getattr(st, field, None)
                    if isinstance(sub, list) and sub and isinstance(sub[0], ast.stmt) and not isinstance(st, SCOPES):
                        do_list(sub, tail and i == len(lst) - 1 and isinstance(st, ast.If))
                if isinstance(st, ast.Try):
                    for h in st.handlers:
                        do_list(h.body)
                i += 1

        do_list(fn.body, True)
        if self._inline_expressions(mod, qual, fn):
            changed = True
        return changed

    def _inline_expressions(self, mod, qual, fn) -> bool:
        """`... helper(a, b) ...` anywhere inside an expression, where the new helper is `return <expression>` and nothing else: the call
        is replaced by that expression with the parameters substituted (each parameter is used at most once, or its argument is a
        name / constant / attribute chain)."""
        inl = self
        hit = [False]

        class T(ast.NodeTransformer):
            def visit_FunctionDef(self, node):
                if node is fn:
                    self.generic_visit(node)
                return node

            def visit_Lambda(self, node):
                return node

            def visit_Call(self, node):
                self.generic_visit(node)
                target = inl.target_of(node, mod, fn)
                if target is None or target[2] is fn:
                    return node
                m, q, cnode, cls, parent = target
                body = [b for b in cnode.body if not (isinstance(b, ast.Expr) and isinstance(b.value, ast.Constant))]
                if len(body) != 1 or not isinstance(body[0], ast.Return) or body[0].value is None:
                    return node
                try:
                    inl.check_callee(m, cnode, cls, mod)
                except NotInlinable:
                    return node
                if any(isinstance(a, ast.Starred) for a in node.args) or any(k.arg is None for k in node.keywords) or cnode.decorator_list and \
                        not all(isinstance(d, ast.Name) and d.id == 'staticmethod' for d in cnode.decorator_list):
                    return node
                static = any(isinstance(d, ast.Name) and d.id == 'staticmethod' for d in cnode.decorator_list)
                params = _params(cnode)
                args = {}
                names = list(params)
                if cls is not None and not static:
                    if not names or not isinstance(node.func, ast.Attribute):
                        return node
                    args[names[0]] = node.func.value
                    names = names[1:]
                if len(node.args) > len(names):
                    return node
                for pn, a in zip(names, node.args):
                    args[pn] = a
                for k in node.keywords:
                    if k.arg not in params or k.arg in args:
                        return node
                    args[k.arg] = k.value
                pos_params = [x.arg for x in cnode.args.posonlyargs + cnode.args.args]
                defaults = dict(zip(pos_params[len(pos_params) - len(cnode.args.defaults):], cnode.args.defaults))
                for pn in params:
                    if pn not in args:
                        if pn not in defaults:
                            return node
                        args[pn] = defaults[pn]
                expr = copy.deepcopy(body[0].value)
                uses = {}
                for x in ast.walk(expr):
                    if isinstance(x, ast.Name) and x.id in args:
                        uses[x.id] = uses.get(x.id, 0) + 1
                        if not isinstance(x.ctx, ast.Load):
                            return node
                if any(uses.get(pn, 0) > 1 and not _pure_chain(a) for pn, a in args.items()):
                    return node
                # comprehension variables of the helper must not capture names of the arguments
                bound = {y.id for x in ast.walk(expr) if isinstance(x, ast.comprehension) for y in ast.walk(x.target) if isinstance(y, ast.Name)}
                free = {y.id for a in args.values() for y in ast.walk(a) if isinstance(y, ast.Name)}
                if bound & free:
                    return node
                size = sum(1 for _ in ast.walk(expr))
                if size > inl.budget:
                    return node
                inl.budget -= size
                new = _Subst({pn: a for pn, a in args.items()}, {}).visit(expr)
                for x in ast.walk(new):
                    if hasattr(x, 'lineno') or isinstance(x, (ast.expr, ast.stmt)):
                        x.lineno, x.col_offset = node.lineno, node.col_offset
                        x.end_lineno, x.end_col_offset = getattr(node, 'end_lineno', node.lineno), getattr(node, 'end_col_offset', 0)
                inl.log.append({'helper': f"{m.relpath}::{q}", 'into': f"{mod.relpath}::{qual}", 'line': node.lineno, 'as': 'expression'})
                hit[0] = True
                return new
        T().visit(fn)
        return hit[0]

    def run(self):
        if not self.new_defs:
            return
        for _ in range(MAX_ROUNDS):
            any_change = False
            for m in self.sm.modules.values():
                for q, node, cls, parent in module_function_quals(m.tree):
                    if self.process_function(m, q, node):
                        any_change = True
                        self.changed_modules.add(m.name)
            if not any_change:
                break
        self.drop_dead_helpers()

    def drop_dead_helpers(self):
        """A new helper with no remaining reference anywhere in the program is dead code of the normalised program."""
        refs: Dict[str, int] = {}
        for m in self.sm.modules.values():
            for n in ast.walk(m.tree):
                if isinstance(n, ast.Attribute):
                    refs[n.attr] = refs.get(n.attr, 0) + 1
                elif isinstance(n, ast.Name):
                    refs[n.id] = refs.get(n.id, 0) + 1
                elif isinstance(n, ast.Constant) and isinstance(n.value, str) and n.value.isidentifier():
                    refs[n.value] = refs.get(n.value, 0) + 1
        inlined_helpers = {e['helper'] for e in self.log}
        self.dropped = []
        for name, defs in self.new_defs.items():
            for (m, q, node, cls, parent) in defs:
                if f"{m.relpath}::{q}" not in inlined_helpers or refs.get(name, 0) > 0:
                    continue
                if cls is not None and not name.startswith('_') and self._is_api_class(cls):
                    continue        # a new public method of the user-facing class stays: it is a new entry point
                holder = cls.body if cls is not None else (parent.body if parent is not None else m.tree.body)
                # nested: search the statement list that holds the def
                removed = False
                for lst in self._stmt_lists(cls if cls is not None else (parent if parent is not None else m.tree)):
                    for i, st in enumerate(lst):
                        if st is node:
                            del lst[i]
                            if not lst:
                                lst.append(ast.copy_location(ast.Pass(), node))
                            removed = True
                            break
                    if removed:
                        break
                if removed:
                    self.dropped.append(f"{m.relpath}::{q}")
                    self.changed_modules.add(m.name)

    def _is_api_class(self, cls: ast.ClassDef) -> bool:
        names = {cls.name} | {b.id for b in cls.bases if isinstance(b, ast.Name)}
        return bool(names & {'XMLElement'})

    @staticmethod
    def _stmt_lists(root):
        out = []
        for n in ast.walk(root):
            for field in ('body', 'orelse', 'finalbody'):
                lst = getattr(n, field, None)
                if isinstance(lst, list) and lst and isinstance(lst[0], ast.stmt):
                    out.append(lst)
        return out


# ---------------------------------------------------------------------------------------------------------------------
# Canonical statement shapes (behaviour preserving, applied to every function of the hand-written modules to a fix-point):
#   A  `not not c` -> c ; `if not c: A else: B` -> `if c: B else: A`
#   B  `if a: (if b: X)` with no else on either -> `if a and b: X`
#   C  `if c: ...raise/return  else: rest` -> `if c: ...raise/return` followed by rest
#   D  `tmp = E` immediately followed by the only use of tmp -> the use with E in place
def call_stable_fields(sm) -> Set[str]:
    """attribute names whose binding no operation can change behind the caller's back: every store of `.F` / `._F` in the program sits in an
    `__init__` or in the property setter of F itself.  Reading such a field before or after a call gives the same object (the object may have been
    mutated, the binding has not)."""
    stores: Dict[str, Set[str]] = {}
    for m in sm.modules.values():
        if not (m.name.startswith('musicxml') or m.name == 'verysimpletree.tree'):
            continue
        for q, node, cls, parent in module_function_quals(m.tree):
            setter_of = {d.value.id for d in node.decorator_list if isinstance(d, ast.Attribute) and d.attr == 'setter' and isinstance(d.value, ast.Name)}
            for n in walk_local(node):
                if isinstance(n, ast.Attribute) and isinstance(n.ctx, (ast.Store, ast.Del)):
                    base = n.attr.lstrip('_')
                    ok = node.name == '__init__' and isinstance(n.value, ast.Name) and n.value.id == 'self' or base in {s_.lstrip('_') for s_ in setter_of}
                    stores.setdefault(base, set()).add('ok' if ok else f"{m.name}:{q}")
        for n in ast.walk(m.tree):
            # class-level tables rebound through the class (cls._X = ...) are found above; setattr(obj, name, ...) with a computed name can store anything
            if isinstance(n, ast.Call) and isinstance(n.func, ast.Name) and n.func.id == 'setattr' and len(n.args) == 3 and isinstance(n.args[1], ast.Constant):
                stores.setdefault(str(n.args[1].value).lstrip('_'), set()).add('setattr')
    return {f for f, where in stores.items() if where == {'ok'}}


class Canon:
    stable_fields: Set[str] = set()

    def __init__(self):
        self.counts = {'A': 0, 'B': 0, 'C': 0, 'D': 0}

    def _expand_memberships(self, fn) -> bool:
        """`x in ('a', 'b')` -> `x == 'a' or x == 'b'`; `x not in (...)` -> `x != 'a' and x != 'b'`; `isinstance(x, (A, B))` ->
        `isinstance(x, A) or isinstance(x, B)` (x a name / attribute chain, at most six alternatives)"""
        canon = self
        hit = [False]

        class T(ast.NodeTransformer):
            def visit_Compare(self, node):
                self.generic_visit(node)
                if len(node.ops) == 1 and isinstance(node.ops[0], (ast.In, ast.NotIn)) and isinstance(node.comparators[0], (ast.Tuple, ast.List, ast.Set)) \
                        and 1 <= len(node.comparators[0].elts) <= 6 and all(isinstance(x, ast.Constant) for x in node.comparators[0].elts) and _pure_chain(node.left):
                    pos = isinstance(node.ops[0], ast.In)
                    parts = [ast.Compare(left=copy.deepcopy(node.left), ops=[ast.Eq() if pos else ast.NotEq()], comparators=[c]) for c in node.comparators[0].elts]
                    new = parts[0] if len(parts) == 1 else ast.BoolOp(op=ast.Or() if pos else ast.And(), values=parts)
                    hit[0] = True
                    canon.counts['T'] = canon.counts.get('T', 0) + 1
                    return ast.fix_missing_locations(ast.copy_location(new, node))
                return node

            def visit_JoinedStr(self, node):
                self.generic_visit(node)
                # f'XML{"".join(parts)}' -> 'XML' + ''.join(parts): only when every interpolated expression is str-valued by construction
                def str_valued(e):
                    return isinstance(e, ast.Call) and isinstance(e.func, ast.Attribute) and e.func.attr in ('join', 'replace', 'strip', 'lower', 'upper', 'capitalize', 'title')
                parts = []
                for v in node.values:
                    if isinstance(v, ast.Constant) and isinstance(v.value, str):
                        parts.append(v)
                    elif isinstance(v, ast.FormattedValue) and v.conversion == -1 and v.format_spec is None and str_valued(v.value):
                        parts.append(v.value)
                    else:
                        return node
                if len(parts) < 2 or not any(not isinstance(x, ast.Constant) for x in parts):
                    return node
                new = parts[0]
                for x in parts[1:]:
                    new = ast.BinOp(left=new, op=ast.Add(), right=x)
                hit[0] = True
                canon.counts['F'] = canon.counts.get('F', 0) + 1
                return ast.fix_missing_locations(ast.copy_location(new, node))

            def visit_Call(self, node):
                self.generic_visit(node)
                # x.replace('_', '-') -> '-'.join(x.split('_')): the same string for a non-empty separator
                if isinstance(node.func, ast.Attribute) and node.func.attr == 'replace' and len(node.args) == 2 and not node.keywords and \
                        all(isinstance(a, ast.Constant) and isinstance(a.value, str) for a in node.args) and node.args[0].value != '':
                    split = ast.Call(func=ast.Attribute(value=node.func.value, attr='split', ctx=ast.Load()), args=[node.args[0]], keywords=[])
                    new = ast.Call(func=ast.Attribute(value=node.args[1], attr='join', ctx=ast.Load()), args=[split], keywords=[])
                    hit[0] = True
                    canon.counts['J'] = canon.counts.get('J', 0) + 1
                    return ast.fix_missing_locations(ast.copy_location(new, node))
                if isinstance(node.func, ast.Name) and node.func.id == 'isinstance' and len(node.args) == 2 and not node.keywords and isinstance(node.args[1], ast.Tuple) \
                        and 2 <= len(node.args[1].elts) <= 6 and _pure_chain(node.args[0]):
                    parts = [ast.Call(func=ast.Name(id='isinstance', ctx=ast.Load()), args=[copy.deepcopy(node.args[0]), c], keywords=[]) for c in node.args[1].elts]
                    hit[0] = True
                    canon.counts['T'] = canon.counts.get('T', 0) + 1
                    return ast.fix_missing_locations(ast.copy_location(ast.BoolOp(op=ast.Or(), values=parts), node))
                return node
        T().visit(fn)
        return hit[0]

    def function(self, fn) -> bool:
        changed = self._expand_memberships(fn)
        # docstrings carry no behaviour
        for sub in ast.walk(fn):
            if isinstance(sub, (ast.FunctionDef, ast.AsyncFunctionDef)) and sub.body and isinstance(sub.body[0], ast.Expr) and \
                    isinstance(sub.body[0].value, ast.Constant) and isinstance(sub.body[0].value.value, str) and len(sub.body) > 1:
                del sub.body[0]
                self.counts['S'] = self.counts.get('S', 0) + 1
                changed = True
        # `del <local>` as the last statement of a function unbinds a name nobody can read any more
        if len(fn.body) > 1 and isinstance(fn.body[-1], ast.Delete) and all(isinstance(t, ast.Name) for t in fn.body[-1].targets) and \
                not any(isinstance(n, (ast.FunctionDef, ast.AsyncFunctionDef, ast.Lambda)) and n is not fn and
                        any(isinstance(y, ast.Name) and y.id in {t.id for t in fn.body[-1].targets} for y in ast.walk(n)) for n in ast.walk(fn)):
            del fn.body[-1]
            self.counts['X'] = self.counts.get('X', 0) + 1
            changed = True
        for _ in range(6):
            c = self._lists(fn)
            c |= self._split_literal_sequences(fn)
            c |= self._split_tuple_unpacking(fn)
            c |= self._eliminate_continue(fn)
            c |= self._propagate_aliases(fn)
            c |= self._reroll(fn)
            changed |= c
            if not c:
                break
        return changed

    # ------------------------------------------------------------------------------------------------ re-rolling one unrolled level of a recursion
    def _reroll(self, fn) -> bool:
        """`if C(x): x.f(args) else: U` (or the branches the other way round) inside method f itself, where U is what `x.f(args)` does when C(x) does not
        hold - f's own body with self := x, simplified under that assumption (tests decided by it dropped, loops over a sequence it says is empty
        removed) - is `x.f(args)`: one level of the recursion was unrolled for a special case.  Equal by induction on the depth of the (finite) tree,
        using the same identity for the occurrences one level further down.  C must be a pure test (attribute reads, `is None`, zero-argument
        accessors)."""
        if not (fn.args.args and fn.args.args[0].arg == 'self') or fn.args.vararg or fn.args.kwarg or fn.args.kwonlyargs:
            return False
        params = [a.arg for a in fn.args.args[1:]]

        def rec_call(stmts):
            if len(stmts) == 1 and isinstance(stmts[0], ast.Expr) and isinstance(stmts[0].value, ast.Call):
                c = stmts[0].value
                if isinstance(c.func, ast.Attribute) and c.func.attr == fn.name and isinstance(c.func.value, ast.Name) and c.func.value.id != 'self' and \
                        not c.keywords and [unparse_(a) for a in c.args] == params[:len(c.args)] and len(c.args) == len(params):
                    return c
            return None

        def pure_test(e) -> bool:
            for n in ast.walk(e):
                if isinstance(n, ast.Call) and not (isinstance(n.func, ast.Attribute) and n.func.attr.startswith('get_') and not n.keywords and
                                                    all(isinstance(a, ast.Constant) for a in n.args)):
                    return False
                if isinstance(n, (ast.Subscript, ast.Lambda, ast.ListComp, ast.GeneratorExp, ast.NamedExpr, ast.Await, ast.Yield)):
                    return False
            return True

        def facts(test, truth: bool):
            """atoms known under `test is truth`: {text: bool}, or None when nothing follows"""
            out = {}

            def add(e, val):
                if isinstance(e, ast.UnaryOp) and isinstance(e.op, ast.Not):
                    return add(e.operand, not val)
                if isinstance(e, ast.BoolOp):
                    if isinstance(e.op, ast.And) and val or isinstance(e.op, ast.Or) and not val:
                        return all(add(v, val) for v in e.values)
                    return len(e.values) == 1 and add(e.values[0], val)
                out[unparse_(e)] = val
                if isinstance(e, ast.Compare) and len(e.ops) == 1 and isinstance(e.comparators[0], ast.Constant) and e.comparators[0].value is None:
                    if isinstance(e.ops[0], ast.Is) and val or isinstance(e.ops[0], ast.IsNot) and not val:
                        out[unparse_(e.left)] = False           # None is falsy
                return True
            return out if add(test, truth) and out else None

        def truth_of(e, known):
            if isinstance(e, ast.UnaryOp) and isinstance(e.op, ast.Not):
                t = truth_of(e.operand, known)
                return None if t is None else not t
            if isinstance(e, ast.BoolOp):
                ts = [truth_of(v, known) for v in e.values]
                if isinstance(e.op, ast.And):
                    return False if False in ts else (True if all(t is True for t in ts) else None)
                return True if True in ts else (False if all(t is False for t in ts) else None)
            return known.get(unparse_(e))

        def simplify(stmts, known):
            out = []
            for s in stmts:
                if isinstance(s, ast.If):
                    t = truth_of(s.test, known)
                    if t is True:
                        out += simplify(s.body, known)
                    elif t is False:
                        out += simplify(s.orelse, known)
                    else:
                        b, o = simplify(s.body, known), simplify(s.orelse, known)
                        if b or o:
                            out.append(ast.If(test=s.test, body=b or [ast.Pass()], orelse=o))
                        elif not pure_test(s.test):
                            out.append(ast.If(test=s.test, body=[ast.Pass()], orelse=[]))
                elif isinstance(s, ast.For) and not s.orelse and known.get(unparse_(s.iter)) is False:
                    continue                  # the assumption says the sequence is empty
                elif isinstance(s, ast.For):
                    out.append(ast.For(target=s.target, iter=s.iter, body=simplify(s.body, known) or [ast.Pass()], orelse=s.orelse))
                else:
                    out.append(s)
            return out

        def canon_dump(stmts) -> str:
            mod = ast.Module(body=copy.deepcopy(stmts), type_ignores=[])
            names = {}

            class Ren(ast.NodeTransformer):
                def visit_Name(self, n):
                    if isinstance(n.ctx, ast.Store) and n.id not in names:
                        names[n.id] = f"v{len(names)}"
                    if n.id in names:
                        return ast.Name(id=names[n.id], ctx=n.ctx)
                    return n
            # targets first (in order of appearance), then every use
            for n in ast.walk(mod):
                if isinstance(n, ast.Name) and isinstance(n.ctx, ast.Store) and n.id not in names:
                    names[n.id] = f"v{len(names)}"
            return ast.dump(Ren().visit(mod), annotate_fields=False, include_attributes=False)

        changed = False
        for lst in Inliner._stmt_lists(fn):
            for i, st in enumerate(lst):
                if not isinstance(st, ast.If) or not st.orelse or not pure_test(st.test):
                    continue
                ca, cb = rec_call(st.body), rec_call(st.orelse)
                if (ca is None) == (cb is None):
                    continue
                call, unrolled, taken_when = (ca, st.orelse, False) if ca is not None else (cb, st.body, True)
                x = call.func.value.id
                known = facts(st.test, taken_when)
                if known is None:
                    continue
                # the rolled version of the function body: this statement is the plain call (the identity one level further down)
                marker = ast.Expr(value=copy.deepcopy(call))
                lst[i] = marker
                rolled = copy.deepcopy(fn.body)
                lst[i] = st

                class ToX(ast.NodeTransformer):
                    def visit_Name(self, n):
                        return ast.Name(id=x, ctx=n.ctx) if n.id == 'self' else n
                # locals of the body must not collide with x: rename the body's own loop variable named like x
                spec = []
                clash = any(isinstance(n, ast.Name) and n.id == x and isinstance(n.ctx, ast.Store) for s_ in rolled for n in ast.walk(s_))
                if clash:
                    class Fresh(ast.NodeTransformer):
                        def visit_Name(self, n):
                            return ast.Name(id=x + '__inner', ctx=n.ctx) if n.id == x else n
                    rolled = [Fresh().visit(s_) for s_ in rolled]
                spec = simplify([ToX().visit(s_) for s_ in rolled], known)
                if canon_dump(spec) == canon_dump(simplify(unrolled, known)):
                    lst[i] = ast.copy_location(marker, st)
                    ast.fix_missing_locations(fn)
                    self.counts['RR'] = self.counts.get('RR', 0) + 1
                    changed = True
        return changed

    def _split_tuple_unpacking(self, fn) -> bool:
        """`a, b = (X, Y)` with plain local names on the left and a literal tuple of the same length on the right is `a = X; b = Y` when no item
        reads a name bound by the statement (the tuple is built before anything is bound; splitting binds `a` before `Y` is evaluated, which
        only a read of `a` in `Y` could observe - the names are plain locals of this function: no closure reads them in between because nested
        functions that mention them make the rewrite back off).  Evaluation order of the items is kept."""
        changed = False
        for lst in Inliner._stmt_lists(fn):
            for i, st in enumerate(lst):
                if not (isinstance(st, ast.Assign) and len(st.targets) == 1 and isinstance(st.targets[0], ast.Tuple) and isinstance(st.value, ast.Tuple)
                        and len(st.targets[0].elts) == len(st.value.elts) >= 2 and all(isinstance(t, ast.Name) for t in st.targets[0].elts)
                        and not any(isinstance(e, ast.Starred) for e in st.value.elts)):
                    continue
                bound = [t.id for t in st.targets[0].elts]
                if len(set(bound)) != len(bound):
                    continue
                if any(isinstance(n, ast.Name) and n.id in bound for e in st.value.elts for n in ast.walk(e)):
                    continue
                if any(isinstance(n, (ast.Lambda, ast.NamedExpr, ast.Yield, ast.YieldFrom, ast.Await)) for e in st.value.elts for n in ast.walk(e)):
                    continue
                if any(isinstance(n, (ast.FunctionDef, ast.AsyncFunctionDef, ast.Lambda)) and n is not fn and
                       any(isinstance(y, ast.Name) and y.id in bound for y in ast.walk(n)) for n in ast.walk(fn)):
                    continue
                if any(isinstance(n, (ast.Global, ast.Nonlocal)) and set(n.names) & set(bound) for n in ast.walk(fn)):
                    continue
                lst[i:i + 1] = [ast.fix_missing_locations(ast.copy_location(ast.Assign(targets=[ast.Name(id=t.id, ctx=ast.Store())], value=e), st))
                                for t, e in zip(st.targets[0].elts, st.value.elts)]
                self.counts['T'] = self.counts.get('T', 0) + 1
                return True
        return changed

    def _split_literal_sequences(self, fn) -> bool:
        """`xs = (a, b)` (bound once, at most four items) whose only uses are `for x in xs: BODY` loops (BODY without break / continue,
        x not rebound): the items get names of their own at the place of the binding (evaluation order kept) and each loop is
        unrolled."""
        uses, defs = self._use_def_counts(fn)
        changed = False
        for lst in Inliner._stmt_lists(fn):
            for i, st in enumerate(lst):
                if not (isinstance(st, ast.Assign) and len(st.targets) == 1 and isinstance(st.targets[0], ast.Name) and isinstance(st.value, (ast.Tuple, ast.List))
                        and 1 <= len(st.value.elts) <= 4 and not any(isinstance(e, ast.Starred) for e in st.value.elts)):
                    continue
                xs = st.targets[0].id
                if defs.get(xs, 0) != 1:
                    continue
                loops = [n for n in ast.walk(fn) if isinstance(n, ast.For) and isinstance(n.iter, ast.Name) and n.iter.id == xs]
                if not loops or uses.get(xs, 0) != len(loops):
                    continue
                ok = True
                for lp in loops:
                    if not isinstance(lp.target, ast.Name) or lp.orelse:
                        ok = False
                    for b in lp.body:
                        for n in ast.walk(b):
                            if isinstance(n, (ast.Break, ast.Continue)):
                                ok = False
                            if isinstance(n, ast.Name) and isinstance(n.ctx, ast.Store) and isinstance(lp.target, ast.Name) and n.id == lp.target.id:
                                ok = False
                if not ok:
                    continue
                names = [f"{xs}__{k}" for k in range(len(st.value.elts))]
                new_defs = [ast.fix_missing_locations(ast.copy_location(ast.Assign(targets=[ast.Name(id=nm, ctx=ast.Store())], value=e), st)) for nm, e in zip(names, st.value.elts)]
                for lp in loops:
                    unrolled = []
                    for nm in names:
                        for b in lp.body:
                            bb = copy.deepcopy(b)

                            class R(ast.NodeTransformer):
                                def visit_Name(self, node, _v=lp.target.id, _nm=nm):
                                    if node.id == _v and isinstance(node.ctx, ast.Load):
                                        return ast.copy_location(ast.Name(id=_nm, ctx=ast.Load()), node)
                                    return node
                            unrolled.append(R().visit(bb))
                    for holder in Inliner._stmt_lists(fn):
                        for j, x in enumerate(holder):
                            if x is lp:
                                holder[j:j + 1] = unrolled
                                break
                for holder in Inliner._stmt_lists(fn):
                    for j, x in enumerate(holder):
                        if x is st:
                            holder[j:j + 1] = new_defs
                            break
                self.counts['U'] = self.counts.get('U', 0) + 1
                return True
        return changed

    def _eliminate_continue(self, fn) -> bool:
        """`for ..: if c: A; continue` + rest  ->  `for ..: if c: A else: rest` (in tail positions of a loop body); a trailing `continue` is dropped"""
        changed = [False]

        def tail(lst):
            # lst is executed last in the loop body: falling off its end starts the next iteration
            while lst and isinstance(lst[-1], ast.Continue) and len(lst) > 1:
                lst.pop()
                changed[0] = True
            i = 0
            while i < len(lst):
                st = lst[i]
                if isinstance(st, ast.If):
                    body_c = bool(st.body) and isinstance(st.body[-1], ast.Continue)
                    else_c = bool(st.orelse) and isinstance(st.orelse[-1], ast.Continue)
                    rest = lst[i + 1:]
                    if rest and (body_c or else_c) and not (body_c and else_c):
                        if body_c:
                            st.body = st.body[:-1] or [ast.copy_location(ast.Pass(), st)]
                            st.orelse = list(st.orelse) + rest
                        else:
                            st.orelse = st.orelse[:-1] or []
                            st.body = list(st.body) + rest
                        del lst[i + 1:]
                        self.counts['Q'] = self.counts.get('Q', 0) + 1
                        changed[0] = True
                    if i == len(lst) - 1:
                        tail(st.body)
                        if st.orelse:
                            tail(st.orelse)
                i += 1

        for n in ast.walk(fn):
            if isinstance(n, (ast.For, ast.While)) and not any(isinstance(x, (ast.FunctionDef, ast.Lambda)) and False for x in []):
                # only this loop's own continues: nested loops are visited on their own
                tail(n.body)
        return changed[0]

    @staticmethod
    def _boolean_valued(e) -> bool:
        if isinstance(e, ast.Compare):
            return True
        if isinstance(e, ast.UnaryOp) and isinstance(e.op, ast.Not):
            return True
        if isinstance(e, ast.BoolOp):
            return all(Canon._boolean_valued(v) for v in e.values)
        if isinstance(e, ast.Call) and isinstance(e.func, ast.Name) and e.func.id in ('isinstance', 'hasattr', 'callable', 'bool', 'any', 'all', 'issubclass'):
            return True
        return False

    PURE_FUNCS = {'eval', 'convert_to_xml_class_name', 'convert_to_xsd_class_name', 'cap_first', 'len', 'str', 'int', 'float', 'type', 'isinstance', 'hasattr', 'callable'}

    def _substitutable(self, e, stored_attrs, multi_def) -> bool:
        """an expression that denotes the same value wherever it is written inside the function: names that are bound once, attribute chains
        none of whose attribute names is stored in the function, calls of the pure naming / conversion functions on such expressions"""
        if isinstance(e, ast.Constant):
            return True
        if isinstance(e, ast.Name):
            return e.id not in multi_def
        if isinstance(e, ast.Attribute):
            return self._substitutable(e.value, stored_attrs, multi_def)      # stores of the attribute are interfering statements for _value_stable
        if isinstance(e, ast.Call) and isinstance(e.func, ast.Name) and e.func.id in self.PURE_FUNCS and not e.keywords:
            return all(self._substitutable(a, stored_attrs, multi_def) for a in e.args)
        # zero-argument accessors (`x.get_xsd_tree()`, `t.get_simple_content_extension()`): reading them again gives the same object
        if isinstance(e, ast.Call) and isinstance(e.func, ast.Attribute) and e.func.attr.startswith('get_') and not e.args and not e.keywords \
                and (e.func.attr not in ('get_required_element_names',) or getattr(self, '_read_only_fn', False)):
            return self._substitutable(e.func.value, stored_attrs, multi_def)
        # a fixed position of such a sequence, in a function that changes no structure
        if isinstance(e, ast.Subscript) and isinstance(e.slice, ast.Constant) and isinstance(e.slice.value, (int, str)):
            return self._substitutable(e.value, stored_attrs, multi_def)         # what lies between definition and use is judged by _value_stable
        return False

    RAISING_PURE = {'eval', 'convert_to_xml_class_name', 'convert_to_xsd_class_name', 'cap_first', 'len', 'int', 'float'}

    @classmethod
    def _may_raise(cls, e) -> bool:
        """evaluating e can raise: everything except constants, names and one attribute of `self` / `cls`"""
        if isinstance(e, (ast.Constant, ast.Name)):
            return False
        if isinstance(e, ast.Attribute) and isinstance(e.value, ast.Name) and e.value.id in ('self', 'cls'):
            return False
        if isinstance(e, (ast.Tuple, ast.List)):
            return any(cls._may_raise(x) for x in e.elts)
        if isinstance(e, ast.Compare) and all(isinstance(o, (ast.Is, ast.IsNot)) for o in e.ops):
            return cls._may_raise(e.left) or any(cls._may_raise(c) for c in e.comparators)
        if isinstance(e, ast.Call) and isinstance(e.func, ast.Name) and e.func.id in ('isinstance', 'type', 'callable', 'hasattr', 'id') and not e.keywords:
            return any(cls._may_raise(a) for a in e.args)
        return True

    @classmethod
    def _transparent(cls, st) -> bool:
        """a statement an exception of a pure expression may be moved across: it has no effect but binding a local name, and what it may raise
        itself is of the same kind (a dereference of None), not one of the pure functions with exceptions of their own"""
        if isinstance(st, ast.Pass) or isinstance(st, ast.Expr) and isinstance(st.value, ast.Constant):
            return True
        if isinstance(st, ast.Assign) and len(st.targets) == 1 and isinstance(st.targets[0], ast.Name):
            for n in ast.walk(st.value):
                if isinstance(n, ast.Call) and not (isinstance(n.func, ast.Attribute) and n.func.attr.startswith('get_') and not n.args and not n.keywords) and \
                        not (isinstance(n.func, ast.Name) and n.func.id in ('isinstance', 'type', 'callable', 'hasattr', 'id')):
                    return False
                if isinstance(n, (ast.Subscript, ast.BinOp, ast.ListComp, ast.SetComp, ast.DictComp, ast.GeneratorExp, ast.Lambda, ast.Await, ast.Yield, ast.NamedExpr)):
                    return False
            return True
        return False

    @staticmethod
    def _evaluated_first_in(stmt, name) -> bool:
        """a use of `name` is evaluated whenever stmt is reached, in its header (not inside a nested block, the later operands of and / or, a
        conditional expression, the element of a comprehension or a lambda)"""
        if isinstance(stmt, (ast.Assign, ast.AugAssign, ast.AnnAssign, ast.Expr, ast.Return, ast.Raise, ast.Assert)):
            roots = [stmt]
        elif isinstance(stmt, (ast.If, ast.While)):
            roots = [stmt.test]
        elif isinstance(stmt, ast.For):
            roots = [stmt.iter]
        else:
            return False
        stack = list(roots)
        while stack:
            n = stack.pop()
            if isinstance(n, ast.Name) and n.id == name and isinstance(n.ctx, ast.Load):
                return True
            if isinstance(n, ast.BoolOp):
                stack.append(n.values[0])
            elif isinstance(n, ast.IfExp):
                stack.append(n.test)
            elif isinstance(n, (ast.ListComp, ast.SetComp, ast.DictComp, ast.GeneratorExp)):
                stack.append(n.generators[0].iter)
            elif isinstance(n, ast.Lambda):
                pass
            else:
                stack.extend(ast.iter_child_nodes(n))
        return False

    READ_PREFIXES = ('get_', 'is_', 'has_', 'find_', 'iterate_', 'iter_', 'traverse', 'filter_', 'reversed_')
    READ_METHODS = {'index', 'count', 'startswith', 'endswith', 'split', 'rsplit', 'join', 'strip', 'lstrip', 'rstrip', 'items', 'keys', 'values', 'get', 'copy', 'lower', 'upper',
                    'capitalize', 'format', 'replace', 'isdigit', 'isupper', 'islower', 'find', 'group', 'groups', 'match', 'fullmatch', 'search', 'findall', 'debug', 'info',
                    'warning', 'error', '__deepcopy__', '__copy__'}

    @staticmethod
    def _root_name(e):
        while isinstance(e, (ast.Attribute, ast.Subscript, ast.Call)):
            e = e.func if isinstance(e, ast.Call) else e.value
        return e.id if isinstance(e, ast.Name) else None

    def _value_stable(self, fn, def_stmt, x, value) -> bool:
        """`value` denotes the same object at every use of x as at the definition: between the definition and a use nothing is executed that
        may change what the objects named in `value` refer to.  Interfering: a call of a method that is not a reader (get_* / is_* / find_* /
        iterate_* ..., str and dict readers) whose receiver or one of whose arguments starts at a name of `value` (for an accessor call also at x
        itself: editing the returned node may change the back pointer the accessor reads); a call of a plain function of the program with such an
        argument or of a function nested in fn; a store / del / augmented store through such a name.  A statement interferes with a use when it
        lies between definition and use in source order (the statement of the use itself excluded: receiver and arguments are evaluated before
        the call is made), or when both sit in a loop that does not contain the definition.  Distinct local names are taken to denote distinct
        objects (stated assumption)."""
        if isinstance(value, ast.Constant):
            return True
        roots = {n.id for n in ast.walk(value) if isinstance(n, ast.Name)} - self.PURE_FUNCS
        has_call = any(isinstance(n, ast.Call) and isinstance(n.func, ast.Attribute) for n in ast.walk(value))
        has_item = any(isinstance(n, ast.Subscript) for n in ast.walk(value))
        chain_fields = {n.attr for n in ast.walk(value) if isinstance(n, ast.Attribute)}
        # a pure attribute chain over fields whose binding only constructors and their own setters change: no call can make it denote another object
        calls_matter = has_call or has_item or not all(f_.lstrip('_') in self.stable_fields for f_ in chain_fields)
        if has_call:
            roots = roots | {x}
        nested = {n.name for n in ast.walk(fn) if isinstance(n, (ast.FunctionDef, ast.AsyncFunctionDef)) and n is not fn}
        order, loops_of, stmt_of, branch_of = [], {}, {}, {}

        def number(stmts, loops, branches=()):
            for s in stmts:
                order.append(s)
                loops_of[id(s)] = loops
                branch_of[id(s)] = branches
                inner = loops + [s] if isinstance(s, (ast.For, ast.While)) else loops
                own = [s]
                while own:
                    n = own.pop()
                    stmt_of[id(n)] = s
                    for c in ast.iter_child_nodes(n):
                        if not isinstance(c, ast.stmt) and not isinstance(c, ast.ExceptHandler):
                            own.append(c)
                if isinstance(s, (ast.FunctionDef, ast.AsyncFunctionDef, ast.ClassDef)):
                    # the body runs when the function is called: its uses are handled by the caller of this method
                    for n in ast.walk(s):
                        stmt_of.setdefault(id(n), s)
                    continue
                for field in ('body', 'orelse', 'finalbody'):
                    sub = getattr(s, field, None)
                    if isinstance(sub, list) and sub and isinstance(sub[0], ast.stmt):
                        number(sub, inner, branches + ((id(s), field),) if isinstance(s, ast.If) else branches)
                for h in getattr(s, 'handlers', []) or []:
                    number(h.body, inner, branches)
        number(fn.body, [])

        def exclusive(a, b) -> bool:
            """a and b sit in different branches of one `if`: within one pass over the enclosing statement list only one of them runs"""
            fa = dict(branch_of[id(a)])
            return any(k in fa and fa[k] != f_ for k, f_ in branch_of[id(b)])
        pos = {id(s): k for k, s in enumerate(order)}
        if id(def_stmt) not in pos:
            return False
        d = pos[id(def_stmt)]

        def interferes(s) -> bool:
            own = [s]
            nodes = []
            while own:
                n = own.pop()
                nodes.append(n)
                for c in ast.iter_child_nodes(n):
                    if not isinstance(c, (ast.stmt, ast.ExceptHandler)):
                        own.append(c)
            for n in nodes:
                if isinstance(n, ast.Call) and calls_matter:
                    args = list(n.args) + [k.value for k in n.keywords]
                    arg_roots = {self._root_name(a.value if isinstance(a, ast.Starred) else a) for a in args}
                    if isinstance(n.func, ast.Attribute):
                        if n.func.attr.lstrip('_').startswith(self.READ_PREFIXES) or n.func.attr in self.READ_METHODS:
                            continue
                        if self._root_name(n.func.value) in roots or arg_roots & roots:
                            return True
                    elif isinstance(n.func, ast.Name):
                        if n.func.id in nested:
                            return True
                        if n.func.id in self.PURE_FUNCS or n.func.id in ('isinstance', 'len', 'enumerate', 'sorted', 'list', 'tuple', 'set', 'dict', 'zip', 'reversed', 'range',
                                                                        'min', 'max', 'sum', 'any', 'all', 'print', 'repr', 'id', 'getattr', 'super', 'iter', 'next', 'bool'):
                            continue
                        if arg_roots & roots:
                            return True
                    elif arg_roots & roots:
                        return True
                elif isinstance(n, ast.Attribute) and isinstance(n.ctx, (ast.Store, ast.Del)):
                    if n.attr in chain_fields or n.attr.lstrip('_') in {c_.lstrip('_') for c_ in chain_fields}:
                        return True         # through whatever name: the object may be the one the chain passes through
                elif isinstance(n, ast.Subscript) and isinstance(n.ctx, (ast.Store, ast.Del)):
                    if (has_call or has_item) and self._root_name(n) in roots:
                        return True
            return False
        # a raise ends the function (unless fn has handlers of its own): what its operand does to the objects is not seen by any later use
        has_try = any(isinstance(n, ast.Try) for n in ast.walk(fn))
        bad = [s for s in order if pos[id(s)] > d and not isinstance(s, (ast.FunctionDef, ast.AsyncFunctionDef, ast.ClassDef)) and
               not (isinstance(s, (ast.Raise, ast.Return)) and not has_try) and interferes(s)]
        if not bad:
            return True
        def_loops = {id(l) for l in loops_of[id(def_stmt)]}
        for n in ast.walk(fn):
            if isinstance(n, ast.Name) and n.id == x and isinstance(n.ctx, ast.Load):
                us = stmt_of.get(id(n))
                if us is None:
                    return False
                if isinstance(us, (ast.FunctionDef, ast.AsyncFunctionDef, ast.ClassDef)):
                    return False                # used in a nested function that may run after an interfering statement
                u = pos[id(us)]
                use_loops = {id(l) for l in loops_of[id(us)]} | ({id(us)} if isinstance(us, (ast.For, ast.While)) else set())
                for b in bad:
                    if d < pos[id(b)] < u and not exclusive(b, us):
                        return False
                    shared = (use_loops & ({id(l) for l in loops_of[id(b)]} | ({id(b)} if isinstance(b, (ast.For, ast.While)) else set()))) - def_loops
                    if shared:
                        return False
        return True

    method_names: Set[str] = set()

    def _builtin_bound_method(self, fn, value, defs) -> bool:
        """`o.m` where o is a local bound once to a dict / list / set display (or comprehension) and m is a method of that type, or o is bound once to
        a freshly constructed object (`self.__class__(...)`, `cls(...)`, `ClassName(...)`) / is `self`, and m is the name of a method defined in the
        program and never stored as an attribute: fetching it cannot raise and what it denotes does not depend on what happens to the object meanwhile"""
        if not (isinstance(value, ast.Attribute) and isinstance(value.value, ast.Name)):
            return False
        is_method = value.attr in self.method_names and value.attr.lstrip('_') not in self.stored_anywhere
        if value.value.id == 'self' and fn.args.args and fn.args.args[0].arg == 'self' and defs.get('self', 0) == 1:
            return is_method
        if defs.get(value.value.id, 0) != 1:
            return False
        for n in ast.walk(fn):
            if isinstance(n, ast.Assign) and len(n.targets) == 1 and isinstance(n.targets[0], ast.Name) and n.targets[0].id == value.value.id:
                ty = {ast.Dict: dict, ast.DictComp: dict, ast.List: list, ast.ListComp: list, ast.Set: set, ast.SetComp: set}.get(type(n.value))
                if ty is not None:
                    return callable(getattr(ty, value.attr, None))
                v = n.value
                if isinstance(v, ast.Call) and (unparse_(v.func) in ('self.__class__', 'cls', 'type(self)') or isinstance(v.func, ast.Name) and v.func.id[:1].isupper()):
                    return is_method
        return False

    stored_anywhere: Set[str] = set()

    def _exception_point_kept(self, lst, i, x, value) -> bool:
        """moving the evaluation of `value` from lst[i] to the uses of x keeps what is raised and when: value cannot raise, or the first use follows
        in the same statement list, is evaluated unconditionally, and only transparent statements lie in between"""
        if not self._may_raise(value):
            return True
        for j in range(i + 1, len(lst)):
            if any(isinstance(n, ast.Name) and n.id == x and isinstance(n.ctx, ast.Load) for n in ast.walk(lst[j])):
                return self._evaluated_first_in(lst[j], x)
            if not self._transparent(lst[j]):
                return False
        return False

    def _propagate_aliases(self, fn) -> bool:
        """`x = <substitutable expression>` with x bound exactly once in the function: every later use of x is that expression.  The expression
        is moved only when the point at which it may raise stays the same (`_exception_point_kept`)."""
        uses, defs = self._use_def_counts(fn)
        stored_attrs = {n.attr for n in ast.walk(fn) if isinstance(n, ast.Attribute) and isinstance(n.ctx, (ast.Store, ast.Del))}
        MUTATORS = {'add_child', 'remove', 'replace_child', 'append', 'insert', 'pop', 'extend', 'clear', 'duplicate', 'add_element', 'add_xml_element', '_add_duplication_parent'}
        self._read_only_fn = not any(isinstance(n, ast.Call) and isinstance(n.func, ast.Attribute) and n.func.attr in MUTATORS for n in ast.walk(fn)) and \
            not any(isinstance(n, ast.Subscript) and isinstance(n.ctx, (ast.Store, ast.Del)) for n in ast.walk(fn))
        # attributes written through list / dict edits of `x.attr` do not rebind x.attr itself
        multi_def = {k for k, v in defs.items() if v > 1}
        nested_scopes = [n for n in ast.walk(fn) if isinstance(n, (ast.FunctionDef, ast.Lambda)) and n is not fn]
        changed = False
        for lst in Inliner._stmt_lists(fn):
            i = 0
            while i < len(lst):
                st = lst[i]
                if isinstance(st, ast.Assign) and len(st.targets) == 1 and isinstance(st.targets[0], ast.Name):
                    x = st.targets[0].id
                    allowed = set()
                    if isinstance(st.value, ast.Attribute) and i > 0 and isinstance(lst[i - 1], ast.Assign) and len(lst[i - 1].targets) == 1 and \
                            ast.dump(lst[i - 1].targets[0]).replace('Store()', 'Load()') == ast.dump(st.value) and \
                            sum(1 for n in ast.walk(fn) if isinstance(n, ast.Attribute) and n.attr == st.value.attr and isinstance(n.ctx, (ast.Store, ast.Del))) == 1:
                        allowed = {st.value.attr}       # `obj.f = E` ; `x = obj.f` and obj.f is stored nowhere else: x is obj.f throughout
                    if defs.get(x, 0) == 1 and uses.get(x, 0) >= 1 and not isinstance(st.value, ast.Name) and \
                            self._substitutable(st.value, stored_attrs - allowed, multi_def) and \
                            not any(isinstance(n, ast.Name) and n.id == x for n in ast.walk(st.value)):
                        # the attribute the alias stands for may be stored by the very statement before (`self.f = E; x = self.f`): allowed when that
                        # is its only store in the function
                        value = st.value

                        class R(ast.NodeTransformer):
                            def visit_Name(self, node):
                                if node.id == x and isinstance(node.ctx, ast.Load):
                                    return ast.copy_location(copy.deepcopy(value), node)
                                return node
                        # uses before the definition (loops) would change meaning: require the definition to precede every use textually
                        first_use = min((n.lineno for n in ast.walk(fn) if isinstance(n, ast.Name) and n.id == x and isinstance(n.ctx, ast.Load) and hasattr(n, 'lineno')), default=None)
                        safe = first_use is not None and first_use >= getattr(st, 'lineno', 0) and \
                            (self._builtin_bound_method(fn, value, defs) and 'move' or self._value_stable(fn, st, x, value) and
                             (self._exception_point_kept(lst, i, x, value) and 'move' or 'keep'))
                        if safe:
                            if safe == 'move':
                                del lst[i]
                                if not lst:
                                    lst.append(ast.copy_location(ast.Pass(), st))
                            else:
                                # the value is the same at every use, but evaluating it may raise and its first use is not right behind the
                                # definition: the evaluation stays where it is (for what it may raise), the uses are written out
                                lst[i] = ast.copy_location(ast.Expr(value=copy.deepcopy(value)), st)
                                self.counts['P-keep'] = self.counts.get('P-keep', 0) + 1
                            R().visit(fn)
                            ast.fix_missing_locations(fn)
                            self.counts['P'] = self.counts.get('P', 0) + 1
                            uses, defs = self._use_def_counts(fn)
                            multi_def = {k for k, v in defs.items() if v > 1}
                            changed = True
                            continue
                i += 1
        return changed

    def _lists(self, fn) -> bool:
        changed = False
        uses, defs = self._use_def_counts(fn)

        def strip_not(test):
            n = 0
            while isinstance(test, ast.UnaryOp) and isinstance(test.op, ast.Not) and isinstance(test.operand, ast.UnaryOp) and isinstance(test.operand.op, ast.Not):
                test = test.operand.operand
                n += 1
            return test, n

        def do(lst):
            nonlocal changed
            i = 0
            while i < len(lst):
                st = lst[i]
                # `pass` next to other statements, `else: pass`, `if c: pass else: B` (what guard clauses leave behind when a helper is expanded)
                if isinstance(st, ast.Pass) and len(lst) > 1:
                    del lst[i]
                    self.counts['Z'] = self.counts.get('Z', 0) + 1
                    changed = True
                    continue
                if isinstance(st, ast.If):
                    only_pass = lambda b: len(b) == 1 and isinstance(b[0], ast.Pass)
                    if st.orelse and only_pass(st.orelse):
                        st.orelse = []
                        self.counts['Z'] = self.counts.get('Z', 0) + 1
                        changed = True
                    # (a dispatch `if n == 0: pass / elif n == 1: .. / else: ..` keeps its cases: only a plain alternative is flipped)
                    if only_pass(st.body) and st.orelse and not (len(st.orelse) == 1 and isinstance(st.orelse[0], ast.If) and st.orelse[0].orelse):
                        st.test = ast.UnaryOp(op=ast.Not(), operand=st.test)
                        st.body, st.orelse = st.orelse, []
                        self.counts['Z'] = self.counts.get('Z', 0) + 1
                        changed = True
                # `for x in iter(E)` -> `for x in E`
                if isinstance(st, ast.For) and isinstance(st.iter, ast.Call) and isinstance(st.iter.func, ast.Name) and st.iter.func.id == 'iter' and len(st.iter.args) == 1 \
                        and not st.iter.keywords:
                    st.iter = st.iter.args[0]
                    self.counts['W'] = self.counts.get('W', 0) + 1
                    changed = True
                # `if C: t = True else: t = False` -> `t = C` ; `if C: return True else: return False` -> `return C` (C a comparison / boolean test)
                if isinstance(st, ast.If) and len(st.body) == 1 and len(st.orelse) == 1 and type(st.body[0]) is type(st.orelse[0]) and \
                        isinstance(st.body[0], (ast.Assign, ast.Return)) and self._boolean_valued(st.test):
                    a, b = st.body[0], st.orelse[0]
                    va, vb = a.value, b.value
                    if isinstance(va, ast.Constant) and isinstance(vb, ast.Constant) and {va.value, vb.value} == {True, False} and va.value is not vb.value and \
                            (isinstance(a, ast.Return) or (len(a.targets) == 1 and len(b.targets) == 1 and ast.dump(a.targets[0]) == ast.dump(b.targets[0]))):
                        val = st.test if va.value is True else ast.UnaryOp(op=ast.Not(), operand=st.test)
                        new_st = ast.Return(value=val) if isinstance(a, ast.Return) else ast.Assign(targets=a.targets, value=val)
                        st = lst[i] = ast.fix_missing_locations(ast.copy_location(new_st, st))
                        self.counts['R'] = self.counts.get('R', 0) + 1
                        changed = True
                # `name = obj.attr = E`  ->  `obj.attr = E` ; `name = obj.attr`
                if isinstance(st, ast.Assign) and len(st.targets) == 2 and {type(t) for t in st.targets} == {ast.Name, ast.Attribute}:
                    nt = next(t for t in st.targets if isinstance(t, ast.Name))
                    at = next(t for t in st.targets if isinstance(t, ast.Attribute))
                    first = ast.copy_location(ast.Assign(targets=[at], value=st.value), st)
                    load = copy.deepcopy(at)
                    load.ctx = ast.Load()
                    second = ast.fix_missing_locations(ast.copy_location(ast.Assign(targets=[nt], value=load), st))
                    lst[i:i + 1] = [first, second]
                    st = first
                    self.counts['M'] = self.counts.get('M', 0) + 1
                    changed = True
                # debug / info records of the logging module are not emitted by an unconfigured process: no observable effect
                if isinstance(st, ast.Expr) and isinstance(st.value, ast.Call) and isinstance(st.value.func, ast.Attribute) and st.value.func.attr in ('debug', 'info') \
                        and 'log' in unparse_(st.value.func.value).lower() and len(lst) > 1:
                    del lst[i]
                    self.counts['L'] = self.counts.get('L', 0) + 1
                    changed = True
                    continue
                # `x = a if c else b` / `return a if c else b` -> if c: ... else: ...
                if isinstance(st, (ast.Assign, ast.Return)) and isinstance(st.value, ast.IfExp):
                    ife = st.value
                    if isinstance(st, ast.Assign):
                        a = ast.Assign(targets=st.targets, value=ife.body)
                        b = ast.Assign(targets=[copy.deepcopy(t) for t in st.targets], value=ife.orelse)
                    else:
                        a, b = ast.Return(value=ife.body), ast.Return(value=ife.orelse)
                    new_if = ast.If(test=ife.test, body=[ast.copy_location(a, st)], orelse=[ast.copy_location(b, st)])
                    st = lst[i] = ast.fix_missing_locations(ast.copy_location(new_if, st))
                    self.counts['I'] = self.counts.get('I', 0) + 1
                    changed = True
                if isinstance(st, ast.AnnAssign) and st.value is not None and isinstance(st.target, (ast.Name, ast.Attribute)):
                    st = lst[i] = ast.copy_location(ast.Assign(targets=[st.target], value=st.value), st)
                    self.counts['N'] = self.counts.get('N', 0) + 1
                    changed = True
                if isinstance(st, (ast.If, ast.While)):
                    t, n = strip_not(st.test)
                    if n:
                        st.test = t
                        self.counts['A'] += 1
                        changed = True
                if isinstance(st, ast.If):
                    # A
                    if isinstance(st.test, ast.UnaryOp) and isinstance(st.test.op, ast.Not) and st.orelse and not (len(st.orelse) == 1 and isinstance(st.orelse[0], ast.If)):
                        st.test = st.test.operand
                        st.body, st.orelse = st.orelse, st.body
                        self.counts['A'] += 1
                        changed = True
                    # B
                    if not st.orelse and len(st.body) == 1 and isinstance(st.body[0], ast.If) and not st.body[0].orelse:
                        inner = st.body[0]
                        vals = (st.test.values if isinstance(st.test, ast.BoolOp) and isinstance(st.test.op, ast.And) else [st.test]) + \
                               (inner.test.values if isinstance(inner.test, ast.BoolOp) and isinstance(inner.test.op, ast.And) else [inner.test])
                        st.test = ast.copy_location(ast.BoolOp(op=ast.And(), values=list(vals)), st.test)
                        st.body = inner.body
                        self.counts['B'] += 1
                        changed = True
                    # C
                    if st.orelse and _terminates(st.body) and not (len(st.orelse) == 1 and isinstance(st.orelse[0], ast.If) and False):
                        rest = st.orelse
                        st.orelse = []
                        lst[i + 1:i + 1] = rest
                        self.counts['C'] += 1
                        changed = True
                # G: `x = E` immediately followed by `obj.f = x` (x bound once, .f stored once in the function): the field is the name of the object
                # (not for a zero-argument accessor `o.get_y()`: the alias pass writes the accessor at the uses, which keeps the receiver's type visible)
                if isinstance(st, ast.Assign) and len(st.targets) == 1 and isinstance(st.targets[0], ast.Name) and i + 1 < len(lst) and \
                        isinstance(st.value, ast.Call) and not (isinstance(st.value.func, ast.Attribute) and st.value.func.attr.startswith('get_') and
                                                                not st.value.args and not st.value.keywords):
                    x = st.targets[0].id
                    nxt = lst[i + 1]
                    if defs.get(x, 0) == 1 and isinstance(nxt, ast.Assign) and len(nxt.targets) == 1 and isinstance(nxt.targets[0], ast.Attribute) and \
                            isinstance(nxt.value, ast.Name) and nxt.value.id == x and isinstance(nxt.targets[0].value, ast.Name) and \
                            sum(1 for n in ast.walk(fn) if isinstance(n, ast.Attribute) and n.attr == nxt.targets[0].attr and isinstance(n.ctx, (ast.Store, ast.Del))) == 1:
                        field = nxt.targets[0]
                        load = copy.deepcopy(field)
                        load.ctx = ast.Load()

                        class RG(ast.NodeTransformer):
                            def visit_Name(self, node):
                                if node.id == x and isinstance(node.ctx, ast.Load):
                                    return ast.copy_location(copy.deepcopy(load), node)
                                return node
                        nxt.value = st.value
                        del lst[i]
                        for later in lst[i + 1:]:
                            RG().visit(later)
                        self.counts['G'] = self.counts.get('G', 0) + 1
                        changed = True
                        continue
                # E: `y = RHS ... x = y` (y defined once, used once - by that copy - and x untouched in between) -> `x = RHS ...`
                if isinstance(st, ast.Assign) and len(st.targets) == 1 and isinstance(st.targets[0], ast.Name):
                    y = st.targets[0].id
                    if defs.get(y, 0) == 1 and uses.get(y, 0) == 1:
                        for j in range(i + 2, len(lst)):
                            cj = lst[j]
                            if isinstance(cj, ast.Assign) and len(cj.targets) == 1 and isinstance(cj.targets[0], ast.Name) and isinstance(cj.value, ast.Name) and cj.value.id == y:
                                x = cj.targets[0].id
                                between = [n for k in range(i + 1, j) for n in ast.walk(lst[k]) if isinstance(n, ast.Name) and n.id == x]
                                in_rhs = [n for n in ast.walk(st.value) if isinstance(n, ast.Name) and n.id == x]
                                if not between and x != y:
                                    st.targets[0].id = x
                                    del lst[j]
                                    defs[x] = defs.get(x, 1)          # one definition moved, one removed
                                    uses[y] = 0
                                    self.counts['E'] = self.counts.get('E', 0) + 1
                                    changed = True
                                break
                            if any(isinstance(n, ast.Name) and n.id == y for n in ast.walk(cj)):
                                break
                # D
                if isinstance(st, ast.Assign) and len(st.targets) == 1 and isinstance(st.targets[0], ast.Name) and i + 1 < len(lst):
                    name = st.targets[0].id
                    nxt = lst[i + 1]
                    if defs.get(name, 0) == 1 and uses.get(name, 0) == 1 and not isinstance(st.value, (ast.Constant, ast.List, ast.Dict, ast.Set, ast.ListComp, ast.DictComp, ast.SetComp, ast.GeneratorExp, ast.Lambda, ast.Yield, ast.Await)) \
                            and self._single_use_in(nxt, name):
                        self._replace_use(nxt, name, st.value)
                        del lst[i]
                        uses[name] = 0
                        self.counts['D'] += 1
                        changed = True
                        continue
                for field in ('body', 'orelse', 'finalbody'):
                    sub = getattr(st, field, None)
                    if isinstance(sub, list) and sub and isinstance(sub[0], ast.stmt) and not isinstance(st, SCOPES):
                        do(sub)
                if isinstance(st, ast.Try):
                    for h in st.handlers:
                        do(h.body)
                i += 1
        do(fn.body)
        return changed

    @staticmethod
    def _use_def_counts(fn):
        uses, defs = {}, {}
        for n in ast.walk(fn):
            if isinstance(n, ast.Name):
                if isinstance(n.ctx, ast.Load):
                    uses[n.id] = uses.get(n.id, 0) + 1
                else:
                    defs[n.id] = defs.get(n.id, 0) + 1
            elif isinstance(n, ast.arg):
                defs[n.arg] = defs.get(n.arg, 0) + 1
            elif isinstance(n, (ast.Global, ast.Nonlocal)):
                for x in n.names:
                    defs[x] = defs.get(x, 0) + 2
        return uses, defs

    @staticmethod
    def _single_use_in(stmt, name) -> bool:
        """the one use is in the header of stmt (not inside a nested block, loop body, comprehension or lambda: those may run 0 or many times)"""
        if isinstance(stmt, (ast.Assign, ast.AugAssign, ast.AnnAssign, ast.Expr, ast.Return, ast.Raise, ast.Assert)):
            roots = [stmt]
        elif isinstance(stmt, (ast.If, ast.While)):
            if isinstance(stmt, ast.While):
                return False
            roots = [stmt.test]
        elif isinstance(stmt, ast.For):
            roots = [stmt.iter]
        else:
            return False
        hits = 0
        for r in roots:
            stack = [r]
            while stack:
                n = stack.pop()
                if isinstance(n, (ast.ListComp, ast.SetComp, ast.DictComp, ast.GeneratorExp, ast.Lambda, ast.IfExp, ast.BoolOp)):
                    if any(isinstance(m, ast.Name) and m.id == name for m in ast.walk(n)):
                        # allowed only as the first iterable of a comprehension (evaluated once, immediately)
                        if isinstance(n, (ast.ListComp, ast.SetComp, ast.DictComp, ast.GeneratorExp)) and \
                                any(isinstance(m, ast.Name) and m.id == name for m in ast.walk(n.generators[0].iter)) and \
                                sum(1 for m in ast.walk(n) if isinstance(m, ast.Name) and m.id == name) == 1:
                            hits += 1
                            continue
                        return False
                    continue
                if isinstance(n, ast.Name) and n.id == name and isinstance(n.ctx, ast.Load):
                    hits += 1
                stack.extend(ast.iter_child_nodes(n))
        return hits == 1

    @staticmethod
    def _replace_use(stmt, name, value):
        class R(ast.NodeTransformer):
            def visit_Name(self, node):
                if node.id == name and isinstance(node.ctx, ast.Load):
                    return ast.copy_location(copy.deepcopy(value), node)
                return node
        if isinstance(stmt, ast.If):
            stmt.test = R().visit(stmt.test)
        elif isinstance(stmt, ast.For):
            stmt.iter = R().visit(stmt.iter)
        else:
            R().visit(stmt)
        ast.fix_missing_locations(stmt)


def _signatures(sm) -> Dict[str, Optional[List[List[str]]]]:
    """callable name -> positional parameter names (without the receiver), None when definitions of that name disagree"""
    sigs: Dict[str, Optional[List[str]]] = {}

    def add(name, params):
        if name in sigs and sigs[name] is None:
            return
        sigs.setdefault(name, [])
        if params not in sigs[name]:
            sigs[name].append(params)
    for m in sm.modules.values():
        for st in m.tree.body:
            if isinstance(st, ast.FunctionDef) and not st.args.vararg and not st.args.kwarg:
                add(st.name, [a.arg for a in st.args.posonlyargs + st.args.args])
            elif isinstance(st, ast.ClassDef):
                for f in st.body:
                    if isinstance(f, ast.FunctionDef):
                        if f.args.vararg or f.args.kwarg or any(isinstance(d, ast.Name) and d.id in ('property',) or isinstance(d, ast.Attribute) for d in f.decorator_list):
                            if f.name != '__init__':
                                sigs[f.name] = None
                            continue
                        static = any(isinstance(d, ast.Name) and d.id == 'staticmethod' for d in f.decorator_list)
                        ps = [a.arg for a in f.args.posonlyargs + f.args.args][0 if static else 1:]
                        if f.name == '__init__':
                            continue
                        add(f.name, ps)
    return sigs


class _KwToPos(ast.NodeTransformer):
    """`f(a, name=b)` -> `f(a, b)` when the keywords continue the positional arguments in parameter order"""
    def __init__(self, sigs):
        self.sigs = sigs
        self.n = 0

    def visit_Call(self, node):
        self.generic_visit(node)
        if not node.keywords or any(k.arg is None for k in node.keywords) or any(isinstance(a, ast.Starred) for a in node.args):
            return node
        name = node.func.attr if isinstance(node.func, ast.Attribute) else node.func.id if isinstance(node.func, ast.Name) else None
        defs = self.sigs.get(name) if name else None
        if not defs:
            return node
        ps = {}
        for k in node.keywords:
            where = {d.index(k.arg) for d in defs if k.arg in d}
            if len(where) != 1:
                return node          # unknown keyword, or the definitions of this name disagree on its position
            ps[k.arg] = next(iter(where))
        if isinstance(node.func, ast.Attribute) and isinstance(node.func.value, ast.Call) and isinstance(node.func.value.func, ast.Name) and node.func.value.func.id == 'super':
            return node
        idx = sorted(((ps[k.arg], k) for k in node.keywords), key=lambda x: x[0])
        p = len(node.args)
        if [i for i, _ in idx] != list(range(p, p + len(idx))):
            return node
        node.args = list(node.args) + [k.value for _, k in idx]
        node.keywords = []
        self.n += 1
        return node


def propagate_new_module_constants(sm, inv) -> Tuple[int, Set[str]]:
    """A module-level name that is not in the reference inventory, bound exactly once to a literal (a new named constant such as
    `_XML_FILE_ENCODING = 'utf-8'`), is replaced by the literal inside the functions of its module."""
    known = inv.get('module_names', {})
    n_sub = 0
    changed = set()
    for m in sm.modules.values():
        if not m.name.startswith('musicxml'):
            continue
        ref = set(known.get(m.relpath, []))
        binds: Dict[str, list] = {}
        for st in m.tree.body:
            tg = st.targets if isinstance(st, ast.Assign) else [st.target] if isinstance(st, ast.AnnAssign) and st.value is not None else []
            for t in tg:
                if isinstance(t, ast.Name):
                    binds.setdefault(t.id, []).append(st.value)
        consts = {k: v[0] for k, v in binds.items() if k not in ref and len(v) == 1 and isinstance(v[0], ast.Constant) and
                  isinstance(v[0].value, (str, int, float, bool, type(None)))}
        if not consts:
            continue
        rebound = {n.id for n in ast.walk(m.tree) if isinstance(n, ast.Name) and isinstance(n.ctx, ast.Store) and n.id in consts}
        rebound_in_funcs = set()
        for q, node, cls, parent in module_function_quals(m.tree):
            for n in ast.walk(node):
                if isinstance(n, (ast.Global, ast.Nonlocal)):
                    rebound_in_funcs |= set(n.names)
                if isinstance(n, ast.Name) and isinstance(n.ctx, ast.Store) and n.id in consts:
                    rebound_in_funcs.add(n.id)
                if isinstance(n, ast.arg) and n.arg in consts:
                    rebound_in_funcs.add(n.arg)
        usable = {k: v for k, v in consts.items() if k not in rebound_in_funcs}
        if not usable:
            continue

        class R(ast.NodeTransformer):
            def visit_Name(self, node):
                nonlocal n_sub
                if isinstance(node.ctx, ast.Load) and node.id in usable:
                    n_sub += 1
                    return ast.copy_location(ast.Constant(value=usable[node.id].value), node)
                return node
        for q, node, cls, parent in module_function_quals(m.tree):
            if parent is None:
                before = n_sub
                R().visit(node)
                if n_sub != before:
                    changed.add(m.name)
    return n_sub, changed


def propagate_new_class_constants(sm, inv) -> Tuple[int, Set[str]]:
    """A class-level name that is not in the reference inventory, bound in exactly one class body of the program to a literal, stored nowhere else
    (no `.NAME = ...`, no setattr with that name): `self.NAME` / `cls.NAME` / `Class.NAME` is that literal (a new named constant such as
    `_XML_DECLARATION = '<?xml ...'`)."""
    known = set(inv.get('fields', {}))
    binds: Dict[str, list] = {}
    for m in sm.modules.values():
        if not m.name.startswith('musicxml'):
            continue
        for c in [n for n in ast.walk(m.tree) if isinstance(n, ast.ClassDef)]:
            for st in c.body:
                tg = st.targets if isinstance(st, ast.Assign) else [st.target] if isinstance(st, ast.AnnAssign) and st.value is not None else []
                for t in tg:
                    if isinstance(t, ast.Name):
                        binds.setdefault(t.id, []).append(st.value)
    consts = {k: v[0] for k, v in binds.items() if k not in known and len(v) == 1 and isinstance(v[0], ast.Constant) and isinstance(v[0].value, (str, int, float, bool))}
    if not consts:
        return 0, set()
    for m in sm.modules.values():
        for n in ast.walk(m.tree):
            if isinstance(n, ast.Attribute) and isinstance(n.ctx, (ast.Store, ast.Del)):
                consts.pop(n.attr, None)
            elif isinstance(n, ast.Call) and isinstance(n.func, ast.Name) and n.func.id in ('setattr', 'delattr') and len(n.args) >= 2:
                if isinstance(n.args[1], ast.Constant):
                    consts.pop(n.args[1].value, None)
                else:
                    pass        # computed names: the library's own setattr calls carry attribute / child names, never a private constant
            elif isinstance(n, (ast.FunctionDef, ast.AsyncFunctionDef)) and n.name in consts:
                consts.pop(n.name, None)
    n_sub = 0
    changed = set()

    class R(ast.NodeTransformer):
        def visit_Attribute(self, node):
            nonlocal n_sub
            self.generic_visit(node)
            if isinstance(node.ctx, ast.Load) and node.attr in consts and isinstance(node.value, ast.Name):
                n_sub += 1
                return ast.copy_location(ast.Constant(value=consts[node.attr].value), node)
            return node
    if consts:
        for m in sm.modules.values():
            if not m.name.startswith('musicxml'):
                continue
            for q, node, cls, parent in module_function_quals(m.tree):
                if parent is None:
                    before = n_sub
                    R().visit(node)
                    if n_sub != before:
                        changed.add(m.name)
    return n_sub, changed


def canonicalise(sm) -> dict:
    canon = Canon()
    canon.stable_fields = call_stable_fields(sm)
    for m in sm.modules.values():
        if m.name.startswith('musicxml') or m.name == 'verysimpletree.tree':
            for c in [n for n in ast.walk(m.tree) if isinstance(n, ast.ClassDef)]:
                canon.method_names |= {f.name for f in c.body if isinstance(f, (ast.FunctionDef, ast.AsyncFunctionDef)) and not f.decorator_list}
            canon.stored_anywhere |= {n.attr.lstrip('_') for n in ast.walk(m.tree) if isinstance(n, ast.Attribute) and isinstance(n.ctx, (ast.Store, ast.Del))}
    changed = set()
    kw = _KwToPos(_signatures(sm))
    for m in sm.modules.values():
        if not (m.name.startswith('musicxml') or m.name == 'verysimpletree.tree'):
            continue
        before = kw.n
        for q, node, cls, parent in module_function_quals(m.tree):
            if parent is None:
                kw.visit(node)
        if kw.n != before:
            changed.add(m.name)
    canon.counts['K'] = kw.n
    for m in sm.modules.values():
        if not (m.name.startswith('musicxml') or m.name == 'verysimpletree.tree'):
            continue
        for q, node, cls, parent in module_function_quals(m.tree):
            if canon.function(node):          # nested functions are functions of their own (their parent's pass does not descend into them)
                changed.add(m.name)
    return {'rewrites': canon.counts, 'changed_modules': sorted(changed)}


def normalise(sm) -> dict:
    inv = load_inventory()
    if inv is None:
        from .srcmodel import AnalysisError
        raise AnalysisError("reference/functions.json (inventory of the functions the rules were written against) is missing")
    ren = Renamer(sm, inv)
    ren.detect_functions()
    ren.detect_fields()
    renamed_modules = ren.apply()
    inl = Inliner(sm, inv)
    inl.changed_modules |= renamed_modules
    inl.run()
    n_const, const_mods = propagate_new_module_constants(sm, inv)
    inl.changed_modules |= const_mods
    n_cconst, cconst_mods = propagate_new_class_constants(sm, inv)
    inl.changed_modules |= cconst_mods
    n_const += n_cconst
    can = canonicalise(sm) if os.environ.get('MXSA_NO_CANON') != '1' else {'rewrites': {}, 'changed_modules': []}
    can['rewrites']['module_constants'] = n_const
    inl.changed_modules |= set(can['changed_modules'])
    new_funcs = sorted(f"{d[0].relpath}::{d[1]}" for ds in inl.new_defs.values() for d in ds)
    return {'enabled': True, 'functions_not_in_reference_inventory': new_funcs, 'inlined_calls': inl.log, 'calls_left_as_calls': inl.not_inlined,
            'helpers_removed_after_inlining': getattr(inl, 'dropped', []), 'canonical_rewrites': can['rewrites'], 'functions_renamed_back': ren.function_renames, 'fields_renamed_back': ren.field_renames, 'changed_modules': sorted(inl.changed_modules)}
