"""Particle tree -> NFA (Thompson with bounded occurrence unrolling) -> DFA; language equivalence with a
shortest distinguishing word."""
from collections import deque
from typing import Dict, List, Optional, Set, Tuple

from .xsdmodel import Particle

UNROLL_LIMIT = 16


class NFA:
    def __init__(self):
        self.n = 0
        self.eps: Dict[int, Set[int]] = {}
        self.trans: Dict[int, Dict[str, Set[int]]] = {}

    def new(self) -> int:
        self.n += 1
        return self.n - 1

    def add_eps(self, a, b):
        self.eps.setdefault(a, set()).add(b)

    def add(self, a, sym, b):
        self.trans.setdefault(a, {}).setdefault(sym, set()).add(b)


def _build(nfa: NFA, p: Particle) -> Tuple[int, int]:
    """returns (start, end) of a fragment accepting p with its occurrence bounds."""
    def once() -> Tuple[int, int]:
        if p.kind == 'element':
            s, e = nfa.new(), nfa.new()
            nfa.add(s, p.name, e)
            return s, e
        if p.kind in ('sequence', 'group'):
            s = nfa.new()
            cur = s
            for c in p.children:
                cs, ce = _build(nfa, c)
                nfa.add_eps(cur, cs)
                cur = ce
            e = nfa.new()
            nfa.add_eps(cur, e)
            return s, e
        if p.kind == 'choice':
            s, e = nfa.new(), nfa.new()
            if not p.children:
                # an empty choice matches nothing in XSD 1.0 unless minOccurs=0
                return s, e
            for c in p.children:
                cs, ce = _build(nfa, c)
                nfa.add_eps(s, cs)
                nfa.add_eps(ce, e)
            return s, e
        raise ValueError(p.kind)

    mn = p.min
    mx = p.max
    if mx != 'unbounded' and mx > UNROLL_LIMIT:
        raise ValueError(f"maxOccurs={mx} exceeds the unroll limit")
    s = nfa.new()
    cur = s
    for _ in range(mn):
        fs, fe = once()
        nfa.add_eps(cur, fs)
        cur = fe
    e = nfa.new()
    if mx == 'unbounded':
        fs, fe = once()
        nfa.add_eps(cur, fs)
        nfa.add_eps(fe, fs)
        nfa.add_eps(fe, e)
        nfa.add_eps(cur, e)
    else:
        nfa.add_eps(cur, e)
        for _ in range(mx - mn):
            fs, fe = once()
            nfa.add_eps(cur, fs)
            nfa.add_eps(fe, e)
            cur = fe
    return s, e


class DFA:
    def __init__(self, p: Optional[Particle]):
        self.alphabet: Set[str] = set()
        nfa = NFA()
        if p is None:
            s = e = nfa.new()
        else:
            s, e = _build(nfa, p)
            self.alphabet = {l.name for l in p.leaves()}
        self._nfa = nfa
        self._end = e
        self.start = self._closure({s})
        self.states: Dict[frozenset, Dict[str, frozenset]] = {}
        dq = deque([self.start])
        while dq:
            st = dq.popleft()
            if st in self.states:
                continue
            row = {}
            for a in self.alphabet:
                tgt = set()
                for q in st:
                    tgt |= nfa.trans.get(q, {}).get(a, set())
                if tgt:
                    row[a] = self._closure(tgt)
                    dq.append(row[a])
            self.states[st] = row

    def _closure(self, qs) -> frozenset:
        out = set(qs)
        stack = list(qs)
        while stack:
            q = stack.pop()
            for r in self._nfa.eps.get(q, ()):  # noqa
                if r not in out:
                    out.add(r)
                    stack.append(r)
        return frozenset(out)

    def accepting(self, st) -> bool:
        return st is not None and self._end in st

    def accepts(self, word: List[str]) -> bool:
        st = self.start
        for a in word:
            st = self.states.get(st, {}).get(a)
            if st is None:
                return False
        return self.accepting(st)


def distinguishing_word(a: DFA, b: DFA) -> Optional[List[str]]:
    """None when L(a) == L(b); otherwise a shortest word in the symmetric difference."""
    alphabet = sorted(a.alphabet | b.alphabet)
    start = (a.start, b.start)
    seen = {start}
    dq = deque([(start, [])])
    while dq:
        (sa, sb), w = dq.popleft()
        if a.accepting(sa) != b.accepting(sb):
            return w
        for sym in alphabet:
            na = a.states.get(sa, {}).get(sym) if sa is not None else None
            nb = b.states.get(sb, {}).get(sym) if sb is not None else None
            if na is None and nb is None:
                continue
            nxt = (na, nb)
            if nxt not in seen:
                seen.add(nxt)
                dq.append((nxt, w + [sym]))
    return None
