"""Effect summaries over the call graph: writes (root, field), raises (exception classes that escape), io.

Roots of a written object, relative to the function:   'self' | ('param', i) | 'fresh' | 'class' | 'module' | 'unknown'
A callee's write through 'self'/('param', i) is instantiated at the call site with the root of the receiver /
argument expression; writes through objects that are fresh in the caller are local and dropped.  Freshness
does not propagate from a container to the elements it holds: only the object itself is fresh.
"""
import ast
import builtins
from typing import Dict, List, Optional, Set, Tuple

from .astutil import unparse, short, walk_local, dotted, const_value, SCOPE_TYPES
from .srcmodel import SourceModel, FuncInfo
from .callgraph import CallGraph, Edge

MUTATORS = {'append', 'extend', 'insert', 'remove', 'pop', 'clear', 'sort', 'reverse', 'update', 'setdefault',
            'popitem', 'add', 'discard', '__setitem__', '__delitem__'}
IO_CALLS = {'print', 'breakpoint', 'input', 'pprint', 'pprint.pprint', 'ET.dump', 'sys.stdout.write', 'sys.stderr.write',
            'sys.stdout.writelines', 'sys.stderr.writelines', 'warnings.warn', 'traceback.print_exc',
            'traceback.print_exception', 'traceback.print_stack', 'logging.warning', 'logging.error', 'logging.critical',
            'logging.exception', 'logging.info', 'logging.debug', 'logging.log', 'logging.basicConfig', 'os.write'}
LOGGER_METHODS = {'warning', 'warn', 'error', 'critical', 'exception', 'log'}      # debug/info are not emitted by an unconfigured logging module (lastResort: WARNING)
FRESH_CALLS = {'copy.copy', 'copy.deepcopy', 'dict', 'list', 'set', 'ET.Element', 'ET.fromstring', 'sorted', 'tuple'}


FAMILIES = ('XMLElement', 'XMLChildContainer', 'XSDElement', 'XSDTree', 'XSDAttribute', 'XSDAttributeGroup', 'XSDSimpleType', 'XSDComplexType',
            'XSDSequence', 'XSDChoice', 'XSDGroup', 'XMLChildContainerFactory', 'Tree')


class Write:
    __slots__ = ('func', 'node', 'root', 'field', 'how', 'via', 'owners')

    def __init__(self, func, node, root, field, how, via=None, owners=frozenset()):
        self.func, self.node, self.root, self.field, self.how, self.via = func, node, root, field, how, via
        self.owners = owners      # class families of the written object (from the receiver typing); empty = unknown

    def origin(self):
        """The local write at the end of the via-call chain."""
        w = self
        n = 0
        while w.via is not None and w.via[1] is not None and n < 50:
            w = w.via[1]
            n += 1
        return w

    def site(self):
        return f"{self.func.fq}: {short(self.node, 90)}"

    def __repr__(self):
        return f"W({self.root}.{self.field} {self.how} @ {self.func.qualname})"


class RaiseSite:
    __slots__ = ('func', 'node', 'exc', 'implicit')

    def __init__(self, func, node, exc, implicit=False):
        self.func, self.node, self.exc, self.implicit = func, node, exc, implicit

    def __repr__(self):
        return f"R({self.exc} @ {self.func.qualname}:{getattr(self.node, 'lineno', '?')})"


def exc_is_subclass(sm: SourceModel, name: str, base: str) -> bool:
    """Exception hierarchy: repository classes by MRO + unknown bases, builtins by Python's own hierarchy."""
    if name == base:
        return True
    c = sm.get_class(name)
    if c is not None:
        for k in c.mro:
            if k.name == base:
                return True
            for u in k.unknown_bases:
                if u == base or exc_is_subclass(sm, u, base):
                    return True
        return False
    a, b = getattr(builtins, name, None), getattr(builtins, base, None)
    if isinstance(a, type) and isinstance(b, type):
        return issubclass(a, b)
    return False


class Effects:
    def __init__(self, cg: CallGraph):
        self.cg = cg
        self.sm = cg.sm
        self.ty = cg.ty
        self.local_writes: Dict[FuncInfo, List[Write]] = {}
        self.local_raises: Dict[FuncInfo, List[RaiseSite]] = {}
        self.local_io: Dict[FuncInfo, List[Tuple[ast.AST, str]]] = {}
        self.roots: Dict[FuncInfo, Dict[str, Set]] = {}
        self.handlers_of: Dict[FuncInfo, Dict[ast.AST, List[List[str]]]] = {}
        self.returns_fresh: Dict[FuncInfo, bool] = {}
        self.return_roots: Dict[FuncInfo, Optional[Set]] = {}     # roots of the returned values in the callee's own terms (None: no summary)
        self.pm: Dict[FuncInfo, Dict[ast.AST, ast.AST]] = {}
        for f in self.cg.all_functions():
            self._local(f)
        self._solve_fresh()
        for f in self.cg.all_functions():
            self._local_writes(f)
        self.summary_writes: Dict[FuncInfo, Set[Tuple]] = {}     # (root, field) -> exemplar kept separately
        self.write_exemplar: Dict[Tuple[FuncInfo, Tuple], Write] = {}
        self.summary_raises: Dict[FuncInfo, Dict[str, RaiseSite]] = {}
        self._solve_writes()
        self._solve_raises()

    # ------------------------------------------------------------------ local facts
    def _parent_map(self, f: FuncInfo):
        if f not in self.pm:
            pm = {}
            for n in ast.walk(f.node):
                for c in ast.iter_child_nodes(n):
                    pm[c] = n
            self.pm[f] = pm
        return self.pm[f]

    def enclosing_handlers(self, f: FuncInfo, node) -> List[List[str]]:
        """Exception class names caught by the try blocks whose *body* encloses node (innermost first).
        ['*'] stands for a bare except / except Exception / BaseException."""
        pm = self._parent_map(f)
        out = []
        cur = node
        while cur is not None and cur is not f.node:
            par = pm.get(cur)
            if isinstance(par, ast.Try) and cur in par.body:
                names = []
                for h in par.handlers:
                    if h.type is None:
                        names.append('*')
                    elif isinstance(h.type, ast.Tuple):
                        names += [unparse(x) for x in h.type.elts]
                    else:
                        names.append(unparse(h.type))
                out.append(['*' if n in ('Exception', 'BaseException') else n for n in names])
            if isinstance(par, SCOPE_TYPES) and par is not f.node:
                break
            cur = par
        return out

    def caught(self, f: FuncInfo, node, exc: str) -> bool:
        for names in self.enclosing_handlers(f, node):
            for n in names:
                if n == '*' or exc_is_subclass(self.sm, exc, n):
                    return True
        return False

    def _local(self, f: FuncInfo):
        # variable roots (flow-insensitive): name -> set of roots
        roots: Dict[str, Set] = {}
        params = f.params
        owner = f
        for i, p in enumerate(params):
            if i == 0 and f.cls is not None and f.parent is None and not f.is_staticmethod:
                roots[p] = {'class' if f.is_classmethod else 'self'}
            else:
                roots[p] = {('param', i)}
        self.roots[f] = roots
        self.local_raises[f] = []
        self.local_io[f] = []
        # raises and io
        pm = self._parent_map(f)
        for n in walk_local(f.node, include_root=False):
            if isinstance(n, ast.Raise):
                exc = self._raise_class(f, n)
                for e in exc:
                    self.local_raises[f].append(RaiseSite(f, n, e))
            elif isinstance(n, ast.Call):
                d = dotted(n.func) or ''
                if d in IO_CALLS:
                    self.local_io[f].append((n, d))
                elif isinstance(n.func, ast.Attribute) and n.func.attr in LOGGER_METHODS:
                    base = dotted(n.func.value) or ''
                    if 'log' in base.lower():
                        self.local_io[f].append((n, d or unparse(n.func)))
                elif d in ('sys.stdout', 'sys.stderr'):
                    pass
            elif isinstance(n, ast.Attribute) and dotted(n) in ('sys.stdout', 'sys.stderr') and isinstance(n.ctx, ast.Store):
                self.local_io[f].append((n, dotted(n) + ' = ...'))

    def _raise_class(self, f, n: ast.Raise) -> List[str]:
        if n.exc is None:
            # bare re-raise: the classes of the enclosing handler
            pm = self._parent_map(f)
            cur = n
            while cur is not None:
                cur = pm.get(cur)
                if isinstance(cur, ast.ExceptHandler):
                    if cur.type is None:
                        return ['Exception']
                    if isinstance(cur.type, ast.Tuple):
                        return [unparse(x) for x in cur.type.elts]
                    return [unparse(cur.type)]
            return ['Exception']
        e = n.exc
        if isinstance(e, ast.Call):
            e = e.func
        name = dotted(e)
        if name is None:
            return ['Exception']
        name = name.split('.')[-1]
        # `raise err` where err is a handler variable
        pm = self._parent_map(f)
        cur = n
        while cur is not None:
            cur = pm.get(cur)
            if isinstance(cur, ast.ExceptHandler) and cur.name == name:
                if cur.type is None:
                    return ['Exception']
                if isinstance(cur.type, ast.Tuple):
                    return [unparse(x) for x in cur.type.elts]
                return [unparse(cur.type)]
        return [name]

    # ------------------------------------------------------------------ freshness and roots of expressions
    def _solve_fresh(self):
        # returns_fresh: every return value is a fresh object (constructor call / fresh call / local fresh var)
        for f in self.cg.all_functions():
            self.returns_fresh[f] = False
            self.return_roots[f] = None
        for _ in range(6):
            changed = False
            for f in self.cg.all_functions():
                self._compute_var_roots(f)
                body = list(walk_local(f.node, include_root=False))
                rets = [n for n in body if isinstance(n, ast.Return)]
                vals = [r.value for r in rets if r.value is not None and not (isinstance(r.value, ast.Constant) and r.value.value is None)]
                val = bool(vals) and all(self.expr_roots(f, v) == {'fresh'} for v in vals)
                if val != self.returns_fresh[f]:
                    self.returns_fresh[f] = val
                    changed = True
                # summary of the returned objects (plain functions and methods only: no generators, no nested closures)
                if vals and f.parent is None and not any(isinstance(n, (ast.Yield, ast.YieldFrom)) for n in body):
                    rr = set()
                    for v in vals:
                        rr |= self.expr_roots(f, v)
                    if rr != self.return_roots[f]:
                        self.return_roots[f] = rr
                        changed = True
            if not changed:
                break
        for f in self.cg.all_functions():
            self._compute_var_roots(f)

    def _compute_var_roots(self, f: FuncInfo):
        """Flow-insensitive roots of the local names: iterate `new = F(old)` from scratch (not accumulating), so that a default
        taken while a name was still unbound does not stick."""
        params = {k: set(v) for k, v in self.roots[f].items() if k in f.params}
        old = dict(params)
        for _ in range(8):
            self.roots[f] = old
            new = {k: set(v) for k, v in params.items()}
            self._pass_target = new
            for n in walk_local(f.node, include_root=False):
                if isinstance(n, ast.Assign):
                    r = self.expr_roots(f, n.value)
                    for t in n.targets:
                        self._bind(f, t, r, n.value)
                elif isinstance(n, ast.AnnAssign) and n.value is not None:
                    self._bind(f, n.target, self.expr_roots(f, n.value), n.value)
                elif isinstance(n, (ast.For, ast.comprehension)):
                    r = self._elements(self.expr_roots(f, n.iter))
                    self._bind(f, n.target, r, None)
                elif isinstance(n, ast.With):
                    for i in n.items:
                        if i.optional_vars is not None:
                            self._bind(f, i.optional_vars, {'fresh'}, None)
                elif isinstance(n, ast.NamedExpr):
                    self._bind(f, n.target, self.expr_roots(f, n.value), n.value)
            self._pass_target = None
            if new == old:
                break
            old = new
        for k, v in old.items():
            if not v:
                v.add('unknown')
        self.roots[f] = old

    @staticmethod
    def _iter_keeps_fresh(it) -> bool:
        # `for x in [K(), K()]` - not used by the repository
        return False

    def _bind(self, f, target, r, value):
        roots = self._pass_target if getattr(self, '_pass_target', None) is not None else self.roots[f]
        if isinstance(target, ast.Name):
            roots.setdefault(target.id, set()).update(r)
        elif isinstance(target, (ast.Tuple, ast.List)):
            r2 = self._elements(r) if any(isinstance(x, tuple) and x[0] == 'of' for x in r) else {('unknown' if x == 'fresh' else x) for x in r}
            for t in target.elts:
                self._bind(f, t.value if isinstance(t, ast.Starred) else t, r2, None)

    def _assigned_names(self, f: FuncInfo) -> Set[str]:
        cache = self.__dict__.setdefault('_assigned_cache', {})
        if f not in cache:
            cache[f] = {n.id for n in walk_local(f.node, include_root=False) if isinstance(n, ast.Name) and isinstance(n.ctx, ast.Store)}
        return cache[f]

    def name_roots(self, f: FuncInfo, name: str) -> Set:
        g = f
        while g is not None:
            if name not in self.roots[g] and name in self._assigned_names(g):
                return set()       # a local that has no binding yet in this pass of the fix-point (never 'unknown')
            g = g.parent
        g = f
        while g is not None:
            if name in self.roots[g]:
                r = self.roots[g][name]
                if g is not f:
                    # free variable of a nested function: roots relative to the enclosing function; 'self'/'param'
                    # keep their meaning because nested functions are analysed as part of the enclosing call
                    return set(r)
                return set(r)
            g = g.parent
        r = self.sm.resolve_name(f.module.name, name)
        if r is None:
            return {'unknown'}
        if r[0] == 'class':
            return {'class'}
        if r[0] == 'assign':
            return {'module'}
        return {'const'}

    def _is_xml(self, e) -> Tuple[bool, bool]:
        """(the expression may denote an XMLElement, it may denote a collection holding XMLElements)"""
        direct = coll = False
        for a in self.ty.type_of(e):
            if a[0] == 'inst':
                c = self.sm.get_class(a[1])
                if c is not None and c.is_subclass_of('XMLElement'):
                    direct = True
            elif a[0] in ('list', 'dict'):
                for x in a[1]:
                    if x[0] == 'inst':
                        c = self.sm.get_class(x[1])
                        if c is not None and c.is_subclass_of('XMLElement'):
                            coll = True
        return direct, coll

    def _is_schema_node(self, e) -> bool:
        if getattr(self, '_cur_generic', False):
            return False       # inside the family-generic Tree methods the receiver's root at the call site decides
        for a in self.ty.type_of(e):
            atoms = [a] + (list(a[1]) if a[0] in ('list', 'dict') else [])
            for x in atoms:
                if x[0] == 'inst':
                    c = self.sm.get_class(x[1])
                    if c is not None and c.is_subclass_of('XSDTree'):
                        return True
        return False

    def _derive(self, base: Set, e) -> Set:
        """Roots of a member / method result of an object with roots `base`.  Parts of a fresh matcher object are
        fresh, except the XMLElements it holds (freshness does not propagate to them)."""
        out = set()
        if base - {'const', 'fresh'} and self._is_schema_node(e) and not all(isinstance(x, tuple) and x[0] == 'of' for x in base - {'const', 'fresh'}):
            # a schema node reached from any object is the process-wide one
            return {'module'}
        for x in base:
            if x == 'const':
                continue
            if x == 'fresh':
                direct, coll = self._is_xml(e)
                if direct:
                    out.add('unknown')
                if coll:
                    out |= {'fresh', ('of', 'unknown')}
                if self._is_schema_node(e):
                    # a fresh matcher object *refers to* schema nodes, it does not own them: they are process-wide
                    out.add('module')
                elif not direct and not coll:
                    out.add('fresh')
                    if any(a[0] in ('list', 'tuple') for a in self.ty.type_of(e)):
                        out.add(('of', 'fresh'))       # a collection of parts of a fresh matcher object
            elif isinstance(x, tuple) and x[0] == 'of':
                continue
            else:
                out.add(x)
        return out or self._dflt()

    def _dflt(self) -> Set:
        return set() if getattr(self, '_pass_target', None) is not None else {'unknown'}

    def _elements(self, base: Set) -> Set:
        """Roots of the elements of a collection with roots `base`."""
        out = set()
        for x in base:
            if isinstance(x, tuple) and x[0] == 'of':
                out.add(x[1])
            elif x in ('fresh', 'const'):
                continue
            else:
                out.add(x)
        return out or self._dflt()

    def expr_roots(self, f: FuncInfo, e) -> Set:
        self._cur_generic = f.module.name == 'verysimpletree.tree'
        return self._expr_roots(f, e)

    def _expr_roots(self, f: FuncInfo, e) -> Set:
        """Where can the object denoted by e come from?  'fresh' = created during this call;
        ('of', r) = a collection whose elements have root r."""
        if isinstance(e, ast.Constant):
            return {'const'}
        if isinstance(e, ast.Name):
            return self.name_roots(f, e.id)
        if isinstance(e, (ast.List, ast.Set, ast.Tuple)):
            out = {'fresh'}
            for x in e.elts:
                out |= {('of', r) for r in self.expr_roots(f, x.value if isinstance(x, ast.Starred) else x) if r not in ('const',) and not (isinstance(r, tuple) and r[0] == 'of')}
            return out
        if isinstance(e, (ast.ListComp, ast.SetComp, ast.GeneratorExp)):
            out = {'fresh'}
            out |= {('of', r) for r in self.expr_roots(f, e.elt) if r != 'const' and not (isinstance(r, tuple) and r[0] == 'of')}
            return out
        if isinstance(e, (ast.Dict, ast.DictComp, ast.JoinedStr, ast.BinOp, ast.Compare, ast.UnaryOp)):
            return {'fresh'}
        if isinstance(e, ast.IfExp):
            return self.expr_roots(f, e.body) | self.expr_roots(f, e.orelse)
        if isinstance(e, ast.BoolOp):
            out = set()
            for v in e.values:
                out |= self.expr_roots(f, v)
            return out
        if isinstance(e, ast.Attribute):
            if e.attr == '__class__':
                return {'class'}
            return self._derive(self.expr_roots(f, e.value), e)
        if isinstance(e, ast.Subscript):
            base = self.expr_roots(f, e.value)
            if isinstance(e.slice, ast.Slice):
                return {'fresh'} | {x for x in base if isinstance(x, tuple) and x[0] == 'of'} | \
                       {('of', x) for x in base if not isinstance(x, tuple) and x not in ('fresh', 'const')}
            return self._elements(base)
        if isinstance(e, ast.Starred):
            return self.expr_roots(f, e.value)
        if isinstance(e, ast.Call):
            d = dotted(e.func) or ''
            if d in ('copy.copy', 'copy.deepcopy', 'dict', 'ET.Element', 'ET.fromstring'):
                return {'fresh'}
            if d in ('list', 'sorted', 'tuple', 'set', 'reversed', 'iter'):
                out = {'fresh'}
                for a in e.args[:1]:
                    out |= {('of', r) for r in self._elements(self.expr_roots(f, a))}
                return out
            if d in ('zip', 'enumerate'):
                out = {'fresh'}
                for a in e.args:
                    out |= {('of', r) for r in self._elements(self.expr_roots(f, a))}
                return out
            if d in ('max', 'min') and e.args:
                return self._elements(self.expr_roots(f, e.args[0]))
            edges = self.cg.by_node.get(e, [])
            kinds = {x.kind for x in edges}
            if edges and kinds <= {'new'}:
                return {'fresh'}
            callees = {x.callee for x in edges if x.kind in ('call', 'super')}
            if callees and all(self.returns_fresh.get(c, False) for c in callees) and not (kinds & {'new'}):
                return {'fresh'}
            summ = self._call_result_from_summary(f, e, edges)
            if summ is not None:
                return summ or self._dflt()
            if isinstance(e.func, ast.Attribute):
                # method result: reachable from the receiver (get_parent(), get_children(), iterate_leaves(), ...)
                out = self._derive(self.expr_roots(f, e.func.value), e)
                for a in e.args:
                    out |= {x for x in self.expr_roots(f, a) if x not in ('const', 'fresh') and not (isinstance(x, tuple) and x[0] == 'of')}
                return out or self._dflt()
            if isinstance(e.func, ast.Name):
                if e.func.id == 'type' and len(e.args) == 1:
                    return {'class'}
                if e.func.id in ('len', 'int', 'float', 'str', 'bool', 'isinstance', 'hasattr', 'repr', 'range', 'callable', 'type'):
                    return {'const'}
                if e.func.id == 'eval':
                    return {'class'}
                if e.func.id == 'open':
                    return {'fresh'}
                out = set()
                for a in e.args:
                    out |= {x for x in self.expr_roots(f, a) if x not in ('const', 'fresh')}
                return out or self._dflt()
            if isinstance(e.func, ast.Call):
                # K(...)() or eval(..)()
                inner = self.cg.by_node.get(e, [])
                if inner and {x.kind for x in inner} <= {'new'}:
                    return {'fresh'}
            return {'unknown'}
        if isinstance(e, ast.Lambda):
            return {'const'}
        return {'unknown'}

    def _call_result_from_summary(self, f: FuncInfo, e: ast.Call, edges) -> Optional[Set]:
        """Roots of a call result from the callees' return summaries, translated to the caller: 'self' -> what the receiver
        yields (members of the receiver), ('param', i) -> the roots of the argument bound to it.  None when some callee has
        no summary (generators, unresolved calls, property objects): the caller falls back to receiver+arguments."""
        if not edges or any(x.kind not in ('call', 'super') for x in edges):
            return None
        if not isinstance(e.func, ast.Attribute) or any(isinstance(a, ast.Starred) for a in e.args) or any(k.arg is None for k in e.keywords):
            return None
        out = set()
        for x in edges:
            c = x.callee
            rr = self.return_roots.get(c)
            if rr is None or c.parent is not None or 'unknown' in rr:
                return None
            bound = c.cls is not None and not c.is_staticmethod
            for r in rr:
                t = self._translate_root(f, e, c, r, bound)
                if t is None:
                    return None
                out |= t
        return out

    def _translate_root(self, f, e, c, r, bound) -> Optional[Set]:
        if r in ('fresh', 'const', 'class', 'module'):
            return {r}
        if r == 'self':
            return self._derive(self._expr_roots(f, e.func.value), e)
        if isinstance(r, tuple) and r[0] == 'param':
            i = r[1] - (1 if bound else 0)
            arg = None
            if 0 <= i < len(e.args):
                arg = e.args[i]
            else:
                pname = c.params[r[1]] if r[1] < len(c.params) else None
                for k in e.keywords:
                    if k.arg == pname:
                        arg = k.value
            if arg is None:
                return {'const'}        # the parameter's default (None / a literal)
            return set(self._expr_roots(f, arg))
        if isinstance(r, tuple) and r[0] == 'of':
            inner = self._translate_root(f, e, c, r[1], bound)
            if inner is None:
                return None
            return {('of', x) for x in inner if x not in ('const',) and not (isinstance(x, tuple) and x[0] == 'of')} | \
                   {x for x in inner if isinstance(x, tuple) and x[0] == 'of'}
        return None

    # ------------------------------------------------------------------ local writes
    def owners_of(self, e) -> frozenset:
        out = set()
        for a in self.ty.type_of(e):
            if a[0] in ('inst', 'cls'):
                c = self.sm.get_class(a[1])
                names = [k.name for k in c.mro] if c else [a[1]]
                fam = next((n for n in FAMILIES if n in names), a[1])
                out.add(fam)
        return frozenset(out)

    def _local_writes(self, f: FuncInfo):
        ws: List[Write] = []
        self.local_writes[f] = ws

        def target_write(t, node, how):
            if isinstance(t, ast.Attribute):
                for r in self.expr_roots(f, t.value):
                    ws.append(Write(f, node, r, t.attr, how, owners=self.owners_of(t.value)))
            elif isinstance(t, ast.Subscript):
                base = t.value
                fld, holder = self._field_of(base)
                if fld is not None:
                    for r in self.expr_roots(f, holder):
                        ws.append(Write(f, node, r, fld, how + '[]', owners=self.owners_of(holder)))
                elif isinstance(base, ast.Name):
                    for r in self.name_roots(f, base.id):
                        if r not in ('fresh', 'const') and not (isinstance(r, tuple) and r[0] == 'of'):
                            ws.append(Write(f, node, r, self._alias_field(f, base.id) or '<item>', how + '[]', owners=self._alias_owners(f, base.id)))
            elif isinstance(t, (ast.Tuple, ast.List)):
                for x in t.elts:
                    target_write(x, node, how)

        for n in walk_local(f.node, include_root=False):
            if isinstance(n, ast.Assign):
                for t in n.targets:
                    target_write(t, n, 'store')
            elif isinstance(n, ast.AugAssign):
                target_write(n.target, n, 'augstore')
            elif isinstance(n, ast.AnnAssign) and n.value is not None:
                target_write(n.target, n, 'store')
            elif isinstance(n, ast.Delete):
                for t in n.targets:
                    target_write(t, n, 'del')
            elif isinstance(n, ast.Call) and isinstance(n.func, ast.Attribute) and n.func.attr in MUTATORS:
                # x.f.append(..): mutation of field f of x ; v.append(..) on a local derived from a field
                recv = n.func.value
                # skip calls that resolve to repository methods (Tree.remove, XMLElement.remove, ...): summaries cover them
                if any(e.kind in ('call', 'super') for e in self.cg.by_node.get(n, [])):
                    continue
                fld, holder = self._field_of(recv)
                if fld is not None:
                    for r in self.expr_roots(f, holder):
                        ws.append(Write(f, n, r, fld, 'mutate:' + n.func.attr, owners=self.owners_of(holder)))
                elif isinstance(recv, ast.Name):
                    for r in self.name_roots(f, recv.id):
                        if r not in ('fresh', 'const') and not (isinstance(r, tuple) and r[0] == 'of'):
                            ws.append(Write(f, n, r, self._alias_field(f, recv.id) or '<object>', 'mutate:' + n.func.attr,
                                            owners=self._alias_owners(f, recv.id)))
            elif isinstance(n, ast.Call) and isinstance(n.func, ast.Name) and n.func.id == 'setattr' and len(n.args) == 3:
                nm = const_value(n.args[1])
                for r in self.expr_roots(f, n.args[0]):
                    ws.append(Write(f, n, r, nm if isinstance(nm, str) else '<dynamic>', 'setattr', owners=self.owners_of(n.args[0])))

    def _field_of(self, e):
        """`x.f` -> ('f', x); `x.get_children()` / `x.get_attributes()` -> the field the getter returns, when it is a
        plain getter; else (None, None)."""
        if isinstance(e, ast.Attribute):
            return self._getter_field(e) or e.attr, e.value
        if isinstance(e, ast.Call) and isinstance(e.func, ast.Attribute) and not e.args:
            for ed in self.cg.by_node.get(e, []):
                fld = self._plain_getter(ed.callee)
                if fld:
                    return fld, e.func.value
        return None, None

    def _getter_field(self, e: ast.Attribute) -> Optional[str]:
        for ed in self.cg.by_node.get(e, []):
            if ed.kind == 'prop-get':
                fld = self._plain_getter(ed.callee)
                if fld:
                    return fld
        return None

    @staticmethod
    def _plain_getter(fi: FuncInfo) -> Optional[str]:
        """A function whose body is `return self.<field>` (possibly preceded by a docstring / lazy init)."""
        rets = [s for s in ast.walk(fi.node) if isinstance(s, ast.Return)]
        if rets and all(isinstance(r.value, ast.Attribute) and isinstance(r.value.value, ast.Name) and
                        r.value.value.id in ('self', 'cls') for r in rets):
            names = {r.value.attr for r in rets}
            if len(names) == 1:
                return names.pop()
        return None

    def _alias_owners(self, f: FuncInfo, name: str) -> frozenset:
        for n in walk_local(f.node, include_root=False):
            if isinstance(n, ast.Assign) and any(isinstance(t, ast.Name) and t.id == name for t in n.targets):
                fld, holder = self._field_of(n.value)
                if fld and holder is not None:
                    return self.owners_of(holder)
        return frozenset()

    def _alias_field(self, f: FuncInfo, name: str) -> Optional[str]:
        """local `v = x.f` / `v = x.get_f()` -> 'f'"""
        for n in walk_local(f.node, include_root=False):
            if isinstance(n, ast.Assign) and any(isinstance(t, ast.Name) and t.id == name for t in n.targets):
                fld, _ = self._field_of(n.value)
                if fld:
                    return fld
        return None

    # ------------------------------------------------------------------ interprocedural summaries
    def _arg_roots(self, e: Edge) -> Dict[object, Set]:
        """Map the callee's roots ('self', ('param', i)) to root sets in the caller, for one call edge."""
        caller = e.caller
        node = e.node
        out: Dict[object, Set] = {}
        callee = e.callee
        if e.kind in ('prop-get', 'getattr'):
            out['self'] = self.expr_roots(caller, node.value)
            return out
        if e.kind in ('prop-set', 'setattr') and isinstance(node, ast.Attribute):
            out['self'] = self.expr_roots(caller, node.value)
            pm = self._parent_map(caller)
            st = pm.get(node)
            while st is not None and not isinstance(st, (ast.Assign, ast.AugAssign, ast.AnnAssign)):
                st = pm.get(st)
            if st is not None and getattr(st, 'value', None) is not None:
                out[('param', 1)] = self.expr_roots(caller, st.value)
            return out
        if not isinstance(node, ast.Call):
            return out
        off = 0
        if e.kind == 'setattr':     # setattr(obj, k, v)
            out['self'] = self.expr_roots(caller, node.args[0])
            out[('param', 2)] = self.expr_roots(caller, node.args[2])
            return out
        if e.kind == 'new':
            out['self'] = {'fresh'}
            off = 1
        elif e.kind in ('super', 'super-fset'):
            out['self'] = {'self'} if not caller.is_classmethod else {'class'}
            off = 1
            if e.kind == 'super-fset':
                off = 0   # fset(self, v): explicit self
        elif callee.cls is not None and callee.parent is None and not callee.is_staticmethod and isinstance(node.func, ast.Attribute):
            rv = self.expr_roots(caller, node.func.value)
            if callee.is_classmethod:
                rv = {'class'}
            out['self'] = rv
            off = 1
        elif callee.cls is not None and callee.parent is None and not callee.is_staticmethod and callee.name == '__call__':
            out['self'] = self.expr_roots(caller, node.func)
            off = 1
        params = callee.params
        for i, a in enumerate(node.args):
            if isinstance(a, ast.Starred):
                continue
            j = i + off
            if j < len(params):
                out[('param', j)] = self.expr_roots(caller, a)
        for kw in node.keywords:
            if kw.arg and kw.arg in params:
                out[('param', params.index(kw.arg))] = self.expr_roots(caller, kw.value)
        if callee.parent is not None:
            # nested function: its free variables have the caller's roots already ('self' stays 'self')
            out.setdefault('self', {'self'})
            for i, p in enumerate(caller.params if callee.parent is caller else []):
                pass
        return out

    def _solve_writes(self):
        for f in self.cg.all_functions():
            s = set()
            for w in self.local_writes[f]:
                if w.root in ('fresh', 'const'):
                    continue
                key = (w.root, w.field)
                s.add(key)
                self.write_exemplar.setdefault((f, key), w)
            self.summary_writes[f] = s
        changed = True
        rounds = 0
        while changed and rounds < 40:
            changed = False
            rounds += 1
            for f in self.cg.all_functions():
                cur = self.summary_writes[f]
                for e in self.cg.out.get(f, []):
                    callee_sum = self.summary_writes.get(e.callee, set())
                    if not callee_sum:
                        continue
                    amap = self._arg_roots(e)
                    nested = e.callee.parent is not None
                    for (root, field) in list(callee_sum):
                        if root in ('class', 'module', 'unknown'):
                            new_roots = {root}
                        elif nested and root == 'self':
                            new_roots = {'self'}
                        elif nested and isinstance(root, tuple) and e.callee.parent is f and root not in amap:
                            new_roots = {root}
                        else:
                            new_roots = amap.get(root, {'unknown'})
                        for nr in new_roots:
                            if nr in ('fresh', 'const') or (isinstance(nr, tuple) and nr[0] == 'of'):
                                continue
                            key = (nr, field)
                            if key not in cur:
                                cur.add(key)
                                ex = self.write_exemplar.get((e.callee, (root, field)))
                                self.write_exemplar[(f, key)] = Write(f, e.node, nr, field, 'via-call', via=(e, ex))
                                changed = True

    def explain_write(self, f: FuncInfo, key) -> List[str]:
        """Call chain from f to the statement that performs the write."""
        out = []
        w = self.write_exemplar.get((f, key))
        depth = 0
        while w is not None and depth < 25:
            out.append(f"{w.func.qualname}: {short(w.node, 80)}  [{w.root}.{w.field}]")
            if w.via is None:
                break
            e, ex = w.via
            w = ex
            depth += 1
        return out

    def _solve_raises(self):
        # escaping exception classes per function: local raises not caught locally + callee escapes not caught at the call
        for f in self.cg.all_functions():
            d = {}
            for r in self.local_raises[f]:
                if not self.caught(f, r.node, r.exc):
                    d.setdefault(r.exc, r)
            self.summary_raises[f] = d
        changed = True
        rounds = 0
        while changed and rounds < 40:
            changed = False
            rounds += 1
            for f in self.cg.all_functions():
                cur = self.summary_raises[f]
                for e in self.cg.out.get(f, []):
                    for exc, site in list(self.summary_raises.get(e.callee, {}).items()):
                        if exc in cur:
                            continue
                        if self.caught(f, e.node, exc):
                            continue
                        cur[exc] = site
                        changed = True

    # ------------------------------------------------------------------ io reachability
    def io_reachable(self, roots: List[FuncInfo], resolved_only=False):
        """-> list of (func, node, name, call path)"""
        out = []
        clo = self.cg.closure(roots, resolved_only=resolved_only)
        for f in clo:
            for node, name in self.local_io.get(f, []):
                if self._inside_redirect(f, node):
                    continue
                out.append((f, node, name))
        return out, clo

    def _inside_redirect(self, f, node) -> bool:
        pm = self._parent_map(f)
        cur = node
        while cur is not None:
            cur = pm.get(cur)
            if isinstance(cur, ast.With):
                if any('redirect_stdout' in unparse(i.context_expr) or 'redirect_stderr' in unparse(i.context_expr)
                       for i in cur.items):
                    return True
        return False


# ---------------------------------------------------------------------------------------------------------------------
# specialisation on one boolean parameter that is passed through a call chain (intelligent_choice)
def _cfg_node_index(g):
    idx = {}
    for n in g.stmt_nodes():
        for e in n.exprs():
            for sub in ast.walk(e):
                idx.setdefault(sub, n)
    return idx


def specialised_writes(ef: 'Effects', f: FuncInfo, param: str, value: bool, _stack=None, _memo=None):
    """Writes of f (as (root, field, origin Write)) when its parameter `param` is the constant `value`; the constant is
    propagated through calls that pass the parameter on unchanged, pruning branches the constant decides."""
    from .cfg import cfg_of
    _stack = _stack or ()
    _memo = _memo if _memo is not None else {}
    if f in _memo:
        return _memo[f]
    if f in _stack:
        return set()
    g = cfg_of(f.node)
    assume = {param: value, f"{param} is True": value, f"{param} is False": not value, f"not {param}": not value}
    ok = g.edge_filter_assuming(assume)
    reach = g.reachable(g.entry, edge_ok=ok)
    idx = _cfg_node_index(g)
    out = set()

    def live(node):
        n = idx.get(node)
        return n is None or n in reach
    for w in ef.local_writes[f]:
        if w.root in ('fresh', 'const'):
            continue
        if live(w.node):
            out.add((w.root, w.field, w))
    for e in ef.cg.out.get(f, []):
        if not live(e.node):
            continue
        callee = e.callee
        sub = None
        if param in callee.params and isinstance(e.node, ast.Call):
            passed = None
            for kw in e.node.keywords:
                if kw.arg == param:
                    passed = kw.value
            if passed is None:
                off = 1 if (callee.cls is not None and callee.parent is None and not callee.is_staticmethod and isinstance(e.node.func, ast.Attribute)) else 0
                i = callee.params.index(param) - off
                if 0 <= i < len(e.node.args):
                    passed = e.node.args[i]
            const = None
            if passed is None:
                # default value
                a = callee.node.args
                names = [x.arg for x in a.posonlyargs + a.args]
                if param in names:
                    di = names.index(param) - (len(names) - len(a.defaults))
                    if 0 <= di < len(a.defaults) and isinstance(a.defaults[di], ast.Constant):
                        const = a.defaults[di].value
            elif isinstance(passed, ast.Name) and passed.id == param and param in f.params:
                const = value
            elif isinstance(passed, ast.Constant):
                const = passed.value
            if isinstance(const, bool):
                sub = specialised_writes(ef, callee, param, const, _stack + (f,), _memo if const == value else {})
        if sub is None:
            sub = {(r, fld, ef.write_exemplar.get((callee, (r, fld))).origin() if ef.write_exemplar.get((callee, (r, fld))) else None)
                   for (r, fld) in ef.summary_writes.get(callee, set())}
        amap = ef._arg_roots(e)
        nested = callee.parent is not None
        for (root, field, origin) in sub:
            if root in ('class', 'module', 'unknown'):
                new_roots = {root}
            elif nested and (root == 'self' or (isinstance(root, tuple) and root not in amap)):
                new_roots = {root}
            else:
                new_roots = amap.get(root, {'unknown'})
            for nr in new_roots:
                if nr in ('fresh', 'const') or (isinstance(nr, tuple) and nr[0] == 'of'):
                    continue
                out.add((nr, field, origin))
    _memo[f] = out
    return out
