"""A tiny abstract interpreter for *leaf helpers*: straight-line / if / return code over parameters that are
only compared with None and constants.  It tabulates the function: for every combination of abstract input
classes it returns the abstract result.  (Finite abstract domain; nothing of the repository is executed.)

Abstract values
  ('const', v)            a Python constant
  ('sym', name, cls)      the parameter `name`, known to lie in input class `cls`
  ('int', sym)            int(<sym>)
  ('tuple', (..))         tuple of abstract values
  ('unknown', why)
Input classes are described by the caller: each class says whether it is None, which constants it equals,
and its truthiness.
"""
import ast
import itertools
from typing import Dict, List, Optional, Tuple

from .astutil import unparse
from .srcmodel import AnalysisError


class InputClass:
    def __init__(self, label, is_none=False, equals=None, truthy=True):
        self.label = label
        self.is_none = is_none
        self.equals = equals          # the single constant this class equals (or None: equals no tested constant)
        self.truthy = truthy

    def __repr__(self):
        return self.label


NONE = InputClass('absent', is_none=True, truthy=False)


class NotUnderstood(Exception):
    pass


class _Return(Exception):
    def __init__(self, v):
        self.v = v


def _truth(v) -> Optional[bool]:
    k = v[0]
    if k == 'const':
        return bool(v[1])
    if k == 'sym':
        return v[2].truthy
    if k == 'tuple':
        return len(v[1]) > 0
    if k == 'int':
        return None
    return None


def _eq(a, b) -> Optional[bool]:
    if a[0] == 'const' and b[0] == 'const':
        return a[1] == b[1] and type(a[1]) is type(b[1]) or (a[1] == b[1] and not isinstance(a[1], bool) and not isinstance(b[1], bool))
    if a[0] == 'sym' and b[0] == 'const':
        cls = a[2]
        if cls.is_none:
            return b[1] is None
        if b[1] is None:
            return False
        if cls.equals is not None:
            return cls.equals == b[1]
        return False          # class defined as "equals none of the tested constants"
    if b[0] == 'sym' and a[0] == 'const':
        return _eq(b, a)
    if a[0] == 'sym' and b[0] == 'sym' and a[1] == b[1]:
        return True
    return None


def _order_truth(rel: str, op) -> Optional[bool]:
    """Truth of `count <op> bound` when count <rel> bound, rel in {'<', '=', '>'}."""
    table = {ast.Lt: {'<': True, '=': False, '>': False}, ast.LtE: {'<': True, '=': True, '>': False},
             ast.Gt: {'<': False, '=': False, '>': True}, ast.GtE: {'<': False, '=': True, '>': True},
             ast.Eq: {'<': False, '=': True, '>': False}, ast.NotEq: {'<': True, '=': False, '>': True}}
    t = table.get(type(op))
    return None if t is None else t[rel]


_FLIP = {'<': '>', '>': '<', '=': '='}


def _text_of(e, env) -> str:
    if isinstance(e, ast.Name) and e.id in env and isinstance(env[e.id], tuple) and env[e.id][0] == 'opaque':
        return env[e.id][1]
    return unparse(e)


_OPPOSITE = {ast.Eq: ast.NotEq, ast.NotEq: ast.Eq, ast.Is: ast.IsNot, ast.IsNot: ast.Is, ast.In: ast.NotIn, ast.NotIn: ast.In,
             ast.Lt: ast.GtE, ast.GtE: ast.Lt, ast.Gt: ast.LtE, ast.LtE: ast.Gt}


def _resolved(e, env):
    """e with every local that holds an opaque value (`seq = group.get_children()[0]`) replaced by the expression it was bound to: assumptions are
    stated about what an expression computes, not about the local it happens to be kept in"""
    import copy as _copy
    hit = [False]

    class R(ast.NodeTransformer):
        def visit_Name(self, node):
            v = env.get(node.id)
            if isinstance(node.ctx, ast.Load) and isinstance(v, tuple) and len(v) >= 2 and v[0] == 'opaque' and isinstance(v[1], str):
                try:
                    new = ast.parse(v[1], mode='eval').body
                except SyntaxError:
                    return node
                hit[0] = True
                return new
            return node
    out = R().visit(_copy.deepcopy(e))
    return out if hit[0] else None


def eval_expr(e, env) -> tuple:
    assume = env.get('__assume__') or {}
    txt = None
    if assume or env.get('__order__'):
        txt = unparse(e)
        if txt in assume:
            return ('const', assume[txt])
        if assume and not isinstance(e, (ast.Name, ast.Constant)):
            r_ = _resolved(e, env)
            if r_ is not None:
                rt_ = unparse(r_)
                if rt_ in assume:
                    return ('const', assume[rt_])
                if isinstance(r_, ast.Compare) and len(r_.ops) == 1 and type(r_.ops[0]) in _OPPOSITE:
                    alt = unparse(ast.Compare(left=r_.left, ops=[_OPPOSITE[type(r_.ops[0])]()], comparators=r_.comparators))
                    if alt in assume:
                        return ('const', not assume[alt])
        # the same atom written with the opposite comparison operator (`a != b` vs `a == b`, `x is not None` vs `x is None`, ...)
        if isinstance(e, ast.Compare) and len(e.ops) == 1 and type(e.ops[0]) in _OPPOSITE:
            alt = unparse(ast.Compare(left=e.left, ops=[_OPPOSITE[type(e.ops[0])]()], comparators=e.comparators))
            if alt in assume:
                return ('const', not assume[alt])
    if env.get('__order__') and isinstance(e, (ast.Attribute, ast.Name, ast.Call)):
        # truthiness of a sequence whose length is compared with 0 by the assumptions: `if not xs` is `if len(xs) == 0`
        rel0 = env['__order__'].get((f"len({_text_of(e, env)})", '0'))
        if rel0 is not None:
            return ('const', rel0 != '=')
    if isinstance(e, ast.Compare) and len(e.ops) == 1 and env.get('__order__'):
        lt, rt = _text_of(e.left, env), _text_of(e.comparators[0], env)
        order = env['__order__']
        if (lt, rt) in order:
            r = _order_truth(order[(lt, rt)], e.ops[0])
            if r is not None:
                return ('const', r)
        if (rt, lt) in order:
            r = _order_truth(_FLIP[order[(rt, lt)]], e.ops[0])
            if r is not None:
                return ('const', r)
    if isinstance(e, ast.Constant):
        return ('const', e.value)
    if isinstance(e, ast.Name):
        if e.id in env:
            return env[e.id]
        if e.id in ('True', 'False', 'None'):
            return ('const', {'True': True, 'False': False, 'None': None}[e.id])
        raise NotUnderstood(f"free name {e.id}")
    if isinstance(e, ast.Tuple):
        return ('tuple', tuple(eval_expr(x, env) for x in e.elts))
    if isinstance(e, ast.IfExp):
        t = _truth(eval_expr(e.test, env))
        if t is None:
            raise NotUnderstood(f"undecidable test {unparse(e.test)}")
        return eval_expr(e.body if t else e.orelse, env)
    if isinstance(e, ast.UnaryOp) and isinstance(e.op, ast.Not):
        t = _truth(eval_expr(e.operand, env))
        if t is None:
            if env.get('__opaque_ok__'):
                return ('opaque', unparse(e))
            raise NotUnderstood(f"undecidable operand {unparse(e.operand)}")
        return ('const', not t)
    if isinstance(e, ast.BoolOp):
        v = ('const', None)
        for x in e.values:            # short-circuit, left to right
            v = eval_expr(x, env)
            t = _truth(v)
            if t is None:
                raise NotUnderstood(f"undecidable test {unparse(x)}")
            if isinstance(e.op, ast.And) and not t:
                return v
            if isinstance(e.op, ast.Or) and t:
                return v
        return v
    if isinstance(e, ast.Compare) and len(e.ops) == 1:
        a, b = eval_expr(e.left, env), eval_expr(e.comparators[0], env)
        op = e.ops[0]
        if isinstance(op, (ast.Is, ast.IsNot)):
            if b == ('const', None) or a == ('const', None):
                other = a if b == ('const', None) else b
                if other[0] == 'sym':
                    r = other[2].is_none
                elif other[0] == 'const':
                    r = other[1] is None
                else:
                    r = False
                return ('const', r if isinstance(op, ast.Is) else not r)
            raise NotUnderstood(f"identity test {unparse(e)}")
        if isinstance(op, (ast.Eq, ast.NotEq)):
            r = _eq(a, b)
            if r is None:
                raise NotUnderstood(f"undecidable comparison {unparse(e)}")
            return ('const', r if isinstance(op, ast.Eq) else not r)
        if env.get('__opaque_ok__'):
            return ('opaque', unparse(e))          # an ordering nobody assumed anything about: a value, undecidable as a test
        raise NotUnderstood(f"comparison {unparse(e)}")
    if isinstance(e, ast.Call) and isinstance(e.func, ast.Name) and e.func.id == 'int' and len(e.args) == 1 and not e.keywords:
        v = eval_expr(e.args[0], env)
        if v[0] == 'sym' and not v[2].is_none:
            return ('int', v[1])
        if v[0] == 'const' and isinstance(v[1], (int, str)) and not isinstance(v[1], bool):
            try:
                return ('const', int(v[1]))
            except ValueError:
                pass
        raise NotUnderstood(f"int() of {v}")
    if isinstance(e, ast.Starred):
        raise NotUnderstood("starred")
    if isinstance(e, (ast.Call, ast.Attribute, ast.Subscript)) and env.get('__opaque_ok__'):
        return ('opaque', unparse(e))
    raise NotUnderstood(f"expression {unparse(e)}")


def exec_block(stmts, env):
    for s in stmts:
        if isinstance(s, ast.Return):
            raise _Return(eval_expr(s.value, env) if s.value is not None else ('const', None))
        elif isinstance(s, ast.Raise):
            name = unparse(s.exc.func if isinstance(s.exc, ast.Call) else s.exc) if s.exc is not None else 're-raise'
            raise _Return(('raise', name))
        elif isinstance(s, ast.Assign) and len(s.targets) == 1 and isinstance(s.targets[0], ast.Attribute) and '__effects__' in env:
            env['__effects__'].append((unparse(s.targets[0]), eval_expr(s.value, env)))
        elif isinstance(s, ast.Assign) and len(s.targets) == 1 and isinstance(s.targets[0], ast.Name):
            env[s.targets[0].id] = eval_expr(s.value, env)
        elif isinstance(s, ast.If):
            t = _truth(eval_expr(s.test, env))
            if t is None:
                raise NotUnderstood(f"undecidable test {unparse(s.test)}")
            exec_block(s.body if t else s.orelse, env)
        elif isinstance(s, ast.Pass) or (isinstance(s, ast.Expr) and isinstance(s.value, ast.Constant)) or \
                (isinstance(s, ast.Expr) and isinstance(s.value, (ast.Attribute, ast.Subscript, ast.Name))):
            # a bare read (what the normaliser leaves of `x = o.a[0]` once the uses are written out): evaluated for what it may raise, no effect
            continue
        elif isinstance(s, ast.Expr) and isinstance(s.value, ast.Call) and '__effects__' in env:
            env['__effects__'].append(('call', ('const', unparse(s.value.func))))
        else:
            raise NotUnderstood(f"statement {unparse(s)[:60]}")


def tabulate_function(fn: ast.FunctionDef, classes: Dict[str, List[InputClass]], pre: Optional[List[ast.stmt]] = None,
                      binders: Optional[Dict[str, str]] = None) -> Dict[tuple, tuple]:
    """Abstractly run fn.body for every combination of input classes of the named variables.
    `binders` maps a local variable to the symbolic source it is read from (the caller has verified that
    read); the variable then starts as a symbol of each class."""
    names = list(classes)
    table = {}
    for combo in itertools.product(*[classes[n] for n in names]):
        env = {n: ('sym', n, c) for n, c in zip(names, combo)}
        try:
            exec_block(fn.body if pre is None else pre, env)
            result = ('const', None)
        except _Return as r:
            result = r.v
        table[tuple(c.label for c in combo)] = result
    return table


def tabulate_expr(expr, classes: Dict[str, List[InputClass]]) -> Dict[tuple, tuple]:
    names = list(classes)
    table = {}
    for combo in itertools.product(*[classes[n] for n in names]):
        env = {n: ('sym', n, c) for n, c in zip(names, combo)}
        table[tuple(c.label for c in combo)] = eval_expr(expr, env)
    return table


def run_block(stmts, order=None, assume=None, env=None):
    """Abstractly run a block under an ordering assumption {(count_text, bound_text): '<'|'='|'>'} and truth assumptions
    {expr_text: bool}.  -> (result, effects) where result is the abstract return value, ('raise', name) or ('fall',)."""
    e = dict(env or {})
    e['__order__'] = order or {}
    e['__assume__'] = assume or {}
    e['__effects__'] = []
    e['__opaque_ok__'] = True
    try:
        exec_block(stmts, e)
        result = ('fall',)
    except _Return as r:
        result = r.v
    return result, e['__effects__'], e


def show(v) -> str:
    if v[0] == 'raise':
        return f"raise {v[1]}"
    if v[0] == 'opaque':
        return v[1]
    if v[0] == 'fall':
        return 'falls through'
    if v[0] == 'const':
        return repr(v[1])
    if v[0] == 'sym':
        return v[1]
    if v[0] == 'int':
        return f"int({v[1]})"
    if v[0] == 'tuple':
        return '(' + ', '.join(show(x) for x in v[1]) + ')'
    return str(v)
