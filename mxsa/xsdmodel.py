"""An independent reader of the schema files (XSD as *data*).  It shares no code with the library's
XSDTree; it is the left-hand table of every R-TAB rule and the domain oracle of every R-EXH rule."""
import hashlib
import os
import xml.etree.ElementTree as ET
from typing import Dict, List, Optional, Tuple

from .srcmodel import AnalysisError, repo_root

XS = '{http://www.w3.org/2001/XMLSchema}'
FACETS = ('enumeration', 'pattern', 'minInclusive', 'maxInclusive', 'minExclusive', 'maxExclusive',
          'minLength', 'maxLength', 'length', 'totalDigits', 'fractionDigits', 'whiteSpace')


def local(tag: str) -> str:
    return tag.split('}', 1)[1] if '}' in tag else tag


class Attr:
    __slots__ = ('name', 'type', 'use', 'ref', 'fixed', 'default', 'inline_type', 'owner')

    def __init__(self, node, owner):
        a = node.attrib
        self.ref = a.get('ref')
        self.name = a.get('name') or self.ref
        self.type = a.get('type')
        self.use = a.get('use', 'optional')
        self.fixed = a.get('fixed')
        self.default = a.get('default')
        self.inline_type = any(local(c.tag) == 'simpleType' for c in node)
        self.owner = owner

    def row(self):
        return (self.name, self.type, self.use)

    def __repr__(self):
        return f"Attr({self.name}:{self.type} use={self.use}{' ref' if self.ref else ''})"


class Particle:
    """kind in {'element','sequence','choice','group'}"""
    __slots__ = ('kind', 'name', 'type', 'min', 'max', 'children', 'node', 'anonymous')

    def __init__(self, kind, name=None, type_=None, min_=1, max_=1, children=None, node=None, anonymous=False):
        self.kind = kind
        self.name = name
        self.type = type_
        self.min = min_
        self.max = max_          # int or 'unbounded'
        self.children = children or []
        self.node = node
        self.anonymous = anonymous

    def walk(self):
        yield self
        for c in self.children:
            yield from c.walk()

    def leaves(self):
        return [p for p in self.walk() if p.kind == 'element']

    def __repr__(self):
        occ = '' if (self.min, self.max) == (1, 1) else f"{{{self.min},{self.max}}}"
        if self.kind == 'element':
            return f"{self.name}{occ}"
        if self.kind == 'group':
            return f"group:{self.name}{occ}({', '.join(map(repr, self.children))})"
        sep = ', ' if self.kind == 'sequence' else ' | '
        return f"({sep.join(map(repr, self.children))}){occ}"


def _occ(node):
    mn = node.attrib.get('minOccurs')
    mx = node.attrib.get('maxOccurs')
    mn = 1 if mn is None else int(mn)
    mx = 1 if mx is None else ('unbounded' if mx == 'unbounded' else int(mx))
    return mn, mx


class SimpleType:
    def __init__(self, name, node, source):
        self.name = name
        self.node = node
        self.source = source
        self.base = None
        self.facets: List[Tuple[str, str]] = []
        self.union_members: Optional[List[str]] = None
        self.union_inline_enums: List[str] = []
        self.restriction_child_tags: List[str] = []
        for c in node:
            t = local(c.tag)
            if t == 'restriction':
                self.base = c.attrib.get('base')
                for f in c:
                    ft = local(f.tag)
                    self.restriction_child_tags.append(ft)
                    if ft in FACETS:
                        self.facets.append((ft, f.attrib.get('value')))
            elif t == 'union':
                self.union_members = (c.attrib.get('memberTypes') or '').split()
                for st in c:
                    if local(st.tag) == 'simpleType':
                        for r in st:
                            if local(r.tag) == 'restriction':
                                self.union_inline_enums += [f.attrib['value'] for f in r if local(f.tag) == 'enumeration']

    @property
    def enumerations(self):
        return [v for f, v in self.facets if f == 'enumeration']

    @property
    def patterns(self):
        return [v for f, v in self.facets if f == 'pattern']

    def facet_tags(self):
        return [f for f, _ in self.facets]


class ComplexType:
    def __init__(self, name, node, schema, label=None):
        self.name = name
        self.label = label or name
        self.node = node
        self.schema = schema
        self.simple_base = None
        self.complex_base = None
        self.content_shape = 'plain'          # 'plain' | 'simpleContent' | 'complexContent'
        self.own_attr_items: List[Tuple[str, object]] = []   # ('attribute', Attr) | ('attributeGroup', ref)
        self.particle_node = None
        self.extension_has_particles = False
        holder = node
        for c in node:
            t = local(c.tag)
            if t == 'simpleContent':
                self.content_shape = 'simpleContent'
                ext = [e for e in c if local(e.tag) in ('extension', 'restriction')]
                if ext:
                    self.simple_base = ext[0].attrib.get('base')
                    holder = ext[0]
            elif t == 'complexContent':
                self.content_shape = 'complexContent'
                ext = [e for e in c if local(e.tag) in ('extension', 'restriction')]
                if ext:
                    self.complex_base = ext[0].attrib.get('base')
                    holder = ext[0]
                    self.extension_has_particles = any(local(e.tag) in ('sequence', 'choice', 'group', 'all') for e in ext[0])
        for c in holder:
            t = local(c.tag)
            if t == 'attribute':
                self.own_attr_items.append(('attribute', Attr(c, self.label)))
            elif t == 'attributeGroup':
                self.own_attr_items.append(('attributeGroup', c.attrib['ref']))
            elif t in ('sequence', 'choice', 'group', 'all') and self.particle_node is None:
                self.particle_node = c

    def attributes(self, _seen=None) -> List[Attr]:
        out: List[Attr] = []
        if self.complex_base:
            base = self.schema.complex_types.get(self.complex_base)
            if base is None:
                raise AnalysisError(f"complexContent base {self.complex_base} of {self.label} is not a named complex type")
            out += base.attributes()
        for kind, item in self.own_attr_items:
            if kind == 'attribute':
                out.append(item)
            else:
                out += self.schema.attribute_group_attrs(item)
        return out

    def particle(self) -> Optional[Particle]:
        if self.particle_node is not None:
            return self.schema.build_particle(self.particle_node)
        if self.complex_base:
            return self.schema.complex_types[self.complex_base].particle()
        return None


class ElementDecl:
    __slots__ = ('name', 'type', 'node', 'anonymous', 'path', 'min', 'max')

    def __init__(self, name, type_, node, anonymous, path, mn, mx):
        self.name, self.type, self.node, self.anonymous, self.path, self.min, self.max = name, type_, node, anonymous, path, mn, mx


class Schema:
    def __init__(self, root: Optional[str] = None):
        self.repo = root or repo_root()
        gen = os.path.join(self.repo, 'musicxml', 'generate_classes')
        self.main_path = os.path.join(gen, 'musicxml_4_0.xsd')
        self.xml_path = os.path.join(gen, 'xml.xsd')
        self.attr_path = os.path.join(gen, '_attributes.xsd')
        for p in (self.main_path, self.xml_path):
            if not os.path.isfile(p):
                raise AnalysisError(f"schema file {p} not found")
        try:
            self.main_root = ET.parse(self.main_path).getroot()
            self.xml_root = ET.parse(self.xml_path).getroot()
            self.attr_root = ET.parse(self.attr_path).getroot() if os.path.isfile(self.attr_path) else None
        except ET.ParseError as e:
            raise AnalysisError(f"schema file does not parse: {e}")
        self.simple_types: Dict[str, SimpleType] = {}
        self.builtin_simple_types: Dict[str, SimpleType] = {}
        self.complex_types: Dict[str, ComplexType] = {}
        self.anon_complex_types: Dict[str, ComplexType] = {}
        self.groups: Dict[str, ET.Element] = {}
        self.attribute_groups: Dict[str, ET.Element] = {}
        self.top_elements: Dict[str, ET.Element] = {}
        self.duplicates: List[Tuple[str, str]] = []
        self._scan()

    # ------------------------------------------------------------------ scan
    def _scan(self):
        for c in self.xml_root:
            if local(c.tag) == 'simpleType':
                self.builtin_simple_types[c.attrib['name']] = SimpleType(c.attrib['name'], c, 'xml.xsd')
        for c in self.main_root:
            t = local(c.tag)
            n = c.attrib.get('name')
            table = {'simpleType': self.simple_types, 'complexType': self.complex_types, 'group': self.groups,
                     'attributeGroup': self.attribute_groups, 'element': self.top_elements}.get(t)
            if table is None:
                continue
            if n in table:
                self.duplicates.append((t, n))
            if t == 'simpleType':
                table[n] = SimpleType(n, c, 'musicxml_4_0.xsd')
            elif t == 'complexType':
                table[n] = ComplexType(n, c, self)
            else:
                table[n] = c
        # element declarations everywhere
        self.element_decls: List[ElementDecl] = []

        def rec(node, path):
            for c in node:
                t = local(c.tag)
                if t == 'element' and c.attrib.get('name'):
                    name = c.attrib['name']
                    anon = [x for x in c if local(x.tag) == 'complexType']
                    mn, mx = _occ(c)
                    d = ElementDecl(name, c.attrib.get('type'), c, anon[0] if anon else None, path, mn, mx)
                    self.element_decls.append(d)
                    rec(c, path + [('element', name)])
                elif t in ('complexType', 'group', 'attributeGroup', 'simpleType') and c.attrib.get('name'):
                    rec(c, path + [(t, c.attrib['name'])])
                else:
                    rec(c, path)
        rec(self.main_root, [])
        # anonymous complex types keyed by the chain of element/complexType names leading to them
        for d in self.element_decls:
            if d.anonymous is not None:
                label = '/'.join(n for _, n in d.path) + ('/' if d.path else '') + d.name
                self.anon_complex_types[label] = ComplexType(None, d.anonymous, self, label=label)

    # ------------------------------------------------------------------ attribute groups
    def attribute_group_items(self, name) -> List[Tuple[str, object]]:
        node = self.attribute_groups.get(name)
        if node is None:
            raise AnalysisError(f"attributeGroup ref {name} does not resolve")
        out = []
        for c in node:
            t = local(c.tag)
            if t == 'attribute':
                out.append(('attribute', Attr(c, f"attributeGroup:{name}")))
            elif t == 'attributeGroup':
                out.append(('attributeGroup', c.attrib['ref']))
        return out

    def attribute_group_attrs(self, name, _depth=0) -> List[Attr]:
        if _depth > 20:
            raise AnalysisError(f"attributeGroup cycle at {name}")
        out = []
        for kind, item in self.attribute_group_items(name):
            if kind == 'attribute':
                out.append(item)
            else:
                out += self.attribute_group_attrs(item, _depth + 1)
        return out

    # ------------------------------------------------------------------ particles
    def build_particle(self, node, _depth=0) -> Particle:
        if _depth > 30:
            raise AnalysisError("group reference cycle")
        t = local(node.tag)
        mn, mx = _occ(node)
        if t == 'element':
            anon = any(local(x.tag) == 'complexType' for x in node)
            return Particle('element', node.attrib.get('name') or node.attrib.get('ref'), node.attrib.get('type'),
                            mn, mx, node=node, anonymous=anon)
        if t in ('sequence', 'choice', 'all'):
            kids = [self.build_particle(c, _depth + 1) for c in node if local(c.tag) in ('element', 'sequence', 'choice', 'group', 'all')]
            return Particle(t, None, None, mn, mx, kids, node=node)
        if t == 'group':
            ref = node.attrib.get('ref')
            g = self.groups.get(ref)
            if g is None:
                raise AnalysisError(f"group ref {ref} does not resolve")
            kids = [self.build_particle(c, _depth + 1) for c in g if local(c.tag) in ('sequence', 'choice', 'all')]
            return Particle('group', ref, None, mn, mx, kids, node=node)
        raise AnalysisError(f"unknown particle tag {t}")

    # ------------------------------------------------------------------ partwise view
    def partwise_decls(self) -> List[ElementDecl]:
        """Declarations that can occur in a score-partwise document: everything except the
        score-timewise element and what is declared only inside it."""
        return [d for d in self.element_decls
                if d.name != 'score-timewise' and ('element', 'score-timewise') not in d.path]

    def partwise_names(self) -> List[str]:
        return sorted({d.name for d in self.partwise_decls()})

    def all_complex_types(self) -> Dict[str, ComplexType]:
        out = dict(self.complex_types)
        out.update(self.anon_complex_types)
        return out

    def all_attr_refs(self) -> List[str]:
        return [a.attrib['ref'] for a in self.main_root.iter(XS + 'attribute') if a.attrib.get('ref')]

    # ------------------------------------------------------------------ XPath (ElementTree semantics)
    def find(self, xpath: str):
        try:
            return self.main_root.find(xpath)
        except SyntaxError as e:
            raise AnalysisError(f"XPath literal {xpath!r} is not understood: {e}")

    # ------------------------------------------------------------------ fingerprint
    @staticmethod
    def canon(node) -> tuple:
        """Canonical form of a component: annotations, insignificant whitespace and attribute order
        removed; child order kept."""
        kids = tuple(Schema.canon(c) for c in node if local(c.tag) != 'annotation')
        text = (node.text or '').strip()
        attrs = tuple(sorted((k, v) for k, v in node.attrib.items() if k != 'id'))
        return (local(node.tag), attrs, text, kids)

    @staticmethod
    def canon_digest(node) -> str:
        return hashlib.sha256(repr(Schema.canon(node)).encode('utf-8')).hexdigest()[:20]

    def fingerprint(self) -> Dict[str, str]:
        fp = {}
        for fname, root in (('musicxml_4_0.xsd', self.main_root), ('xml.xsd', self.xml_root)):
            for c in root:
                t = local(c.tag)
                if t in ('annotation', 'import'):
                    continue
                key = f"{fname}:{t}:{c.attrib.get('name')}"
                if key in fp:
                    key += '#dup'
                fp[key] = self.canon_digest(c)
            fp[f"{fname}:@schema"] = hashlib.sha256(repr(sorted(
                (k, v) for k, v in root.attrib.items())).encode()).hexdigest()[:20]
        return fp
