"""Statement-level control-flow graph per function, with labelled branch edges, exception edges inside
try blocks, dominators, and reachability queries under branch assumptions."""
import ast
from typing import Callable, Dict, Iterable, List, Optional, Set, Tuple

from .astutil import unparse, short, walk_local

SIMPLE = (ast.Assign, ast.AugAssign, ast.AnnAssign, ast.Expr, ast.Pass, ast.Delete, ast.Global, ast.Nonlocal,
          ast.Import, ast.ImportFrom, ast.Assert, ast.FunctionDef, ast.AsyncFunctionDef, ast.ClassDef)


_NEG = {ast.NotEq: ast.Eq, ast.LtE: ast.Gt, ast.Lt: ast.GtE, ast.IsNot: ast.Is, ast.NotIn: ast.In}


def canon_atom(test):
    """Canonical atomic test: leading `not`s stripped, a comparison with a negative operator (!=, <=, <, is not, not in) replaced by its
    positive counterpart (==, >, >=, is, in).  -> (expression, swapped): swapped means the branch labels T/F exchange their meaning."""
    swapped = False
    while isinstance(test, ast.UnaryOp) and isinstance(test.op, ast.Not):
        test = test.operand
        swapped = not swapped
    if isinstance(test, ast.Compare) and len(test.ops) == 1 and type(test.ops[0]) in _NEG:
        new = ast.Compare(left=test.left, ops=[_NEG[type(test.ops[0])]()], comparators=test.comparators)
        ast.copy_location(new, test)
        new._orig = test            # the comparison as written in the source
        test = new
        swapped = not swapped
    return test, swapped


def _positive(test):
    t, sw = canon_atom(test)
    return (t, 'F', 'T') if sw else (t, 'T', 'F')


class Node:
    __slots__ = ('id', 'kind', 'ast', 'stmt')

    def __init__(self, id_, kind, ast_node=None, stmt=None):
        self.id = id_
        self.kind = kind      # entry | exit | raise | stmt | test | for | with | except | return
        self.ast = ast_node   # statement, or test expression, or iter expression holder
        self.stmt = stmt      # owning ast statement

    @property
    def line(self):
        n = self.ast if self.ast is not None else self.stmt
        return getattr(n, 'lineno', None)

    def text(self):
        if self.kind in ('entry', 'exit', 'raise'):
            return f"<{self.kind}>"
        if self.kind == 'test':
            return f"if {short(self.ast)}"
        if self.kind == 'for':
            return f"for {short(self.stmt.target)} in {short(self.stmt.iter)}"
        if self.kind == 'with':
            return 'with ' + ', '.join(short(i.context_expr) for i in self.stmt.items)
        if self.kind == 'except':
            return 'except ' + short(self.stmt.type)
        return short(self.ast)

    def __repr__(self):
        return f"N{self.id}:{self.text()}"

    def exprs(self) -> List[ast.AST]:
        """The expressions evaluated at this node (not those of nested statements)."""
        if self.kind == 'test':
            return [self.ast]
        if self.kind == 'for':
            return [self.stmt.iter, self.stmt.target]
        if self.kind == 'with':
            out = []
            for i in self.stmt.items:
                out.append(i.context_expr)
                if i.optional_vars is not None:
                    out.append(i.optional_vars)
            return out
        if self.kind == 'except':
            return [self.stmt.type] if self.stmt.type is not None else []
        if self.kind in ('stmt', 'return') and self.ast is not None and not isinstance(self.ast, (ast.FunctionDef, ast.ClassDef)):
            return [self.ast]
        return []


class CFG:
    def __init__(self, fn: ast.FunctionDef):
        self.fn = fn
        self.nodes: List[Node] = []
        self.succ: Dict[Node, List[Tuple[Node, str]]] = {}
        self.pred: Dict[Node, List[Tuple[Node, str]]] = {}
        self.entry = self._new('entry')
        self.exit = self._new('exit')
        self.raise_exit = self._new('raise')
        self.node_of_stmt: Dict[ast.AST, Node] = {}
        self._loop_stack: List[Tuple[Node, List[Node]]] = []      # (continue target, break sources)
        self._try_stack: List[List[Node]] = []                    # handler entry nodes
        ends = self._block(fn.body, [(self.entry, 'next')])
        for n, lab in ends:
            self._edge(n, self.exit, lab)
        self._dom = None

    # ------------------------------------------------------------------ construction
    def _new(self, kind, ast_node=None, stmt=None) -> Node:
        n = Node(len(self.nodes), kind, ast_node, stmt)
        self.nodes.append(n)
        self.succ[n] = []
        self.pred[n] = []
        return n

    def _edge(self, a: Node, b: Node, label='next'):
        if (b, label) not in self.succ[a]:
            self.succ[a].append((b, label))
            self.pred[b].append((a, label))

    def _connect(self, ins, node):
        for n, lab in ins:
            self._edge(n, node, lab)

    def _exc_edges(self, node):
        """A statement inside a try body may transfer to any handler of the enclosing try blocks."""
        for handlers in self._try_stack:
            for h in handlers:
                self._edge(node, h, 'exc')

    def _block(self, stmts, ins):
        """ins: list of (node, label) dangling edges; returns the dangling edges after the block."""
        for s in stmts:
            ins = self._stmt(s, ins)
        return ins

    def _cond(self, e, ins, stmt):
        """Short-circuit structure of a condition: one test node per atom (canonical, see canon_atom); `a and b`, `a or b`, `not` only
        shape the edges.  -> (dangling edges when true, dangling edges when false, first test node)"""
        if isinstance(e, ast.UnaryOp) and isinstance(e.op, ast.Not) and isinstance(e.operand, (ast.BoolOp, ast.UnaryOp)):
            t, f, first = self._cond(e.operand, ins, stmt)
            return f, t, first
        if isinstance(e, ast.BoolOp):
            first = None
            cur = ins
            short = []
            for v in e.values:
                t, f, n = self._cond(v, cur, stmt)
                first = first or n
                if isinstance(e.op, ast.And):
                    short += f
                    cur = t
                else:
                    short += t
                    cur = f
            return (cur, short, first) if isinstance(e.op, ast.And) else (short, cur, first)
        atom, swapped = canon_atom(e)
        n = self._new('test', atom, stmt)
        self._connect(ins, n)
        self._exc_edges(n)
        t, f = [(n, 'T')], [(n, 'F')]
        return (f, t, n) if swapped else (t, f, n)

    def _stmt(self, s, ins):
        if isinstance(s, ast.If):
            t_out, f_out, first = self._cond(s.test, ins, s)
            self.node_of_stmt[s] = first
            a = self._block(s.body, t_out)
            b = self._block(s.orelse, f_out) if s.orelse else f_out
            return a + b
        if isinstance(s, ast.While):
            t_out, f_out, first = self._cond(s.test, ins, s)
            self.node_of_stmt[s] = first
            breaks: List[Node] = []
            self._loop_stack.append((first, breaks))
            body_out = self._block(s.body, t_out)
            self._loop_stack.pop()
            self._connect(body_out, first)
            out = self._block(s.orelse, f_out) if s.orelse else f_out
            return out + [(b, 'break') for b in breaks]
        if isinstance(s, (ast.For, ast.AsyncFor)):
            f = self._new('for', s.iter, s)
            self.node_of_stmt[s] = f
            self._connect(ins, f)
            self._exc_edges(f)
            breaks = []
            self._loop_stack.append((f, breaks))
            body_out = self._block(s.body, [(f, 'loop')])
            self._loop_stack.pop()
            self._connect(body_out, f)
            out = self._block(s.orelse, [(f, 'done')]) if s.orelse else [(f, 'done')]
            return out + [(b, 'break') for b in breaks]
        if isinstance(s, (ast.With, ast.AsyncWith)):
            w = self._new('with', None, s)
            self.node_of_stmt[s] = w
            self._connect(ins, w)
            self._exc_edges(w)
            return self._block(s.body, [(w, 'next')])
        if isinstance(s, ast.Try) or (hasattr(ast, 'TryStar') and isinstance(s, getattr(ast, 'TryStar'))):
            handlers = [self._new('except', None, h) for h in s.handlers]
            for h, hn in zip(s.handlers, handlers):
                self.node_of_stmt[h] = hn
            self._try_stack.append(handlers)
            body_out = self._block(s.body, ins)
            self._try_stack.pop()
            if s.orelse:
                body_out = self._block(s.orelse, body_out)
            outs = list(body_out)
            for h, hn in zip(s.handlers, handlers):
                outs += self._block(h.body, [(hn, 'next')])
            if s.finalbody:
                outs = self._block(s.finalbody, outs)
            return outs
        if isinstance(s, ast.Return):
            n = self._new('return', s, s)
            self.node_of_stmt[s] = n
            self._connect(ins, n)
            self._exc_edges(n)
            self._edge(n, self.exit, 'return')
            return []
        if isinstance(s, ast.Raise):
            n = self._new('stmt', s, s)
            self.node_of_stmt[s] = n
            self._connect(ins, n)
            self._exc_edges(n)
            self._edge(n, self.raise_exit, 'raise')
            return []
        if isinstance(s, ast.Break):
            n = self._new('stmt', s, s)
            self.node_of_stmt[s] = n
            self._connect(ins, n)
            if self._loop_stack:
                self._loop_stack[-1][1].append(n)
            return []
        if isinstance(s, ast.Continue):
            n = self._new('stmt', s, s)
            self.node_of_stmt[s] = n
            self._connect(ins, n)
            if self._loop_stack:
                self._edge(n, self._loop_stack[-1][0], 'continue')
            return []
        if isinstance(s, ast.Match):  # pragma: no cover - not used by the repository
            n = self._new('stmt', s, s)
            self._connect(ins, n)
            outs = []
            for c in s.cases:
                outs += self._block(c.body, [(n, 'case')])
            return outs + [(n, 'nomatch')]
        n = self._new('stmt', s, s)
        self.node_of_stmt[s] = n
        self._connect(ins, n)
        self._exc_edges(n)
        return [(n, 'next')]

    # ------------------------------------------------------------------ queries
    def stmt_nodes(self) -> List[Node]:
        return [n for n in self.nodes if n.kind not in ('entry', 'exit', 'raise')]

    def find_nodes(self, pred: Callable[[Node], bool]) -> List[Node]:
        return [n for n in self.stmt_nodes() if pred(n)]

    def nodes_with_call(self, pred: Callable[[ast.Call], bool]) -> List[Tuple[Node, ast.Call]]:
        out = []
        for n in self.stmt_nodes():
            for e in n.exprs():
                for c in walk_local(e):
                    if isinstance(c, ast.Call) and pred(c):
                        out.append((n, c))
        return out

    def reachable(self, src: Node, avoid: Iterable[Node] = (), edge_ok: Optional[Callable] = None) -> Set[Node]:
        avoid = set(avoid)
        seen = set()
        stack = [src]
        while stack:
            n = stack.pop()
            if n in seen:
                continue
            seen.add(n)
            if n in avoid and n is not src:
                continue
            for m, lab in self.succ[n]:
                if edge_ok is not None and not edge_ok(n, m, lab):
                    continue
                if m not in seen:
                    stack.append(m)
        return seen

    def path_avoiding(self, src: Node, dst: Node, avoid: Iterable[Node] = (), edge_ok=None) -> Optional[List[Node]]:
        """A path src -> dst that does not pass *through* a node of `avoid` (src/dst themselves allowed)."""
        avoid = set(avoid) - {src, dst}
        prev = {src: None}
        queue = [src]
        while queue:
            n = queue.pop(0)
            if n is dst:
                path = []
                while n is not None:
                    path.append(n)
                    n = prev[n]
                return list(reversed(path))
            for m, lab in self.succ[n]:
                if m in prev or m in avoid:
                    continue
                if edge_ok is not None and not edge_ok(n, m, lab):
                    continue
                prev[m] = n
                queue.append(m)
        return None

    def must_pass(self, target: Node, gates: Iterable[Node], edge_ok=None) -> Optional[List[Node]]:
        """None when every entry->target path passes through a gate; otherwise a counter-example path."""
        return self.path_avoiding(self.entry, target, gates, edge_ok)

    def dominators(self) -> Dict[Node, Set[Node]]:
        if self._dom is not None:
            return self._dom
        reach = self.reachable(self.entry)
        nodes = [n for n in self.nodes if n in reach]
        dom = {n: set(nodes) for n in nodes}
        dom[self.entry] = {self.entry}
        changed = True
        while changed:
            changed = False
            for n in nodes:
                if n is self.entry:
                    continue
                preds = [p for p, _ in self.pred[n] if p in reach]
                new = set.intersection(*[dom[p] for p in preds]) if preds else set()
                new = new | {n}
                if new != dom[n]:
                    dom[n] = new
                    changed = True
        self._dom = dom
        return dom

    def dominates(self, a: Node, b: Node) -> bool:
        return a in self.dominators().get(b, set())

    def edge_filter_assuming(self, assumptions: Dict[str, bool]):
        """Edge filter that removes branch edges contradicting `assumptions`: normalised source text of an
        atomic condition -> truth value."""
        canon = dict(assumptions)
        for k, v in assumptions.items():
            try:
                e = ast.parse(k, mode='eval').body
            except SyntaxError:
                continue
            a, sw = canon_atom(e)
            canon.setdefault(unparse(a), (not v) if sw else v)
        assumptions = canon

        def ok(n: Node, m: Node, lab: str) -> bool:
            if n.kind != 'test' or lab not in ('T', 'F'):
                return True
            v = eval3(n.ast, assumptions)
            if v is None:
                return True
            return v == (lab == 'T')
        return ok


def eval3(e, assumptions: Dict[str, bool]) -> Optional[bool]:
    """Three-valued evaluation of a test under assumptions about atoms (by normalised text)."""
    txt = unparse(e)
    if txt in assumptions:
        return assumptions[txt]
    if isinstance(e, ast.UnaryOp) and isinstance(e.op, ast.Not):
        v = eval3(e.operand, assumptions)
        return None if v is None else not v
    if isinstance(e, ast.BoolOp):
        vals = [eval3(x, assumptions) for x in e.values]
        if isinstance(e.op, ast.And):
            if any(v is False for v in vals):
                return False
            if all(v is True for v in vals):
                return True
            return None
        if any(v is True for v in vals):
            return True
        if all(v is False for v in vals):
            return False
        return None
    if isinstance(e, ast.Compare) and len(e.ops) == 1:
        left = unparse(e.left)
        right = e.comparators[0]
        if left in assumptions and isinstance(right, ast.Constant) and isinstance(right.value, bool):
            a = assumptions[left]
            if isinstance(e.ops[0], (ast.Is, ast.Eq)):
                return a == right.value
            if isinstance(e.ops[0], (ast.IsNot, ast.NotEq)):
                return a != right.value
    if isinstance(e, ast.Constant):
        return bool(e.value)
    return None


_CFG_CACHE: Dict[ast.AST, CFG] = {}


def cfg_of(fn_node) -> CFG:
    if fn_node not in _CFG_CACHE:
        _CFG_CACHE[fn_node] = CFG(fn_node)
    return _CFG_CACHE[fn_node]
