"""Source model: import closure, modules, namespaces (star imports x __all__), classes with C3 MRO,
functions (incl. nested), properties.  Built from the working tree on every run."""
import ast
import glob
import os
import hashlib
from typing import Dict, List, Optional, Tuple

from .astutil import literal_str_list, unparse, SCOPE_TYPES

ROOT_MODULES = ['musicxml.xmlelement.xmlelement', 'musicxml.parser.parser']


class AnalysisError(Exception):
    """The analyser cannot understand the tree (vanished anchor, unparsable file, unknown idiom).
    Reported as ANALYSIS-ERROR, exit code 2 - never as a property verdict."""


def repo_root() -> str:
    return os.environ.get('MXSA_REPO', '/repo')


def find_tree_py() -> Optional[str]:
    cands = sorted(glob.glob('/venv/lib/python3*/site-packages/verysimpletree/tree.py'))
    env = os.environ.get('MXSA_TREE_PY')
    if env:
        cands.insert(0, env)
    for c in cands:
        if os.path.isfile(c):
            return c
    return None


class FuncInfo:
    def __init__(self, module, node, cls=None, parent=None):
        self.module = module          # ModuleInfo
        self.node = node              # ast.FunctionDef
        self.cls = cls                # ClassInfo or None
        self.parent = parent          # enclosing FuncInfo or None
        self.name = node.name
        self.nested: Dict[str, 'FuncInfo'] = {}
        decos = [unparse(d) for d in node.decorator_list]
        self.decorators = decos
        self.is_property = 'property' in decos
        self.is_setter = any(d.endswith('.setter') for d in decos)
        self.is_classmethod = 'classmethod' in decos
        self.is_staticmethod = 'staticmethod' in decos
        if parent is not None:
            self.qualname = f"{parent.qualname}.<locals>.{node.name}"
        elif cls is not None:
            self.qualname = f"{cls.name}.{node.name}" + ('[setter]' if self.is_setter else '')
        else:
            self.qualname = node.name

    @property
    def fq(self):
        return f"{self.module.relpath}::{self.qualname}"

    @property
    def params(self) -> List[str]:
        a = self.node.args
        return [x.arg for x in a.posonlyargs + a.args] + ([a.vararg.arg] if a.vararg else []) + \
               [x.arg for x in a.kwonlyargs] + ([a.kwarg.arg] if a.kwarg else [])

    def __repr__(self):
        return f"<Func {self.fq}>"


class ClassInfo:
    def __init__(self, module, node):
        self.module = module
        self.node = node
        self.name = node.name
        self.base_exprs = node.bases
        self.bases: List['ClassInfo'] = []       # resolved (known) bases
        self.unknown_bases: List[str] = []
        self.bindings: Dict[str, ast.AST] = {}    # class-level NAME = value (last one wins)
        self.ann: Dict[str, ast.AST] = {}
        self.methods: Dict[str, FuncInfo] = {}    # plain methods + property getters
        self.setters: Dict[str, FuncInfo] = {}
        self.mro: List['ClassInfo'] = []
        self.doc = ast.get_docstring(node, clean=False)
        for st in node.body:
            if isinstance(st, ast.Assign):
                for t in st.targets:
                    if isinstance(t, ast.Name):
                        self.bindings[t.id] = st.value
            elif isinstance(st, ast.AnnAssign) and isinstance(st.target, ast.Name):
                self.ann[st.target.id] = st.annotation
                if st.value is not None:
                    self.bindings[st.target.id] = st.value

    def lookup(self, name) -> Optional[FuncInfo]:
        for c in self.mro:
            if name in c.methods:
                return c.methods[name]
        return None

    def lookup_setter(self, name) -> Optional[FuncInfo]:
        for c in self.mro:
            if name in c.setters:
                return c.setters[name]
            if name in c.methods:
                return None
        return None

    def lookup_binding(self, name) -> Optional[Tuple['ClassInfo', ast.AST]]:
        for c in self.mro:
            if name in c.bindings:
                return c, c.bindings[name]
        return None

    def is_subclass_of(self, other_name: str) -> bool:
        return any(c.name == other_name for c in self.mro)

    def all_attr_names(self) -> set:
        """Every name resolvable on an instance by ordinary class lookup along the MRO."""
        out = set()
        for c in self.mro:
            out |= set(c.bindings) | set(c.methods) | set(c.setters) | set(c.ann)
        return out

    def __repr__(self):
        return f"<Class {self.module.name}.{self.name}>"


class ModuleInfo:
    def __init__(self, name, path, relpath):
        self.name = name
        self.path = path
        self.relpath = relpath
        with open(path, 'rb') as f:
            raw = f.read()
        self.digest = hashlib.sha256(raw).hexdigest()
        self.source = raw.decode('utf-8')
        try:
            self.tree = ast.parse(self.source, filename=path)
        except SyntaxError as e:
            raise AnalysisError(f"{relpath} does not parse: {e}")
        self.imports: Dict[str, Tuple[str, Optional[str]]] = {}   # local -> (module, attr or None)
        self.star_imports: List[str] = []
        self.classes: Dict[str, ClassInfo] = {}
        self.functions: Dict[str, FuncInfo] = {}
        self.assigns: Dict[str, ast.AST] = {}                    # module-level NAME -> value expr (last)
        self.all: Optional[List[str]] = None
        self.order: List[str] = []                               # binding order of top-level names
        self._scan()

    def rescan(self):
        """after the tree was normalised in place"""
        self.imports, self.star_imports, self.classes, self.functions, self.assigns, self.all, self.order = {}, [], {}, {}, {}, None, []
        self._scan()

    def _scan(self):
        for st in self.tree.body:
            if isinstance(st, ast.Import):
                for a in st.names:
                    local = a.asname or a.name.split('.')[0]
                    self.imports[local] = (a.name if a.asname else a.name.split('.')[0], None)
                    self.order.append(local)
            elif isinstance(st, ast.ImportFrom):
                mod = st.module or ''
                for a in st.names:
                    if a.name == '*':
                        self.star_imports.append(mod)
                    else:
                        self.imports[a.asname or a.name] = (mod, a.name)
                        self.order.append(a.asname or a.name)
            elif isinstance(st, ast.ClassDef):
                self.classes[st.name] = ClassInfo(self, st)
                self.order.append(st.name)
            elif isinstance(st, (ast.FunctionDef, ast.AsyncFunctionDef)):
                self.functions[st.name] = FuncInfo(self, st)
                self.order.append(st.name)
            elif isinstance(st, ast.Assign):
                for t in st.targets:
                    if isinstance(t, ast.Name):
                        self.assigns[t.id] = st.value
                        self.order.append(t.id)
                        if t.id == '__all__':
                            self.all = literal_str_list(st.value)
            elif isinstance(st, ast.AnnAssign) and isinstance(st.target, ast.Name) and st.value is not None:
                self.assigns[st.target.id] = st.value
                self.order.append(st.target.id)

    def imported_modules(self) -> List[str]:
        """Every module mentioned by an import statement anywhere in the file (incl. function bodies)."""
        out = []
        for n in ast.walk(self.tree):
            if isinstance(n, ast.Import):
                out += [a.name for a in n.names]
            elif isinstance(n, ast.ImportFrom) and n.module and n.level == 0:
                out.append(n.module)
                # `from pkg import submodule`
                out += [f"{n.module}.{a.name}" for a in n.names if a.name != '*']
        return out

    def own_public_names(self) -> List[str]:
        names = list(self.classes) + list(self.functions) + list(self.assigns) + list(self.imports)
        return [n for n in names if not n.startswith('_')]


class SourceModel:
    def __init__(self, root: Optional[str] = None, roots: Optional[List[str]] = None):
        self.root = root or repo_root()
        self.modules: Dict[str, ModuleInfo] = {}
        self.tree_py = find_tree_py()
        self.roots = roots or ROOT_MODULES
        for r in self.roots:
            self._load(r, required=True)
        self.normalisation = {'enabled': False, 'reason': 'switched off'}
        if os.environ.get('MXSA_NO_NORMALISE') != '1':
            from .normalise import normalise
            self.normalisation = normalise(self)
            for name in self.normalisation.get('changed_modules', []):
                self.modules[name].rescan()
            self.__dict__.pop('_ns_cache', None)
        self._link_classes()
        self._collect_functions()

    # ---------------------------------------------------------------- loading
    def _module_path(self, name: str) -> Optional[Tuple[str, str]]:
        if name == 'verysimpletree.tree':
            if self.tree_py:
                return self.tree_py, 'site-packages/verysimpletree/tree.py'
            return None
        if name.split('.')[0] != 'musicxml':
            return None
        rel = name.replace('.', '/')
        for cand in (rel + '.py', rel + '/__init__.py'):
            p = os.path.join(self.root, cand)
            if os.path.isfile(p):
                return p, cand
        return None

    def _load(self, name: str, required=False):
        if name in self.modules:
            return
        loc = self._module_path(name)
        if loc is None:
            if required:
                raise AnalysisError(f"anchor module {name} not found under {self.root}")
            return
        m = ModuleInfo(name, loc[0], loc[1])
        self.modules[name] = m
        for dep in m.imported_modules():
            self._load(dep)

    # ---------------------------------------------------------------- namespaces
    def exported(self, modname: str, _seen=None) -> Dict[str, Tuple[str, str]]:
        """Names a `from modname import *` brings in: name -> (defining module, name there)."""
        _seen = _seen or set()
        if modname in _seen or modname not in self.modules:
            return {}
        m = self.modules[modname]
        ns = self.namespace(modname, _seen | {modname})
        if m.all is not None:
            return {n: ns[n] for n in m.all if n in ns}
        return {n: v for n, v in ns.items() if not n.startswith('_')}

    def namespace(self, modname: str, _seen=None) -> Dict[str, Tuple[str, str]]:
        """Module global namespace after import: name -> (defining module, original name).  Names of
        modules outside the closure map to (module, name) with the module absent from self.modules."""
        key = ('ns', modname)
        cache = self.__dict__.setdefault('_ns_cache', {})
        if key in cache and not _seen:
            return cache[key]
        m = self.modules[modname]
        ns: Dict[str, Tuple[str, str]] = {}
        for star in m.star_imports:
            ns.update(self.exported(star, (_seen or set()) | {modname}))
        for local, (mod, attr) in m.imports.items():
            if attr is None:
                ns[local] = (mod, '')
            elif mod in self.modules:
                sub = self.namespace(mod, (_seen or set()) | {modname}) if mod not in (_seen or set()) else {}
                ns[local] = sub.get(attr, (mod, attr))
            else:
                ns[local] = (mod, attr)
        for n in list(m.classes) + list(m.functions) + list(m.assigns):
            ns[n] = (modname, n)
        if not _seen:
            cache[key] = ns
        return ns

    def resolve_name(self, modname: str, name: str):
        """-> ('class', ClassInfo) | ('func', FuncInfo) | ('assign', (ModuleInfo, expr)) | ('ext', (mod, name)) | None"""
        ns = self.namespace(modname)
        if name not in ns:
            return None
        mod, orig = ns[name]
        if mod not in self.modules:
            return 'ext', (mod, orig)
        m = self.modules[mod]
        if orig in m.classes:
            return 'class', m.classes[orig]
        if orig in m.functions:
            return 'func', m.functions[orig]
        if orig in m.assigns:
            return 'assign', (m, m.assigns[orig])
        if orig == '':
            return 'ext', (mod, '')
        return None

    # ---------------------------------------------------------------- classes
    def _link_classes(self):
        self.classes_by_name: Dict[str, List[ClassInfo]] = {}
        for m in self.modules.values():
            for c in m.classes.values():
                self.classes_by_name.setdefault(c.name, []).append(c)
        for m in self.modules.values():
            for c in m.classes.values():
                for b in c.base_exprs:
                    bname = None
                    if isinstance(b, ast.Name):
                        bname = b.id
                    elif isinstance(b, ast.Subscript) and isinstance(b.value, ast.Name):
                        bname = b.value.id     # Generic[T], Tree[Any]
                    r = self.resolve_name(m.name, bname) if bname else None
                    if r and r[0] == 'class':
                        c.bases.append(r[1])
                    else:
                        c.unknown_bases.append(unparse(b))
        for m in self.modules.values():
            for c in m.classes.values():
                c.mro = self._c3(c)

    def _c3(self, c: ClassInfo, _depth=0) -> List[ClassInfo]:
        if _depth > 50:
            raise AnalysisError(f"cyclic class hierarchy at {c.name}")
        seqs = [self._c3(b, _depth + 1) for b in c.bases] + [list(c.bases)]
        out = [c]
        seqs = [list(s) for s in seqs if s]
        while seqs:
            for s in seqs:
                head = s[0]
                if not any(head in t[1:] for t in seqs):
                    break
            else:
                raise AnalysisError(f"inconsistent MRO for {c.name}")
            out.append(head)
            seqs = [[x for x in s if x is not head] for s in seqs]
            seqs = [s for s in seqs if s]
        return out

    def get_class(self, name: str, module: Optional[str] = None) -> Optional[ClassInfo]:
        lst = self.classes_by_name.get(name, [])
        if module:
            lst = [c for c in lst if c.module.name == module]
        return lst[0] if lst else None

    def subclasses(self, name: str) -> List[ClassInfo]:
        cache = self.__dict__.setdefault('_sub_cache', {})
        if name not in cache:
            cache[name] = [c for m in self.modules.values() for c in m.classes.values() if c.is_subclass_of(name)]
        return cache[name]

    # ---------------------------------------------------------------- functions
    def _collect_functions(self):
        self.functions: List[FuncInfo] = []
        self.func_of_node: Dict[ast.AST, FuncInfo] = {}

        def add_nested(fi: FuncInfo):
            self.functions.append(fi)
            self.func_of_node[fi.node] = fi
            for st in ast.walk(fi.node):
                pass
            # direct nested defs only (walk without entering deeper scopes)
            stack = list(fi.node.body)
            while stack:
                n = stack.pop()
                if isinstance(n, (ast.FunctionDef, ast.AsyncFunctionDef)):
                    sub = FuncInfo(fi.module, n, cls=fi.cls, parent=fi)
                    fi.nested[n.name] = sub
                    add_nested(sub)
                    continue
                if isinstance(n, (ast.ClassDef, ast.Lambda)):
                    continue
                stack.extend(ast.iter_child_nodes(n))

        for m in self.modules.values():
            for f in m.functions.values():
                add_nested(f)
            for c in m.classes.values():
                for st in c.node.body:
                    if isinstance(st, (ast.FunctionDef, ast.AsyncFunctionDef)):
                        fi = FuncInfo(m, st, cls=c)
                        if fi.is_setter:
                            c.setters[st.name] = fi
                        else:
                            c.methods[st.name] = fi
                        add_nested(fi)

    def func(self, cls_name: Optional[str], name: str, module: Optional[str] = None, setter=False,
             required=True) -> Optional[FuncInfo]:
        """Look up a function by class (own definition, not inherited) and name."""
        if cls_name:
            c = self.get_class(cls_name, module)
            if c is None:
                if required:
                    raise AnalysisError(f"anchor class {cls_name} not found")
                return None
            f = (c.setters if setter else c.methods).get(name)
            if f is None and required:
                raise AnalysisError(f"anchor {cls_name}.{name}{'[setter]' if setter else ''} not found")
            return f
        for m in self.modules.values():
            if module and m.name != module:
                continue
            if name in m.functions:
                return m.functions[name]
        if required:
            raise AnalysisError(f"anchor function {name} not found")
        return None

    def nested(self, fi: FuncInfo, name: str, required=True) -> Optional[FuncInfo]:
        f = fi.nested.get(name)
        if f is None and required:
            raise AnalysisError(f"anchor {fi.qualname}.<locals>.{name} not found")
        return f

    def digest(self) -> str:
        h = hashlib.sha256()
        for n in sorted(self.modules):
            h.update(n.encode())
            h.update(self.modules[n].digest.encode())
        return h.hexdigest()[:16]

    def stats(self) -> dict:
        return {'modules': sorted(self.modules),
                'n_modules': len(self.modules),
                'n_classes': sum(len(m.classes) for m in self.modules.values()),
                'n_functions': len(self.functions),
                'source_digest': self.digest()}
