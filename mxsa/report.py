"""Obligations, findings, known-findings matching, evidence and replay files, exit codes."""
import json
import os
import sys
import time
from typing import List, Optional

VERIF = os.path.dirname(os.path.dirname(os.path.abspath(__file__)))
EVIDENCE_DIR = os.environ.get('MXSA_EVIDENCE_DIR') or os.path.join(VERIF, 'evidence')
KNOWN_FINDINGS = os.path.join(VERIF, 'known_findings.json')


class Obligation:
    __slots__ = ('rule', 'where', 'what', 'status', 'detail', 'key', 'line')

    def __init__(self, rule, where, what, status, detail='', key=None, line=None):
        self.rule, self.where, self.what, self.status, self.detail, self.key, self.line = \
            rule, where, what, status, detail, key, line

    def as_sample(self):
        d = {'rule': self.rule, 'construct': self.where, 'obligation': self.what, 'verdict': self.status}
        if self.detail:
            d['detail'] = self.detail
        if self.line:
            d['line'] = self.line
        return d


class Result:
    """Collects what one run of one property check covered."""

    def __init__(self, pid: str, tier: str, level: str):
        self.pid = pid
        self.tier = tier
        self.level = level
        self.obligations: List[Obligation] = []
        self.notes: List[str] = []
        self.assumptions: List[str] = []
        self.extra: dict = {}
        self.rules: dict = {}          # rule id -> one-line description
        self.t0 = time.time()
        self.floors: List[tuple] = []  # (rule, matched, floor)
        self.irrelevant_prefixes: List[str] = []   # rule instances of shared row sets that do not bear on this property

    # -- recording -----------------------------------------------------------------------------
    def rule(self, rid: str, text: str):
        self.rules[rid] = text

    def ok(self, rule, where, what, detail='', line=None):
        self.obligations.append(Obligation(rule, where, what, 'discharged', detail, None, line))

    def assumed(self, rule, where, what, detail='', line=None):
        self.obligations.append(Obligation(rule, where, what, 'assumed', detail, None, line))

    def finding(self, rule, where, what, detail='', key=None, line=None):
        """A violated obligation.  `key` identifies it for the known-findings file: rule + construct,
        never a line number."""
        k = key or f"{rule}|{where}|{what}"
        if any(k.startswith(p) for p in self.irrelevant_prefixes):
            return
        self.obligations.append(Obligation(rule, where, what, 'violated', detail, k, line))

    def check(self, cond: bool, rule, where, what, detail='', key=None, line=None, fail_detail=None):
        if cond:
            self.ok(rule, where, what, detail, line)
        else:
            self.finding(rule, where, what, fail_detail if fail_detail is not None else detail, key, line)
        return cond

    def floor(self, rule: str, matched: int, floor: int):
        """Vacuity guard: a rule that matched fewer instances than were confirmed by hand."""
        self.floors.append((rule, matched, floor))

    def note(self, s):
        self.notes.append(s)

    def assume(self, s):
        if s not in self.assumptions:
            self.assumptions.append(s)

    # -- finishing -----------------------------------------------------------------------------
    def violated(self) -> List[Obligation]:
        return [o for o in self.obligations if o.status == 'violated']


def load_known():
    if not os.path.isfile(KNOWN_FINDINGS):
        return []
    with open(KNOWN_FINDINGS, encoding='utf-8') as f:
        data = json.load(f)
    return [e for e in data.get('findings', []) if e.get('status', 'open') == 'open']


def finish(res: Result, seed: int = 0, stats: Optional[dict] = None, quiet=False) -> int:
    """Print the verdict lines, write evidence + replay files, return the exit code."""
    from .srcmodel import AnalysisError
    for rule, matched, floor in res.floors:
        if matched < floor and not res.violated():
            raise AnalysisError(f"vacuity guard: rule {rule} matched {matched} instance(s), "
                                f"{floor} were confirmed by hand on the pinned tree")
    known = load_known()
    os.makedirs(os.path.join(EVIDENCE_DIR, 'replay'), exist_ok=True)
    violations = []
    known_hits = []
    seen_keys = set()
    for o in res.violated():
        if o.key in seen_keys:
            continue
        seen_keys.add(o.key)
        hit = None
        for e in known:
            if res.pid in e.get('properties', []) and o.key in e.get('keys', []):
                hit = e
                break
        if hit is not None:
            known_hits.append((hit, o))
        else:
            violations.append(o)
    # A violation located in a function that calls a helper which is not in the reference inventory and which the normaliser could not expand
    # (a `return` inside a loop, a generator ...): the rules see only part of what that function does.  Reporting "the shape is wrong" there would be a
    # guess; the honest verdict is that the analysis does not apply (exit 2), unless every such violation is reported by an interprocedural rule.
    left = (stats or {}).get('normalisation', {}).get('calls_left_as_calls') or []
    # only helpers that hide control flow of their caller (returns inside loops, generators, budget): a helper that is a plain function of its arguments
    # (not expanded because one of its globals is not visible in the caller's module) leaves the caller's shape visible - what it does to a value is
    # for the value-flow rules to judge
    HIDING = ('a return', 'contains ', 'expansion budget', 'decorated', '*args', 'async', 'calls ')
    opaque_callers = {c.get('caller') for c in left if isinstance(c, dict) and str(c.get('why', '')).startswith(HIDING)}
    if violations and opaque_callers:
        INTERPROCEDURAL = ('R-ATOM', 'R-EFF.', 'R-MEMO', 'R-OWN.', 'R-COPY.', 'R-TAINT.', 'R-ENC', 'R-TAB.')
        opaque_modules = {c.split('::')[0] for c in opaque_callers if c}
        blind = [o for o in violations if (o.where in opaque_callers or o.where in opaque_modules) and not o.rule.startswith(INTERPROCEDURAL)]
        if blind and len(blind) == len(violations):
            helpers = sorted({c.get('helper', '?').split('::')[-1] for c in left if c.get('caller') in opaque_callers})
            raise AnalysisError(f"{blind[0].where}: calls {helpers} - new helper(s) the normaliser could not expand ({left[0].get('why')}); the shape rule "
                                f"{blind[0].rule} sees only part of the function (idiom not understood)")
    out = []
    printed_kf = set()
    for e, o in known_hits:
        if e['id'] in printed_kf:
            continue
        printed_kf.add(e['id'])
        out.append(f"KNOWN-FINDING: property={res.pid} {e['id']} {e['what']} [{o.rule} at {o.where}]")
    for i, o in enumerate(violations, 1):
        path = os.path.join(EVIDENCE_DIR, 'replay', f"{res.pid}-{i}.json")
        with open(path, 'w', encoding='utf-8') as f:
            json.dump({'property': res.pid, 'rule': o.rule, 'rule_text': res.rules.get(o.rule, ''),
                       'construct': o.where, 'line': o.line, 'obligation': o.what, 'detail': o.detail,
                       'key': o.key}, f, indent=1)
        out.append(f"VIOLATION property={res.pid} replay={path}")
        out.append(f"  rule {o.rule}: {res.rules.get(o.rule, '')}")
        out.append(f"  at {o.where}" + (f" (line {o.line})" if o.line else ''))
        out.append(f"  {o.what}" + (f" -- {o.detail}" if o.detail else ''))
    # stale replay files of earlier runs
    i = len(violations) + 1
    while True:
        p = os.path.join(EVIDENCE_DIR, 'replay', f"{res.pid}-{i}.json")
        if not os.path.isfile(p):
            break
        os.remove(p)
        i += 1

    n_ob = len(res.obligations)
    n_ok = sum(1 for o in res.obligations if o.status in ('discharged', 'assumed'))
    distinct = len({(o.rule, o.where, o.what) for o in res.obligations})
    # samples: every violated one, then a spread over the rules
    samples = [o.as_sample() for o in res.violated()][:20]
    per_rule = {}
    for o in res.obligations:
        if o.status != 'violated':
            per_rule.setdefault(o.rule, []).append(o)
    for rule, lst in per_rule.items():
        for o in lst[:3]:
            samples.append(o.as_sample())
    by_rule = {}
    for o in res.obligations:
        d = by_rule.setdefault(o.rule, {'obligations': 0, 'discharged': 0, 'assumed': 0, 'violated': 0})
        d['obligations'] += 1
        d[o.status] += 1
    coverage = {
        'explanation': ("static analysis of /repo's current source (ast) and schema files (as data); "
                        "every obligation is one rule instance at one construct; nothing is executed or sampled. "
                        + ' '.join(f"[{k}] {v}" for k, v in res.rules.items())),
        'obligations': n_ob,
        'discharged': n_ok,
        'evaluations': max(n_ob, 1),
        'distinct_nontrivial': distinct,
        'rule': "one evaluation = one rule instance (rule id x construct) enumerated from the source/schema on this run; "
                "distinct = distinct (rule, construct, obligation) triples; all carry a verdict",
        'samples': samples[:60],
        'exhaustive': True,
        'by_rule': by_rule,
        'known_findings_matched': [e['id'] for e, _ in known_hits],
        'vacuity_floors': [{'rule': r, 'matched': m, 'floor': fl} for r, m, fl in res.floors],
        'checker_cmd': f"./check {res.pid} --tier {res.tier}",
        'trusted_base': ['CPython ast module', 'xml.etree.ElementTree (to read the .xsd files as data)'],
        'musicxml_imported': any(m == 'musicxml' or m.startswith('musicxml.') for m in sys.modules),
    }
    if res.level == 'translation_validation':
        coverage['programs'] = res.extra.get('programs', max(n_ob, 1))
        coverage['disagreements_checked'] = len(res.violated())
    coverage.update(res.extra)
    if stats:
        coverage['analysed'] = stats
    if res.notes:
        coverage['notes'] = res.notes
    ev = {'property_id': res.pid, 'tier': res.tier, 'seed': int(seed), 'level': res.level,
          'coverage': coverage, 'assumptions': res.assumptions, 'wall_s': round(time.time() - res.t0, 3),
          'violations': len(violations)}
    with open(os.path.join(EVIDENCE_DIR, f"{res.pid}.json"), 'w', encoding='utf-8') as f:
        json.dump(ev, f, indent=1, ensure_ascii=False)
    if not quiet:
        print(f"{res.pid} [{res.tier}] obligations={n_ob} discharged={n_ok} known-findings={len(printed_kf)} "
              f"violations={len(violations)} wall={ev['wall_s']}s")
        for rule, d in by_rule.items():
            print(f"  {rule}: {d['obligations']} obligation(s), {d['violated']} violated")
    for line in out:
        print(line)
    return 1 if violations else 0
