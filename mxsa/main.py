"""Driver: ./check <Cxx> [--tier quick|thorough] [--replay file]"""
import argparse
import importlib
import json
import os
import sys
import time
import traceback

from .srcmodel import SourceModel, AnalysisError
from .xsdmodel import Schema
from . import report

LEVELS = {'C03': 'translation_validation'}


class Context:
    def __init__(self, pid, tier):
        self.pid = pid
        self.tier = tier
        self.sm = SourceModel()
        self.schema = Schema()
        self.res = report.Result(pid, tier, LEVELS.get(pid, 'other'))
        self._cache = {}

    def lazy(self, key, builder):
        if key not in self._cache:
            self._cache[key] = builder()
        return self._cache[key]


def run_property(pid: str, tier: str, seed: int, quiet=False, shared=None) -> int:
    try:
        mod = importlib.import_module(f"mxsa.props.{pid.lower()}")
    except ModuleNotFoundError:
        print(f"ANALYSIS-ERROR property={pid}: no check is implemented for this property")
        return 2
    try:
        if shared is not None and shared.get('ctx') is not None:
            # several properties in one process: the source model, call graph and effect summaries are built once
            ctx = shared['ctx']
            ctx.pid = pid
            ctx.res = report.Result(pid, tier, LEVELS.get(pid, 'other'))
        else:
            ctx = Context(pid, tier)
            if shared is not None:
                shared['ctx'] = ctx
        mod.run(ctx)
        stats = ctx.sm.stats()
        stats['repo'] = ctx.sm.root
        nz = dict(ctx.sm.normalisation)
        nz.pop('changed_modules', None)
        stats['normalisation'] = nz
        if 'cg' in ctx._cache:
            stats.update(ctx._cache['cg'].stats())
        return report.finish(ctx.res, seed=seed, stats=stats, quiet=quiet)
    except AnalysisError as e:
        print(f"ANALYSIS-ERROR property={pid}: {e}")
        return 2
    except Exception:
        traceback.print_exc()
        print(f"ANALYSIS-ERROR property={pid}: internal error in the analyser (see traceback)")
        return 2


def main(argv=None):
    ap = argparse.ArgumentParser(prog='check')
    ap.add_argument('property', nargs='?')
    ap.add_argument('--tier', default=os.environ.get('VERIF_TIER') or 'quick', choices=['quick', 'thorough'])
    ap.add_argument('--replay')
    ap.add_argument('--all', action='store_true')
    ap.add_argument('--selftest', action='store_true')
    ap.add_argument('--quiet', action='store_true')
    a, rest = ap.parse_known_args(argv)
    try:
        seed = int(os.environ.get('VERIF_SEED', '0') or 0)
    except ValueError:
        seed = 0
    if a.selftest:
        from . import selftest
        return selftest.main(([a.property] if a.property else []) + rest)
    if a.all:
        rc = 0
        with open(os.path.join(report.VERIF, 'MANIFEST.json')) as f:
            man = json.load(f)
        shared = {}
        for c in man['checks']:
            r = run_property(c['property_id'], a.tier, seed, quiet=a.quiet, shared=shared)
            rc = max(rc, r)
        return rc
    if not a.property:
        ap.error('property id required')
    pid = a.property.upper()
    if a.replay:
        with open(a.replay) as f:
            rp = json.load(f)
        print(f"replaying {rp.get('rule')} at {rp.get('construct')}: {rp.get('obligation')}")
        os.environ['MXSA_REPLAY_KEY'] = rp.get('key', '')
    rc = run_property(pid, a.tier, seed, quiet=a.quiet)
    if rc == 0 and a.tier == 'thorough':
        from . import selftest
        rc = selftest.run_for_property(pid)
    return rc


if __name__ == '__main__':
    sys.exit(main())
