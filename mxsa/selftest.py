"""Sensitivity controls (DESIGN.md section 7): must-fire edits and must-stay-silent refactorings, applied to
scratch copies outside /repo and /verif.  Filled in controls/*.py; see run_for_property."""
import sys


def run_for_property(pid: str) -> int:
    try:
        from . import controls
    except ImportError:
        return 0
    return controls.run(pid)


def main(argv) -> int:
    try:
        from . import controls
    except ImportError:
        print("no controls defined yet")
        return 0
    return controls.run_all(argv)
