"""Small helpers over `ast`."""
import ast
from typing import Iterator, Optional, List

FUNC_TYPES = (ast.FunctionDef, ast.AsyncFunctionDef, ast.Lambda)
SCOPE_TYPES = FUNC_TYPES + (ast.ClassDef,)


def unparse(node) -> str:
    """Normalised source text of a node (formatting, quotes, parentheses removed)."""
    if node is None:
        return ''
    if isinstance(node, list):
        return '; '.join(unparse(n) for n in node)
    try:
        return ast.unparse(node)
    except Exception:  # pragma: no cover
        return ast.dump(node)


def short(node, n=110) -> str:
    s = ' '.join(unparse(node).split())
    return s if len(s) <= n else s[:n - 3] + '...'


def walk_local(node, include_root=True) -> Iterator[ast.AST]:
    """ast.walk that does not descend into nested function/class/lambda scopes (comprehensions are
    walked: their bodies execute inline for our purposes)."""
    stack = [node]
    first = True
    while stack:
        n = stack.pop()
        if not first and isinstance(n, SCOPE_TYPES):
            continue
        if include_root or not first:
            yield n
        first = False
        stack.extend(reversed(list(ast.iter_child_nodes(n))))


def walk_stmts_local(stmts) -> Iterator[ast.AST]:
    for s in stmts:
        if isinstance(s, SCOPE_TYPES):
            continue
        yield from walk_local(s)


def dotted(node) -> Optional[str]:
    """'a.b.c' for Name/Attribute chains, None otherwise."""
    parts = []
    while isinstance(node, ast.Attribute):
        parts.append(node.attr)
        node = node.value
    if isinstance(node, ast.Name):
        parts.append(node.id)
        return '.'.join(reversed(parts))
    return None


def call_name(call: ast.Call) -> Optional[str]:
    """Last component of the callee: `x.y.f(...)` -> 'f', `f(...)` -> 'f'."""
    f = call.func
    if isinstance(f, ast.Attribute):
        return f.attr
    if isinstance(f, ast.Name):
        return f.id
    return None


def calls_in(node, local=True) -> List[ast.Call]:
    it = walk_local(node) if local else ast.walk(node)
    return [n for n in it if isinstance(n, ast.Call)]


def names_in(node) -> set:
    return {n.id for n in ast.walk(node) if isinstance(n, ast.Name)}


def const_value(node, default=None):
    if isinstance(node, ast.Constant):
        return node.value
    return default


def is_const(node, value) -> bool:
    return isinstance(node, ast.Constant) and node.value == value and type(node.value) is type(value)


def literal_str_list(node) -> Optional[List[str]]:
    if isinstance(node, (ast.List, ast.Tuple, ast.Set)):
        out = []
        for e in node.elts:
            if isinstance(e, ast.Constant) and isinstance(e.value, str):
                out.append(e.value)
            else:
                return None
        return out
    return None


def get_kw(call: ast.Call, name: str):
    for kw in call.keywords:
        if kw.arg == name:
            return kw.value
    return None


def stmt_key(node) -> str:
    """Key of a statement for findings: normalised text of the statement head (no body)."""
    if isinstance(node, (ast.If, ast.While)):
        return f"{type(node).__name__.lower()} {short(node.test, 160)}"
    if isinstance(node, ast.For):
        return f"for {short(node.target)} in {short(node.iter, 140)}"
    if isinstance(node, ast.With):
        return "with " + ', '.join(short(i.context_expr) for i in node.items)
    if isinstance(node, ast.Try):
        return "try"
    if isinstance(node, ast.ExceptHandler):
        return "except " + short(node.type)
    if isinstance(node, (ast.FunctionDef, ast.ClassDef)):
        return f"def {node.name}"
    return short(node, 200)


def parent_map(root) -> dict:
    pm = {}
    for n in ast.walk(root):
        for c in ast.iter_child_nodes(n):
            pm[c] = n
    return pm


def enclosing_stmt(node, pm):
    while node is not None and not isinstance(node, ast.stmt):
        node = pm.get(node)
    return node


def local_names(fn_node) -> set:
    """Parameters and locally bound names of a function (not descending into nested scopes)."""
    out = set()
    a = fn_node.args
    for x in a.posonlyargs + a.args + a.kwonlyargs:
        out.add(x.arg)
    if a.vararg:
        out.add(a.vararg.arg)
    if a.kwarg:
        out.add(a.kwarg.arg)
    for n in walk_local(fn_node, include_root=False):
        if isinstance(n, ast.Name) and isinstance(n.ctx, ast.Store):
            out.add(n.id)
    return out - {'self', 'cls'}


def norm_text(node, fn_node=None, limit=90) -> str:
    """Source text of a construct with the enclosing function's local variable names replaced by positional placeholders
    ($0, $1, ... in order of appearance), so that renaming a local does not change the text.  Used for finding keys."""
    import copy
    if fn_node is None:
        return short(node, limit)
    locs = local_names(fn_node)
    # walk up to an enclosing function's locals as well (free variables of nested helpers)
    mapping = {}

    class R(ast.NodeTransformer):
        def visit_Name(self, n):
            if n.id in locs:
                mapping.setdefault(n.id, f"${len(mapping)}")
                return ast.copy_location(ast.Name(id=mapping[n.id], ctx=n.ctx), n)
            return n

        def visit_arg(self, n):
            return n
    try:
        cp = copy.deepcopy(node)
        cp = R().visit(cp)
        return short(cp, limit)
    except Exception:
        return short(node, limit)
