"""Resolved call graph: calls, property reads/writes, constructor calls, dynamic dispatch over subclasses.
Receivers the typing cannot resolve fall back to resolution by member name and are counted."""
import ast
from typing import Dict, List, Optional, Set, Tuple

from .astutil import unparse, dotted, walk_local, const_value
from .srcmodel import SourceModel, FuncInfo
from .typing import Typing


class Edge:
    __slots__ = ('caller', 'node', 'callee', 'kind', 'resolved', 'recv')

    def __init__(self, caller, node, callee, kind, resolved=True, recv=None):
        self.caller, self.node, self.callee, self.kind, self.resolved, self.recv = caller, node, callee, kind, resolved, recv

    def __repr__(self):
        return f"{self.caller.qualname} -[{self.kind}{'' if self.resolved else '?'}]-> {self.callee.qualname}"


class ExtCall:
    __slots__ = ('caller', 'node', 'name')

    def __init__(self, caller, node, name):
        self.caller, self.node, self.name = caller, node, name


class CallGraph:
    def __init__(self, sm: SourceModel, ty: Optional[Typing] = None):
        self.sm = sm
        self.ty = ty or Typing(sm)
        self.edges: List[Edge] = []
        self.out: Dict[FuncInfo, List[Edge]] = {}
        self.inn: Dict[FuncInfo, List[Edge]] = {}
        self.ext: Dict[FuncInfo, List[ExtCall]] = {}
        self.by_node: Dict[ast.AST, List[Edge]] = {}
        self.unresolved_sites: List[Tuple[FuncInfo, ast.AST, str]] = []
        self.n_sites = 0
        self.n_resolved_sites = 0
        self.n_external_sites = 0
        self._by_name: Dict[str, List[FuncInfo]] = {}
        for f in sm.functions:
            if f.parent is None:
                self._by_name.setdefault(f.name, []).append(f)
        self._fq = {f.fq: f for f in sm.functions}
        self._props = self._xml_properties()
        # receiver-family contexts for the generic Tree methods: one clone per Tree family, so that `self.m()` inside a Tree
        # method dispatches within the family of the object the method was called on
        self.clones: Dict[Tuple[FuncInfo, str], FuncInfo] = {}
        self.families = [c.name for c in sm.subclasses('Tree') if c.name != 'Tree' and [b.name for b in c.bases] and 'Tree' in [b.name for b in c.bases]
                         and c.module.name.startswith('musicxml')]
        tree = sm.get_class('Tree')
        if tree is not None:
            for m in list(tree.methods.values()) + list(tree.setters.values()):
                for fam in self.families:
                    cl = FuncInfo(m.module, m.node, cls=m.cls, parent=None)
                    cl.qualname = f"{m.qualname}@{fam}"
                    cl.ctx_family = fam
                    self.clones[(m, fam)] = cl
        for f in sm.functions:
            self._scan(f)
        for cl in self.clones.values():
            self._scan(cl)
        # module level code (import time) as pseudo functions is not needed by any rule

    def _xml_properties(self) -> Set[str]:
        c = self.sm.get_class('XMLElement')
        out = set()
        if c and '_PROPERTIES' in c.bindings and isinstance(c.bindings['_PROPERTIES'], ast.Set):
            out = {const_value(e) for e in c.bindings['_PROPERTIES'].elts}
        return out

    # ------------------------------------------------------------------------------------------
    def all_functions(self) -> List[FuncInfo]:
        return list(self.sm.functions) + list(self.clones.values())

    def _family_of(self, cname: Optional[str]) -> Optional[str]:
        if cname is None:
            return None
        fam = self.ty.tree_family(cname)
        return fam if fam in self.families else None

    def _contextualise(self, caller, callee, recv, kind='call'):
        """Map a callee to its receiver-family clone (Tree methods), or drop it (an override of another family reached from a
        family-bound Tree clone).  -> FuncInfo or None"""
        ctx = getattr(caller, 'ctx_family', None)
        if callee.cls is None or callee.parent is not None:
            return callee
        cname = callee.cls.name
        if cname == 'Tree' and not getattr(callee, 'ctx_family', None):
            fam = None
            rfam = self._family_of(recv[1]) if recv is not None and recv[0] in ('inst', 'cls') else None
            if ctx is not None and (recv is None or rfam is None or recv[1] == 'Tree'):
                fam = ctx
            elif rfam is not None:
                fam = rfam
            if fam is not None and kind != 'super':
                head = self.sm.get_class(fam)
                if head is not None and (callee.name in head.methods or (callee.is_setter and callee.name in head.setters)) \
                        and not (callee.is_setter and callee.name not in head.setters):
                    return None       # the family's head class overrides this Tree method: objects of the family never run Tree's version
            if fam is not None and (callee, fam) in self.clones:
                return self.clones[(callee, fam)]
            return callee
        if ctx is not None and callee.cls.is_subclass_of('Tree') and cname != 'Tree':
            fam = self._family_of(cname)
            if fam is not None and fam != ctx and (recv is None or recv[1] == 'Tree' or self._family_of(recv[1]) != fam):
                return None
        return callee

    def _add(self, caller, node, callee, kind, resolved=True, recv=None):
        if callee is None:
            return
        callee = self._contextualise(caller, callee, recv, kind)
        if callee is None:
            return
        e = Edge(caller, node, callee, kind, resolved, recv)
        self.edges.append(e)
        self.out.setdefault(caller, []).append(e)
        self.inn.setdefault(callee, []).append(e)
        self.by_node.setdefault(node, []).append(e)

    def _scan(self, fi: FuncInfo):
        self.out.setdefault(fi, [])
        self.ext.setdefault(fi, [])
        stores = set()
        for n in walk_local(fi.node, include_root=False):
            if isinstance(n, (ast.Assign, ast.AugAssign, ast.AnnAssign)):
                tg = n.targets if isinstance(n, ast.Assign) else [n.target]
                for t in tg:
                    for x in ast.walk(t):
                        if isinstance(x, ast.Attribute) and isinstance(x.ctx, ast.Store):
                            stores.add(x)
        for n in walk_local(fi.node, include_root=False):
            if isinstance(n, ast.Call):
                self._call(fi, n)
            elif isinstance(n, ast.Attribute):
                if n in stores:
                    self._attr_store(fi, n)
                elif isinstance(n.ctx, ast.Load):
                    self._attr_load(fi, n)
                elif isinstance(n.ctx, ast.Del):
                    pass

    def _attr_load(self, fi, n: ast.Attribute):
        recv = self.ty.type_of(n.value)
        for r in recv:
            if r[0] in ('inst', 'cls'):
                ms = self.ty.member(r, n.attr)
                for m in ms:
                    if m[0] == 'property':
                        self._add(fi, n, m[1], 'prop-get', True, r)
                if not ms and r[0] == 'inst':
                    c = self.sm.get_class(r[1])
                    if c is not None and c.lookup('__getattr__') is not None and not n.attr.startswith('__') \
                            and not (hasattr(str, n.attr) or hasattr(list, n.attr) or hasattr(dict, n.attr)):
                        self._add(fi, n, c.lookup('__getattr__'), 'getattr', True, r)

    def _attr_store(self, fi, n: ast.Attribute):
        recv = self.ty.type_of(n.value)
        for r in recv:
            if r[0] != 'inst':
                continue
            c = self.sm.get_class(r[1])
            if c is None:
                continue
            cands = [c] + [s for s in self.ty.overriders(r[1], n.attr) if n.attr in s.setters]
            for k in cands:
                s = k.lookup_setter(n.attr)
                if s is not None:
                    self._add(fi, n, s, 'prop-set', True, r)
            if c.is_subclass_of('XMLElement'):
                name = n.attr
                if name.startswith('_') or name in self._props:
                    continue
                sa = c.lookup('__setattr__')
                if sa is not None:
                    self._add(fi, n, sa, 'setattr', True, r)

    def _call(self, fi: FuncInfo, n: ast.Call):
        self.n_sites += 1
        f = n.func
        found = False
        external = False
        d = dotted(f)
        ftypes = self.ty.type_of(f)
        # super().m(...)
        if isinstance(f, ast.Attribute) and isinstance(f.value, ast.Call) and isinstance(f.value.func, ast.Name) \
                and f.value.func.id == 'super':
            owner = fi
            while owner.parent is not None:
                owner = owner.parent
            if owner.cls is not None:
                for k in owner.cls.mro[1:]:
                    tgt = k.methods.get(f.attr)
                    if fi.is_setter or f.attr not in k.methods:
                        tgt = tgt or None
                    if tgt is not None:
                        self._add(fi, n, tgt, 'super')
                        found = True
                        break
                if not found:
                    external = True      # object.__init__ / object.__setattr__
        # `super(K, type(self)).value.fset(self, v)`: chained property setter
        if isinstance(f, ast.Attribute) and f.attr == 'fset' and isinstance(f.value, ast.Attribute):
            prop = f.value.attr
            base = f.value.value
            if isinstance(base, ast.Call) and isinstance(base.func, ast.Name) and base.func.id == 'super' and base.args:
                k0 = self.sm.get_class(unparse(base.args[0]))
                if k0 is not None:
                    for k in k0.mro[1:]:
                        if prop in k.setters:
                            self._add(fi, n, k.setters[prop], 'super-fset')
                            found = True
                            break
        recv_atoms = [r for r in self.ty.type_of(f.value) if r[0] in ('inst', 'cls')] if isinstance(f, ast.Attribute) else []
        for a in ftypes:
            if a[0] == 'func':
                tgt = self._fq.get(a[1])
                if tgt is not None:
                    # the receiver atoms this method can have been looked up on (for the receiver-family context)
                    recvs = []
                    if tgt.cls is not None:
                        for r in recv_atoms:
                            rc = self.sm.get_class(r[1])
                            if rc is not None and (rc.is_subclass_of(tgt.cls.name) or tgt.cls.is_subclass_of(r[1])):
                                recvs.append(r)
                    if recvs:
                        for r in recvs:
                            self._add(fi, n, tgt, 'call', True, r)
                    else:
                        self._add(fi, n, tgt, 'call')
                    found = True
                elif a[1].startswith('<lambda'):
                    found = True
            elif a[0] == 'cls':
                c = self.sm.get_class(a[1])
                if c is not None:
                    found = True
                    for k in [c] + self.ty.overriders(a[1], '__init__'):
                        init = k.lookup('__init__')
                        if init is not None:
                            self._add(fi, n, init, 'new', True, a)
            elif a[0] == 'inst':
                for m in self.ty.member(a, '__call__'):
                    if m[0] == 'method':
                        self._add(fi, n, m[1], 'call', True, a)
                        found = True
            elif a[0] == 'ext':
                external = True
        if not found and isinstance(f, ast.Name) and not ftypes:
            external = True       # builtin
        if not found and not external and isinstance(f, ast.Attribute):
            rtypes = self.ty.type_of(f.value)
            if rtypes and all(a[0] in ('prim', 'strp', 'list', 'dict', 'tuple', 'ext', 'func') for a in rtypes):
                external = True
            elif d and d.split('.')[0] in ('ET', 're', 'copy', 'io', 'os', 'sys', 'Path', 'logging', 'warnings'):
                external = True
            else:
                # unresolved receiver: resolution by member name (may add edges, never loses one)
                for tgt in self._by_name.get(f.attr, []):
                    if tgt.cls is not None:
                        self._add(fi, n, tgt, 'call', False)
                        found = True
                if found:
                    self.unresolved_sites.append((fi, n, unparse(f)))
                else:
                    external = True
        if found:
            self.n_resolved_sites += 1
        if external or not found:
            self.n_external_sites += 1
            self.ext[fi].append(ExtCall(fi, n, d or unparse(f)))
        # setattr(obj, k, v) -> __setattr__ of the object's class
        if isinstance(f, ast.Name) and f.id == 'setattr' and len(n.args) == 3:
            for r in self.ty.type_of(n.args[0]):
                if r[0] == 'inst':
                    c = self.sm.get_class(r[1])
                    sa = c.lookup('__setattr__') if c else None
                    if sa is not None:
                        self._add(fi, n, sa, 'setattr', True, r)

    # ------------------------------------------------------------------------------------------
    def callees(self, fi: FuncInfo, resolved_only=False) -> Set[FuncInfo]:
        return {e.callee for e in self.out.get(fi, []) if e.resolved or not resolved_only}

    def closure(self, roots, resolved_only=False, stop=None) -> Set[FuncInfo]:
        seen = set()
        stack = list(roots)
        while stack:
            f = stack.pop()
            if f in seen or (stop and f in stop):
                continue
            seen.add(f)
            # nested functions are part of their parent's behaviour only when called; they are reached via edges
            for e in self.out.get(f, []):
                if resolved_only and not e.resolved:
                    continue
                if e.callee not in seen:
                    stack.append(e.callee)
        return seen

    def path(self, src: FuncInfo, pred, resolved_only=False) -> Optional[List[Edge]]:
        """Shortest call path from src to a function satisfying pred."""
        prev: Dict[FuncInfo, Optional[Edge]] = {src: None}
        q = [src]
        while q:
            f = q.pop(0)
            if pred(f):
                out = []
                while prev[f] is not None:
                    out.append(prev[f])
                    f = prev[f].caller
                return list(reversed(out))
            for e in self.out.get(f, []):
                if resolved_only and not e.resolved:
                    continue
                if e.callee not in prev:
                    prev[e.callee] = e
                    q.append(e.callee)
        return None

    def stats(self) -> dict:
        return {'call_sites': self.n_sites, 'call_sites_resolved_in_closure': self.n_resolved_sites,
                'call_sites_external': self.n_external_sites, 'call_sites_by_name_fallback': len(self.unresolved_sites),
                'call_edges': len(self.edges), 'typing_iterations': self.ty.iterations}
