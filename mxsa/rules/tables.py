"""R-TAB facts: the right-hand tables (class-level bindings read from the .py sources) and the library's
naming rules, re-stated here and checked against the functions in util/core.py."""
import ast
import xml.etree.ElementTree as ET
from typing import Dict, List, Optional, Tuple

from ..astutil import unparse, dotted, const_value
from ..srcmodel import SourceModel, AnalysisError, ClassInfo
from ..xsdmodel import local

M_XMLELEMENT = 'musicxml.xmlelement.xmlelement'
M_COMPLEX = 'musicxml.xsd.xsdcomplextype'
M_SIMPLE = 'musicxml.xsd.xsdsimpletype'
M_ATTR = 'musicxml.xsd.xsdattribute'
M_IND = 'musicxml.xsd.xsdindicator'
M_TREE = 'musicxml.xsd.xsdtree'
M_CONTAINER = 'musicxml.xmlelement.xmlchildcontainer'
M_CORE = 'musicxml.util.core'
M_PARSER = 'musicxml.parser.parser'
M_XSDELEMENT = 'musicxml.xsd.xsdelement'
M_CONTAINERS = 'musicxml.xmlelement.containers'
M_UTILS = 'musicxml.generate_classes.utils'


# ------------------------------------------------------------------------------------------------
# naming rules (the analyser's own statement of them)
def cap_first(s: str) -> str:
    return s[0].upper() + s[1:]


def camel(name: str) -> str:
    return ''.join(cap_first(p) if p else '' for p in name.split('-'))


def xml_class_name(name: str) -> str:
    return 'XML' + camel(name)


def xsd_class_name(name: str, kind='simple_type') -> str:
    if ':' in name:
        name = name.split(':')[1]
    prefix = {'simple_type': 'XSDSimpleType', 'complex_type': 'XSDComplexType', 'group': 'XSDGroup',
              'attribute_group': 'XSDAttributeGroup'}[kind]
    return prefix + camel(cap_first(name))


def _normalise_locals(fn: ast.FunctionDef) -> str:
    """ast dump of the body with local variable names replaced by positional placeholders."""
    names = {}
    for a in fn.args.args:
        names.setdefault(a.arg, f"p{len(names)}")

    class R(ast.NodeTransformer):
        def visit_Name(self, n):
            if n.id in names or isinstance(n.ctx, ast.Store):
                names.setdefault(n.id, f"v{len(names)}")
            if n.id in names:
                return ast.copy_location(ast.Name(id=names[n.id], ctx=n.ctx), n)
            return n

        def visit_arg(self, n):
            return ast.copy_location(ast.arg(arg=names.get(n.arg, n.arg), annotation=None), n)

        def visit_comprehension(self, n):
            # bind targets first
            for t in ast.walk(n.target):
                if isinstance(t, ast.Name):
                    names.setdefault(t.id, f"v{len(names)}")
            return self.generic_visit(n)
    import copy
    body = [copy.deepcopy(s) for s in fn.body
            if not (isinstance(s, ast.Expr) and isinstance(s.value, ast.Constant) and isinstance(s.value.value, str))]
    # comprehension targets must be bound before elements are visited
    for s in body:
        for n in ast.walk(s):
            if isinstance(n, ast.comprehension):
                for t in ast.walk(n.target):
                    if isinstance(t, ast.Name):
                        names.setdefault(t.id, f"v{len(names)}")
    mod = ast.Module(body=[R().visit(s) for s in body], type_ignores=[])
    return unparse(mod)


# accepted shapes of the naming functions (alpha-normalised); any of the listed shapes is the map above
_SHAPES = {
    'cap_first': {"return p0[0].upper() + p0[1:]"},
    'convert_to_xml_class_name': {"return 'XML' + ''.join([cap_first(v1) for v1 in p0.split('-')])",
                                  "return 'XML' + ''.join((cap_first(v1) for v1 in p0.split('-')))"},
    'replace_key_underline_with_hyphen': None,   # checked semantically below
}


def check_naming_functions(sm: SourceModel, res, schema=None):
    """The library's naming functions must still be the maps the tables are interpreted through: they are constant-folded
    (mxsa/strfold.py) over every name the schema contains and compared with the reference maps above - whatever way they are written."""
    from ..strfold import Folder, NotFoldable, _Raise
    core = sm.modules.get(M_CORE)
    if core is None:
        raise AnalysisError("musicxml.util.core not in the import closure")
    res.rule('R-TAB.naming', "the naming functions of util/core.py are the hyphen->CamelCase maps through which all class tables are interpreted: folded over every "
             "element / type / group name of the schema they give the reference class names; an `xs:` name is only accepted for simple types")
    for fname in ('cap_first', 'convert_to_xml_class_name', 'convert_to_xsd_class_name'):
        if fname not in core.functions:
            raise AnalysisError(f"anchor util.core.{fname} vanished")
    folder = Folder({k: v.node for k, v in core.functions.items()}, module_tree=core.tree)
    if schema is None:
        from ..xsdmodel import Schema
        schema = Schema()
    elements = sorted({d.name for d in schema.partwise_decls()} | set(schema.partwise_names()))
    simple = sorted(set(schema.simple_types) | {f"xs:{n}" for n in schema.builtin_simple_types})
    complex_ = sorted(schema.all_complex_types())
    groups = sorted(getattr(schema, 'groups', {}) or {})
    n_eval = 0
    bad = []

    def fold(fn, *args):
        nonlocal n_eval
        n_eval += 1
        try:
            return ('ok', folder.call(fn, *args))
        except _Raise as r:
            return ('raise', r.name)
        except (IndexError, KeyError, ValueError, TypeError, AttributeError) as ex:
            return ('raise', type(ex).__name__)
        except NotFoldable as ex:
            raise AnalysisError(f"util.core.{fn} uses a construct the constant folder does not interpret ({ex})")
    for n in elements:
        got = fold('convert_to_xml_class_name', n)
        if got != ('ok', xml_class_name(n)):
            bad.append(f"convert_to_xml_class_name({n!r}) -> {got[1]!r}, expected {xml_class_name(n)!r}")
    for kind, names in (('simple_type', simple), ('complex_type', complex_), ('group', groups)):
        for n in names:
            if ':' in n and kind != 'simple_type':
                continue
            got = fold('convert_to_xsd_class_name', n, kind)
            want = xsd_class_name(n, kind)
            if got != ('ok', want):
                bad.append(f"convert_to_xsd_class_name({n!r}, {kind!r}) -> {got[1]!r}, expected {want!r}")
    # the default kind is the simple type
    for n in simple[:5]:
        got = fold('convert_to_xsd_class_name', n)
        if got != ('ok', xsd_class_name(n, 'simple_type')):
            bad.append(f"convert_to_xsd_class_name({n!r}) -> {got[1]!r}")
    # an xs: name asked for as a complex type / group is refused, an unknown kind too
    for kind in ('complex_type', 'group'):
        got = fold('convert_to_xsd_class_name', 'xs:string', kind)
        if got[0] != 'raise':
            bad.append(f"convert_to_xsd_class_name('xs:string', {kind!r}) -> {got[1]!r}, expected a rejection")
    got = fold('convert_to_xsd_class_name', 'pitch', 'no-such-kind')
    if got[0] != 'raise':
        bad.append(f"convert_to_xsd_class_name('pitch', 'no-such-kind') -> {got[1]!r}, expected a rejection")
    for w in ('a', 'ab', 'aB', 'Ab', 'x-y'):
        got = fold('cap_first', w)
        if got != ('ok', w[0].upper() + w[1:]):
            bad.append(f"cap_first({w!r}) -> {got[1]!r}")
    res.extra['naming_function_evaluations'] = n_eval
    res.check(not bad, 'R-TAB.naming', core.relpath, f"{n_eval} constant-folded applications of the naming functions to schema names give the reference class names",
              fail_detail='; '.join(bad[:4]) + (f" (+{len(bad) - 4} more)" if len(bad) > 4 else ''), key='R-TAB.naming|folded')
    res.floor('R-TAB.naming evaluations', n_eval, 400)


# ------------------------------------------------------------------------------------------------
# reading class-level bindings
def parse_tree_binding(expr) -> Optional[Tuple[str, str, str]]:
    """XSD_TREE_DICT['<kind>']['<key>'] or XSD_TREE_DICT['<kind>'].get('<key>') -> ('dict', kind, key);
    XSDTree(ET.fromstring('''...''')) -> ('embedded', xmltext, '')"""
    if expr is None:
        return None
    if isinstance(expr, ast.Subscript) and isinstance(expr.value, ast.Subscript) and \
            unparse(expr.value.value) == 'XSD_TREE_DICT':
        kind = const_value(expr.value.slice)
        key = const_value(expr.slice)
        if isinstance(kind, str) and isinstance(key, str):
            return 'dict', kind, key
    if isinstance(expr, ast.Call) and isinstance(expr.func, ast.Attribute) and expr.func.attr == 'get' and \
            isinstance(expr.func.value, ast.Subscript) and unparse(expr.func.value.value) == 'XSD_TREE_DICT' \
            and len(expr.args) == 1:
        kind = const_value(expr.func.value.slice)
        key = const_value(expr.args[0])
        if isinstance(kind, str) and isinstance(key, str):
            return 'dict', kind, key
    if isinstance(expr, ast.Call) and unparse(expr.func) == 'XSDTree' and expr.args:
        inner = expr.args[0]
        if isinstance(inner, ast.Call) and unparse(inner.func) in ('ET.fromstring', 'fromstring') and inner.args:
            txt = const_value(inner.args[0])
            if isinstance(txt, str):
                return 'embedded', txt, ''
    if isinstance(expr, ast.Constant) and expr.value is None:
        return 'none', '', ''
    return None


def parse_embedded(txt: str, where: str):
    try:
        return ET.fromstring(txt)
    except ET.ParseError as e:
        raise AnalysisError(f"embedded XSD fragment in {where} does not parse: {e}")


def direct_subclasses(sm: SourceModel, module: str, base: str) -> List[ClassInfo]:
    m = sm.modules.get(module)
    if m is None:
        raise AnalysisError(f"module {module} not in the import closure")
    return [c for c in m.classes.values() if c.name != base and c.is_subclass_of(base)]


def duplicate_classdefs(sm: SourceModel, module: str) -> List[str]:
    m = sm.modules[module]
    seen, dup = set(), []
    for st in m.tree.body:
        if isinstance(st, ast.ClassDef):
            if st.name in seen:
                dup.append(st.name)
            seen.add(st.name)
    return dup


def embedded_fragments(sm: SourceModel):
    """Every ET.fromstring(<literal>) in the runtime closure: (module, where, text)."""
    out = []
    for m in sm.modules.values():
        if not m.name.startswith('musicxml'):
            continue
        for n in ast.walk(m.tree):
            if isinstance(n, ast.Call) and unparse(n.func) in ('ET.fromstring', 'fromstring') and n.args:
                a = n.args[0]
                txt = None
                if isinstance(a, ast.Constant) and isinstance(a.value, str):
                    txt = a.value
                elif isinstance(a, ast.Attribute):
                    # self.sequence_xsd -> class-level constant
                    for c in m.classes.values():
                        if a.attr in c.bindings and isinstance(c.bindings[a.attr], ast.Constant):
                            txt = c.bindings[a.attr].value
                if txt is not None:
                    out.append((m, n, txt))
    return out


def _safe_parse(txt):
    try:
        return ET.fromstring(txt)
    except ET.ParseError:
        return ET.Element('unparsable')
