"""R-EXH: dispatch exhaustiveness against schema-derived domains."""
import ast
import xml.etree.ElementTree as ET
from typing import Dict, List, Set, Tuple

from ..astutil import unparse, const_value, walk_local, short
from ..srcmodel import AnalysisError, FuncInfo
from ..xsdmodel import local, XS
from . import tables as T
from .. import abseval


def tag_tests(node, attr='tag') -> List[Tuple[str, str, ast.Compare]]:
    """All comparisons `<x>.<attr> (==|!=) '<const>'` below node: (op, const, compare)."""
    out = []
    for n in ast.walk(node):
        if isinstance(n, ast.Compare) and len(n.ops) == 1 and isinstance(n.left, ast.Attribute) and n.left.attr == attr:
            c = const_value(n.comparators[0])
            if isinstance(c, str):
                op = {ast.Eq: '==', ast.NotEq: '!='}.get(type(n.ops[0]))
                if op:
                    out.append((op, c, n))
    return out


def _branch_handles(body: List[ast.stmt]) -> Tuple[bool, str]:
    """A branch 'handles' its case unless it is empty, raises NotImplementedError, or only builds an
    exception object without raising it."""
    real = [s for s in body if not isinstance(s, ast.Pass)]
    if not real:
        return False, 'empty branch'
    first = real[0]
    if isinstance(first, ast.Raise):
        return False, f"raises {short(first.exc)}"
    if len(real) == 1 and isinstance(first, ast.Expr) and isinstance(first.value, ast.Call):
        nm = unparse(first.value.func)
        if nm.endswith('Error') or nm.endswith('Exception'):
            return False, f"constructs {nm}(...) without raising it"
    return True, ''


def if_chain_cases(fn_node, attr='tag', var=None) -> Dict[str, Tuple[bool, str, ast.If]]:
    """For if/elif chains testing `<x>.<attr> == '<lit>'` (or a bare name `var == '<lit>'`):
    literal -> (handled, why-not, If node).  The else branch is reported under '*'."""
    out: Dict[str, Tuple[bool, str, ast.If]] = {}
    for n in ast.walk(fn_node):
        if not isinstance(n, ast.If):
            continue
        t = n.test
        lit = None
        if isinstance(t, ast.Compare) and len(t.ops) == 1 and isinstance(t.ops[0], ast.Eq):
            left = t.left
            if (isinstance(left, ast.Attribute) and left.attr == attr) or (var and isinstance(left, ast.Name) and left.id == var):
                lit = const_value(t.comparators[0])
        if not isinstance(lit, str):
            continue
        h, why = _branch_handles(n.body)
        if lit not in out or h:
            out[lit] = (h, why, n)
        # an else that is not itself an elif of the same chain
        if n.orelse and not (len(n.orelse) == 1 and isinstance(n.orelse[0], ast.If)):
            h2, why2 = _branch_handles(n.orelse)
            out['*'] = (h2, why2, n)
    return out


def ref_dispatch(setter: FuncInfo) -> Dict[str, Tuple[str, object]]:
    """The `ref` dispatch of XSDAttribute.xsd_tree[setter]: literal -> ('fragment', ET node) | ('unhandled', why)."""
    out = {}
    refvar = 'ref'
    for n in ast.walk(setter.node):
        if isinstance(n, ast.Assign) and isinstance(n.targets[0], ast.Name) and unparse(n.value).endswith(".get_attributes().get('ref')"):
            refvar = n.targets[0].id
    cases = if_chain_cases(setter.node, attr='__none__', var=refvar)
    for lit, (handled, why, ifn) in cases.items():
        body = ifn.orelse if lit == '*' else ifn.body
        frag = None
        for st in body:
            if isinstance(st, ast.Assign) and any(unparse(t) == 'self._xsd_tree' for t in st.targets):
                tb = T.parse_tree_binding(st.value)
                if tb and tb[0] == 'embedded':
                    frag = T.parse_embedded(tb[1], f"{setter.fq} [{lit}]")
        if frag is not None:
            out[lit] = ('fragment', frag)
        else:
            out[lit] = ('unhandled', why or 'no declaration is bound')
    if not cases:
        raise AnalysisError(f"{setter.fq}: the ref dispatch was rewritten into an idiom the analyser does not understand")
    return out


def _child_tag_domain(nodes) -> Set[str]:
    d = set()
    for n in nodes:
        for c in n:
            d.add(local(c.tag))
    return d


def check_particle_dispatch(ctx):
    sm, sc, res = ctx.sm, ctx.schema, ctx.res
    m = sm.modules[T.M_CONTAINER]
    conv = sm.func(None, '_convert_xsd_child_to_xsd_container', T.M_CONTAINER)
    cont = sm.get_class('XMLChildContainer', T.M_CONTAINER)
    pop = sm.func('XMLChildContainer', '_populate_children', T.M_CONTAINER)
    # schema-derived domain: tags that occur below a particle holder
    roots = [sc.main_root] + [T._safe_parse(t) if hasattr(T, '_safe_parse') else ET.fromstring(t)
                              for _, _, t in T.embedded_fragments(sm)]
    holders = []
    for r in roots:
        for n in r.iter():
            t = local(n.tag)
            if t in ('sequence', 'choice', 'element') or (t == 'group' and n.attrib.get('name')):
                holders.append(n)
    domain = _child_tag_domain(holders)
    filt = {c for op, c, _ in tag_tests(pop.node) if op == '!='}
    cases = if_chain_cases(conv.node)
    handled = {k for k, (h, _, _) in cases.items() if h and k != '*'}
    for tag in sorted(domain - filt):
        res.check(tag in handled, 'R-EXH.particles', conv.fq, f"particle tag '{tag}' (occurs in the schema) is converted to a container",
                  fail_detail=f"handled: {sorted(handled)}; filtered before dispatch: {sorted(filt)}",
                  key=f"R-EXH.particles|tag|{tag}")
    # a filtered tag must not be a particle
    for tag in sorted(filt & {'element', 'sequence', 'choice', 'group', 'all', 'any'}):
        res.finding('R-EXH.particles', pop.fq, f"particle tag '{tag}' is not filtered out before conversion",
                    key=f"R-EXH.particles|filtered|{tag}")
    for tag in ('all', 'any'):
        res.check(tag not in domain, 'R-EXH.particles', 'musicxml_4_0.xsd', f"the schema uses no xs:{tag} particle (not modelled)",
                  key=f"R-EXH.particles|domain|{tag}")
    # each handled branch builds the matching content class and passes the occurrence values read from the same node
    want = {'element': 'XSDElement', 'sequence': 'XSDSequence', 'choice': 'XSDChoice'}
    occ_vars = {}
    for tag, (h, why, ifn) in cases.items():
        if tag == '*' or not h:
            continue
        rets = [s for s in ifn.body if isinstance(s, ast.Return)]
        local_defs = {}
        if not rets:
            # the branch only chooses the content; the container is built by the one return that follows the dispatch
            rets = [s for s in conv.node.body if isinstance(s, ast.Return) and isinstance(s.value, ast.Call)]
            for s_ in ifn.body:
                if isinstance(s_, ast.Assign) and len(s_.targets) == 1 and isinstance(s_.targets[0], ast.Name):
                    local_defs[s_.targets[0].id] = unparse(s_.value)
        ok = False
        detail = ''
        if rets and isinstance(rets[0].value, ast.Call):
            call = rets[0].value
            kws = {k.arg: unparse(k.value) for k in call.keywords}
            params_ = ['content', 'min_occurrences', 'max_occurrences']
            for i_, a_ in enumerate(call.args[:3]):
                kws.setdefault(params_[i_], unparse(a_))        # positional form (keywords are made positional by the normalisation)
            content = kws.get('content', '')
            content = local_defs.get(content, content)
            # the occurrence arguments are plain local variables (whatever they are called); which ones is checked below
            occ_vars.setdefault('min', set()).add(kws.get('min_occurrences'))
            occ_vars.setdefault('max', set()).add(kws.get('max_occurrences'))
            occ_ok = bool(kws.get('min_occurrences')) and bool(kws.get('max_occurrences')) and kws.get('min_occurrences') != kws.get('max_occurrences')
            if tag in want:
                ok = content.startswith(want[tag] + '(') and occ_ok
            else:
                ok = 'eval(' in content and occ_ok
            detail = f"returns {short(call)}"
        res.check(ok, 'R-EXH.particles', conv.fq, f"branch for '{tag}' builds the matching content with the node's own occurrence values",
                  fail_detail=detail, key=f"R-EXH.particles|branch|{tag}")
    # the occurrence values come from the dispatched node: the variable passed as min_occurrences must be defined
    # by an expression that reads the key 'minOccurs' and is (transitively) derived from the dispatched parameter
    p0 = conv.params[0] if conv.params else 'xsd_child'
    defs = {}
    for s_ in conv.node.body:
        if isinstance(s_, ast.Assign):
            for t in s_.targets:
                if isinstance(t, ast.Name):
                    defs.setdefault(t.id, []).append(s_.value)

    def def_roots(name, seen=()):
        if name in seen:
            return set()
        if name not in defs:
            return {name}
        out = set()
        for v in defs[name]:
            for n in ast.walk(v):
                if isinstance(n, ast.Name):
                    out |= def_roots(n.id, seen + (name,))
        return out
    for which, key in (('min', 'minOccurs'), ('max', 'maxOccurs')):
        names = occ_vars.get(which, set())
        var = next(iter(names)) if len(names) == 1 and None not in names else None
        res.check(var is not None, 'R-EXH.particles', conv.fq, f"every branch passes the same variable as {which}_occurrences", fail_detail=str(names),
                  key=f"R-EXH.particles|occurrence-var|{which}")
        vals = defs.get(var, []) if var else []
        reads_key = bool(vals) and all(any(const_value(n) == key for n in ast.walk(v)) for v in vals)
        from_param = bool(vals) and p0 in def_roots(var)
        other_key = any(const_value(n) in ('minOccurs', 'maxOccurs') and const_value(n) != key for v in vals for n in ast.walk(v))
        res.check(reads_key and from_param and not other_key, 'R-EXH.particles', conv.fq,
                  f"{which}_occurrences is read from key '{key}' of the dispatched node itself",
                  fail_detail='; '.join(unparse(v) for v in vals) or 'not assigned',
                  key=f"R-EXH.particles|occurrence-source|{key}")
    # defaults in XMLChildContainer.__init__
    init = sm.func('XMLChildContainer', '__init__', T.M_CONTAINER)
    got = {}
    for s in init.node.body:
        for x in ast.walk(s):
            if isinstance(x, ast.Assign) and len(x.targets) == 1 and isinstance(x.targets[0], ast.Attribute):
                got.setdefault(unparse(x.targets[0]), [])
                if s not in got[unparse(x.targets[0])]:
                    got[unparse(x.targets[0])].append(s)
    # statements that rebind the constructor argument before it is stored (`if min_occurrences is None: min_occurrences = 1`) belong to the computation
    for attr_, param_ in (('self.min_occurrences', 'min_occurrences'), ('self.max_occurrences', 'max_occurrences')):
        if attr_ in got:
            rel = [s for s in init.node.body if s in got[attr_] or (any(isinstance(x, ast.Name) and x.id == param_ for x in ast.walk(s)) and
                                                                    not any(isinstance(x, ast.Call) for x in ast.walk(s) if isinstance(x, ast.Call) and
                                                                            not (isinstance(x.func, ast.Name) and x.func.id in ('int', 'str', 'isinstance'))))]
            got[attr_] = rel
    _check_occ_default(res, init, got.get('self.min_occurrences'), 'min_occurrences', False)
    _check_occ_default(res, init, got.get('self.max_occurrences'), 'max_occurrences', True)
    # get_xsd_indicator: complexType children
    gi = sm.func('XSDComplexType', 'get_xsd_indicator', T.M_COMPLEX)
    cts = [n for r in roots for n in r.iter() if local(n.tag) == 'complexType']
    dom = _child_tag_domain(cts) - {'annotation', 'attribute', 'attributeGroup', 'simpleContent', 'anyAttribute'}
    handled_gi = {c for op, c, _ in tag_tests(gi.node) if op == '=='}
    for tag in sorted(dom):
        res.check(tag in handled_gi, 'R-EXH.particles', gi.fq, f"complexType child '{tag}' yields an indicator",
                  fail_detail=f"handled: {sorted(handled_gi)}", key=f"R-EXH.particles|indicator|{tag}")
    occ = gi.nested.get('get_occurrences')
    if occ is None:
        raise AnalysisError(f"{gi.fq}: helper get_occurrences vanished (idiom not understood)")
    _check_occurrence_helper(res, occ)
    # every indicator-returning branch passes the occurrences of the same child
    for n in ast.walk(gi.node):
        if isinstance(n, ast.If) and isinstance(n.test, ast.Compare) and isinstance(n.test.left, ast.Attribute) \
                and n.test.left.attr == 'tag' and const_value(n.test.comparators[0]) in ('sequence', 'choice', 'group'):
            var = unparse(n.test.left.value)
            rets = [x for x in ast.walk(n) if isinstance(x, ast.Return)]
            ok = bool(rets) and all(f"*get_occurrences({var})" in unparse(r.value) for r in rets)
            res.check(ok, 'R-EXH.particles', gi.fq, f"branch '{const_value(n.test.comparators[0])}' returns the indicator with the occurrences of the same node",
                      fail_detail='; '.join(short(r) for r in rets), key=f"R-EXH.particles|indicator-occ|{const_value(n.test.comparators[0])}")
    res.floor('R-EXH.particles tags', len(domain - filt), 4)


_NUM = abseval.InputClass('number', truthy=True)
_UNB = abseval.InputClass('unbounded', equals='unbounded', truthy=True)


def _expect_occ(table, which, where, res, key):
    """which = 'min' | 'max'; table: class label -> abstract value of that component."""
    exp = {'absent': "1", 'number': None, 'unbounded': "'unbounded'"}
    for label, v in table.items():
        got = abseval.show(v)
        if label == 'number':
            ok = v[0] == 'int'
            want = 'int(<declared value>)'
        else:
            ok = got == exp[label]
            want = exp[label]
        res.check(ok, 'R-EXH.particles', where, f"{which}Occurs {label} -> {want}", fail_detail=f"computes {got}",
                  key=f"{key}|{which}|{label}")


def _check_occurrence_helper(res, occ):
    """get_occurrences(ch): tabulate (minOccurs, maxOccurs) -> (min, max) over {absent, number} x {absent, 'unbounded', number}."""
    body = list(occ.node.body)
    binders = {}
    rest = []
    p0 = occ.params[0] if occ.params else 'ch'
    for st in body:
        if isinstance(st, ast.Assign) and len(st.targets) == 1 and isinstance(st.targets[0], ast.Name):
            txt = unparse(st.value)
            if txt == f"{p0}.get_attributes().get('minOccurs')":
                binders[st.targets[0].id] = 'min'
                continue
            if txt == f"{p0}.get_attributes().get('maxOccurs')":
                binders[st.targets[0].id] = 'max'
                continue
        rest.append(st)
    inv = {v: k for k, v in binders.items()}
    if set(inv) != {'min', 'max'}:
        res.finding('R-EXH.particles', occ.fq, "minOccurs and maxOccurs are read from the node passed in",
                    f"found readers for {sorted(inv)}", key='R-EXH.particles|indicator-occurrences|source')
        return
    classes = {inv['min']: [abseval.NONE, _NUM], inv['max']: [abseval.NONE, _UNB, _NUM]}
    try:
        table = abseval.tabulate_function(occ.node, classes, pre=rest)
    except abseval.NotUnderstood as e:
        raise AnalysisError(f"{occ.fq}: occurrence helper uses an idiom the abstract evaluator does not understand ({e})")
    mins, maxs = {}, {}
    for (lmin, lmax), v in table.items():
        if v[0] != 'tuple' or len(v[1]) != 2:
            res.finding('R-EXH.particles', occ.fq, "returns a (min, max) pair", f"for ({lmin},{lmax}) returns {abseval.show(v)}",
                        key='R-EXH.particles|indicator-occurrences|shape')
            return
        # the min component must not depend on max's class and vice versa: collect all values
        mins.setdefault(lmin, set()).add(v[1][0])
        maxs.setdefault(lmax, set()).add(v[1][1])
    for which, d in (('min', mins), ('max', maxs)):
        flat = {}
        for label, vals in d.items():
            if len(vals) != 1:
                res.finding('R-EXH.particles', occ.fq, f"{which}Occurs result depends only on {which}Occurs",
                            f"{label}: {sorted(abseval.show(x) for x in vals)}", key=f'R-EXH.particles|indicator-occurrences|{which}|{label}')
            else:
                flat[label] = next(iter(vals))
        _expect_occ(flat, which, occ.fq, res, 'R-EXH.particles|indicator-occurrences')


def _check_occ_default(res, init, stmts, param, allow_unbounded):
    """The statements of __init__ that store self.<param> (an assignment of a conditional expression, an if statement, ...) are run by the
    abstract evaluator for every input class of the constructor argument; what they store is tabulated."""
    where = init.fq
    if not stmts:
        res.finding('R-EXH.particles', where, f"{param} is stored on the container", key=f"R-EXH.particles|default|{param}")
        return
    classes = [abseval.NONE, _UNB, _NUM] if allow_unbounded else [abseval.NONE, _NUM]
    table = {}
    for c in classes:
        env = {param: ('sym', param, c), '__effects__': [], '__order__': {}, '__assume__': {}}
        try:
            abseval.exec_block(stmts, env)
        except abseval.NotUnderstood as e:
            raise AnalysisError(f"{where}: {param} default uses an idiom the abstract evaluator does not understand ({e})")
        except abseval._Return as r:
            table[c.label] = r.v
            continue
        stored = [v for k, v in env['__effects__'] if k == f"self.{param}"]
        if not stored:
            res.finding('R-EXH.particles', where, f"{param} is stored on the container for an argument that is {c.label}", key=f"R-EXH.particles|default|{param}")
            return
        table[c.label] = stored[-1]
    _expect_occ(table, 'max' if allow_unbounded else 'min', where, res, f"R-EXH.particles|default|{param}")


def check_attribute_dispatch(ctx):
    sm, sc, res = ctx.sm, ctx.schema, ctx.res
    attr_like = {'attribute', 'attributeGroup', 'anyAttribute'}
    roots = [sc.main_root] + [T._safe_parse(t) for _, _, t in T.embedded_fragments(sm)]
    shapes = {'simpleContent': [], 'complexContent': [], 'plain': [], 'attributeGroup': []}
    for r in roots:
        for n in r.iter():
            t = local(n.tag)
            if t == 'complexType':
                kids = [local(c.tag) for c in n]
                if 'simpleContent' in kids:
                    sc_node = [c for c in n if local(c.tag) == 'simpleContent'][0]
                    first = [c for c in sc_node if local(c.tag) != 'annotation']
                    res.check(bool(first) and local(first[0].tag) == 'extension', 'R-EXH.attributes',
                              f"schema::complexType[{n.attrib.get('name')}]", "simpleContent is an extension (restriction is not modelled)",
                              key=f"R-EXH.attributes|simpleContent-shape|{n.attrib.get('name')}")
                    shapes['simpleContent'] += first[:1]
                elif 'complexContent' in kids:
                    cc = [c for c in n if local(c.tag) == 'complexContent'][0]
                    first = [c for c in cc if local(c.tag) != 'annotation']
                    res.check(bool(first) and local(first[0].tag) == 'extension', 'R-EXH.attributes',
                              f"schema::complexType[{n.attrib.get('name')}]", "complexContent is an extension",
                              key=f"R-EXH.attributes|complexContent-shape|{n.attrib.get('name')}")
                    shapes['complexContent'] += first[:1]
                else:
                    shapes['plain'].append(n)
            elif t == 'attributeGroup' and n.attrib.get('name'):
                shapes['attributeGroup'].append(n)
    f_ct = sm.func('XSDComplexType', 'get_xsd_attributes', T.M_COMPLEX)
    f_ag = sm.func('XSDAttributeGroup', 'get_xsd_attributes', T.M_ATTR)

    def helper_of(fn, call):
        """A function of the same class / module called by (unqualified or cls./self.) name: an extracted loop."""
        name = call.func.attr if isinstance(call.func, ast.Attribute) and unparse(call.func.value) in ('cls', 'self', fn.cls.name if fn.cls else '') else \
            (call.func.id if isinstance(call.func, ast.Name) else None)
        if name is None:
            return None
        if fn.cls is not None and name in fn.cls.methods and fn.cls.methods[name] is not fn:
            return fn.cls.methods[name]
        if name in fn.module.functions:
            return fn.module.functions[name]
        r_ = sm.resolve_name(fn.module.name, name)          # a helper imported from another module of the package
        return r_[1] if r_ and r_[0] == 'func' else None

    def loops_below(fn, stmts, depth=0):
        """For-loops with a tag dispatch in these statements, following calls of extracted helpers."""
        out = []
        for st in stmts:
            for n in ast.walk(st):
                if isinstance(n, ast.For) and tag_tests(n):
                    out.append(n)
                elif isinstance(n, ast.Call) and depth < 2:
                    h = helper_of(fn, n)
                    if h is not None and h is not fn:
                        out += loops_below(h, h.node.body, depth + 1)
        return out

    # XSDComplexType: the three content shapes are the branches of one if/elif/else; each must reach a dispatching loop
    chain = [n for n in f_ct.node.body if isinstance(n, ast.If)]
    top = None
    for n in ast.walk(f_ct.node):
        if isinstance(n, ast.If) and 'get_simple_content_extension()' in unparse(n.test):
            top = n
    branches = {}
    if top is not None:
        branches['simpleContent'] = top.body
        nxt = top.orelse[0] if len(top.orelse) == 1 and isinstance(top.orelse[0], ast.If) else None
        if nxt is not None and 'get_complex_content()' in unparse(nxt.test):
            branches['complexContent'] = nxt.body
            branches['plain'] = nxt.orelse
    res.check(set(branches) == {'simpleContent', 'complexContent', 'plain'}, 'R-EXH.attributes', f_ct.fq,
              "the attribute table is resolved by content shape: simpleContent extension / complexContent extension / plain",
              fail_detail=f"recognised branches: {sorted(branches)}", key='R-EXH.attributes|shapes')
    branches_ag = {'attributeGroup': f_ag.node.body}
    # a branch may only select the list of children (`children = <extension>.get_children()`) for one dispatching loop that follows the chain
    shared = {}
    if top is not None:
        for holder in ast.walk(f_ct.node):
            for field in ('body', 'orelse'):
                lst = getattr(holder, field, None)
                if isinstance(lst, list) and any(x is top for x in lst):
                    after = lst[[i for i, x in enumerate(lst) if x is top][0] + 1:]
                    for lp in [x for x in after if isinstance(x, ast.For) and isinstance(x.iter, ast.Name) and tag_tests(x)]:
                        shared.setdefault(lp.iter.id, []).append(lp)
    for fn, brs in ((f_ct, branches), (f_ag, branches_ag)):
        for dom_name, body in brs.items():
            loops = loops_below(fn, body)
            if fn is f_ct and not loops:
                selected = {t.id for st in body for n in ast.walk(st) if isinstance(n, ast.Assign) for t in n.targets if isinstance(t, ast.Name)}
                loops = [lp for name in sorted(selected & set(shared)) for lp in shared[name]]
            res.check(bool(loops), 'R-EXH.attributes', fn.fq, f"[{dom_name}] the children are iterated and dispatched on their tag",
                      key=f"R-EXH.attributes|loops|{fn.qualname}|{dom_name}")
            handled = set()
            txt = ''
            for loop in loops:
                for op, c, cmp_ in tag_tests(loop):
                    if op == '==':
                        handled.add(c)
                txt += unparse(loop)
            present = _child_tag_domain(shapes[dom_name]) & attr_like
            for tag in sorted(present):
                res.check(tag in handled, 'R-EXH.attributes', fn.fq, f"[{dom_name}] child '{tag}' contributes to the attribute table",
                          fail_detail=f"handled: {sorted(handled)}", key=f"R-EXH.attributes|{fn.qualname}|{dom_name}|{tag}")
            res.check('XSDAttribute(' in txt and '.get_xsd_attributes()' in txt, 'R-EXH.attributes', fn.fq,
                      f"[{dom_name}] attribute -> XSDAttribute(child), attributeGroup -> that group's table",
                      key=f"R-EXH.attributes|{fn.qualname}|{dom_name}|actions")
    # complexContent: the base type's table is included
    cc_txt = ' '.join(unparse(st) for st in branches.get('complexContent', []))
    res.check('.get_xsd_attributes()' in cc_txt and "'complex_type'" in cc_txt, 'R-EXH.attributes', f_ct.fq,
              "complexContent/extension includes the attribute table of its base type", key="R-EXH.attributes|extension-base-table")
    res.floor('R-EXH.attributes content shapes', sum(1 for k in shapes if shapes[k]), 4)
