"""R-MEMO: coherence of instance-level memoisation.

A *memo field* is an attribute F of a mutable object (element, matcher node, leaf content) that some function fills lazily:
`self.F = E` is control-dependent on a test that reads `self.F` (`if self.F is None: self.F = ...`).  Its value stands for
a computation over other state; the fields that computation reads, restricted to the primary state of rules/state.py, is its
dependency set D (collected over the call-graph closure of the guarded region).

Obligation: every write of a field of D on an object that existed before the call must be covered by a reset of F:
   (A) every path from the write to the function's normal exit stores to `.F` again (directly or through a callee that
       does so on every path), or
   (B) every path from the function's entry to the write passes such a reset, and no statement that can re-fill the memo
       (a call whose closure contains a fill function of F) lies between the reset and the write.
A write that is covered neither way inside its function is handed to the callers (the call becomes the write); what is
still uncovered at a public entry point is reported, with the call chain to the write.

The analysis does not track *which* object's memo is reset (a reset of F on any object counts): that can only make the
rule miss, never alarm.  It is a may-analysis over paths: an alarm means a syntactic path exists on which primary state
changes and the memo keeps its old value."""
import ast
from typing import Dict, List, Optional, Set, Tuple

from ..astutil import unparse, short, walk_local
from ..cfg import cfg_of
from ..srcmodel import FuncInfo
from . import dom, state

MUTABLE_BASES = ('Tree', 'XMLElement', 'XMLChildContainer', 'XSDElement')
FIELD_ALIASES = {'xml_elements': '_xml_elements', 'chosen_child': '_chosen_child', 'requirements_fulfilled': '_requirements_fulfilled'}


class Memo:
    def __init__(self, func, field, store_node, guard):
        self.func, self.field, self.store_node, self.guard = func, field, store_node, guard
        self.deps: Set[str] = set()

    def __repr__(self):
        return f"Memo({self.func.qualname}.{self.field})"


def _is_mutable_class(sm, f: FuncInfo) -> bool:
    if f.cls is None:
        return False
    names = [k.name for k in f.cls.mro] if getattr(f.cls, 'mro', None) else [f.cls.name]
    if set(names) & set(state.SCHEMA_FAMILIES):
        return False
    return bool(set(names) & set(MUTABLE_BASES))


def _reads_field(expr, self_name, field) -> bool:
    for n in ast.walk(expr):
        if isinstance(n, ast.Attribute) and n.attr == field and isinstance(n.value, ast.Name) and n.value.id == self_name:
            return True
    return False


def find_memos(sm, cg) -> List[Memo]:
    out = []
    for f in sm.functions:
        if f.parent is not None or f.name == '__init__' or not (f.module.name.startswith('musicxml') or f.module.name == 'verysimpletree.tree'):
            continue
        if not _is_mutable_class(sm, f) or not f.params:
            continue
        self_name = f.params[0]
        stores = [n for n in walk_local(f.node, include_root=False) if isinstance(n, ast.Assign) and any(
            isinstance(t, ast.Attribute) and isinstance(t.value, ast.Name) and t.value.id == self_name for t in n.targets)]
        if not stores:
            continue
        g = cfg_of(f.node)
        pm = {}
        for n_ in ast.walk(f.node):
            for c_ in ast.iter_child_nodes(n_):
                pm[c_] = n_
        for st in stores:
            node = g.node_of_stmt.get(st)
            if node is None:
                continue
            for t in st.targets:
                if not (isinstance(t, ast.Attribute) and isinstance(t.value, ast.Name) and t.value.id == self_name):
                    continue
                if isinstance(st.value, (ast.Name, ast.Attribute, ast.Constant)):
                    continue        # a copy of a key / version stamp / constant, not a memoised computation
                # the store sits in a branch of an `if` whose condition (any atom of it) reads the same field
                cur = pm.get(st)
                hit = False
                while cur is not None and cur is not f.node:
                    if isinstance(cur, ast.If) and _reads_field(cur.test, self_name, t.attr) and g.node_of_stmt.get(cur) is not None:
                        out.append(Memo(f, t.attr, node, g.node_of_stmt[cur]))
                        hit = True
                        break
                    cur = pm.get(cur)
                if not hit:
                    # guard-clause form: `if self.F is not None: return` ... `self.F = E`
                    for tn, lab in dom.guards_of(g, node):
                        if tn.kind == 'test' and _reads_field(tn.ast, self_name, t.attr):
                            out.append(Memo(f, t.attr, node, tn))
                            break
    return out


def _region_closure(cg, m: Memo) -> Set[FuncInfo]:
    """functions that the guarded fill can execute"""
    g = cfg_of(m.func.node)
    start = set()
    ifst = m.guard.stmt
    for n in walk_local(ifst):
        for e in cg.by_node.get(n, []):
            if e.caller.node is m.func.node:
                start.add(e.callee)
    return cg.closure(start) if start else set()


def dependency_fields(cg, m: Memo, ef=None) -> Set[str]:
    """Primary fields of mutable objects that the guarded fill reads (over its call closure).  Reads through receivers typed as
    schema nodes - and everything inside the schema-family clones of the generic Tree methods - are not dependencies:
    schema state is immutable after import (C13)."""
    names = set()

    def loads(f: FuncInfo, root):
        fam = getattr(f, 'ctx_family', None)
        if fam is not None and fam in state.SCHEMA_FAMILIES:
            return
        if f.cls is not None and f.cls.name in state.SCHEMA_FAMILIES and fam is None:
            mro = [k.name for k in getattr(f.cls, 'mro', [])]
            if not (set(mro) & {'XMLElement', 'XMLChildContainer'}):
                self_name = f.params[0] if f.params else None
            else:
                self_name = None
        else:
            self_name = None
        for n in (walk_local(root) if root is not f.node else ast.walk(root)):
            if isinstance(n, ast.Attribute) and isinstance(n.ctx, ast.Load):
                if self_name and isinstance(n.value, ast.Name) and n.value.id == self_name:
                    continue
                if ef is not None:
                    owners = set(ef.owners_of(n.value))
                    if owners and owners <= set(state.SCHEMA_FAMILIES) | {'XSDTreeElement'}:
                        continue
                names.add(n.attr)

    loads(m.func, m.guard.stmt)
    for f in _region_closure(cg, m):
        loads(f, f.node)
    names = {FIELD_ALIASES.get(n, n) for n in names}
    return (names & set(state.PRIMARY_FIELD_NAMES)) - {m.field}


class Coherence:
    def __init__(self, ctx, cg, ef, memo_field: str, memos: List[Memo], entries=()):
        self.ctx, self.cg, self.ef, self.sm = ctx, cg, ef, ctx.sm
        # a memo filled by a family-generic Tree method lives on the objects of the families on which the entry points can call it
        self.families: Optional[Set[str]] = None
        if memos and all(m.func.cls is not None and m.func.cls.name == 'Tree' for m in memos):
            clo = cg.closure(list(entries))
            fams = set()
            for (orig, fam), cl in cg.clones.items():
                if any(orig.node is m.func.node for m in memos) and cl in clo:
                    fams.add(fam)
            self.families = fams
        self.field = memo_field
        self.memos = memos
        self.deps: Set[str] = set()
        for m in memos:
            self.deps |= dependency_fields(cg, m, ef)
        self.fill_funcs = {m.func for m in memos}
        self.funcs = [f for f in cg.all_functions() if f.module.name.startswith('musicxml') or f.module.name == 'verysimpletree.tree']
        self._node_index: Dict[FuncInfo, Dict[int, object]] = {}
        self.must_reset: Dict[FuncInfo, bool] = {f: False for f in self.funcs}
        self._solve_must_reset()
        self.can_fill: Dict[FuncInfo, bool] = {}
        self.unprotected: Dict[FuncInfo, Dict[Tuple, tuple]] = {f: {} for f in self.funcs}     # (root, field) -> explanation chain
        self._solve_unprotected()

    # ---- CFG node of an AST sub-node
    def node_of(self, f: FuncInfo, sub) -> Optional[object]:
        idx = self._node_index.get(f)
        if idx is None:
            idx = {}
            g = cfg_of(f.node)
            for n in g.stmt_nodes():
                for e in n.exprs():
                    for x in walk_local(e):
                        idx.setdefault(id(x), n)
            self._node_index[f] = idx
        return idx.get(id(sub))

    # ---- resets
    def _local_reset_nodes(self, f: FuncInfo) -> list:
        g = cfg_of(f.node)
        out = []
        fills = {m.store_node for m in self.memos if m.func.node is f.node}
        for n in g.stmt_nodes():
            if n in fills:
                continue
            st = n.ast if n.kind == 'stmt' else None
            if isinstance(st, (ast.Assign, ast.AugAssign, ast.AnnAssign)):
                targets = st.targets if isinstance(st, ast.Assign) else [st.target]
                if any(isinstance(t, ast.Attribute) and t.attr == self.field for t in targets):
                    out.append(n)
            elif isinstance(st, ast.Delete) and any(isinstance(t, ast.Attribute) and t.attr == self.field for t in st.targets):
                out.append(n)
        return out

    def reset_nodes(self, f: FuncInfo) -> list:
        g = cfg_of(f.node)
        out = list(self._local_reset_nodes(f))
        for n in g.stmt_nodes():
            if n in out:
                continue
            for e in n.exprs():
                done = False
                for c in walk_local(e):
                    edges = [ed for ed in self.cg.by_node.get(c, []) if ed.caller is f]
                    if edges and all(self.must_reset.get(ed.callee, False) for ed in edges):
                        out.append(n)
                        done = True
                        break
                if done:
                    break
        return out

    def _solve_must_reset(self):
        for _ in range(8):
            changed = False
            for f in self.funcs:
                if self.must_reset[f]:
                    continue
                g = cfg_of(f.node)
                rs = self.reset_nodes(f)
                if rs and g.exit in g.reachable(g.entry) and g.path_avoiding(g.entry, g.exit, avoid=rs) is None:
                    self.must_reset[f] = True
                    changed = True
            if not changed:
                break

    def _may_fill(self, f: FuncInfo) -> bool:
        if f not in self.can_fill:
            clo = self.cg.closure([f])
            self.can_fill[f] = any(x.node is ff.node for x in clo for ff in self.fill_funcs)
        return self.can_fill[f]

    def fill_nodes(self, f: FuncInfo) -> list:
        g = cfg_of(f.node)
        out = []
        for n in g.stmt_nodes():
            hit = False
            for e in n.exprs():
                for c in walk_local(e):
                    for ed in self.cg.by_node.get(c, []):
                        if ed.caller is f and self._may_fill(ed.callee):
                            hit = True
            if hit or any(m.store_node is n for m in self.memos if m.func.node is f.node):
                out.append(n)
        return out

    # ---- writes
    def _relevant_local_writes(self, f: FuncInfo):
        if f.name == '__init__':
            return
        for w in self.ef.local_writes.get(f, []):
            fld = FIELD_ALIASES.get(w.field, w.field)
            if fld not in self.deps:
                continue
            if w.root in ('fresh', 'const', 'class', 'module'):
                continue
            owners = set(w.owners or ())
            if owners and owners <= set(state.SCHEMA_FAMILIES):
                continue
            if self.families is not None and owners and not (owners & (self.families | {'Tree'})):
                continue        # the write touches objects of a family on which this memo is never filled
            fam = getattr(f, 'ctx_family', None)
            if self.families is not None and fam is not None and fam not in self.families:
                continue
            if self.families is not None and fam is None and f.cls is not None and f.cls.name == 'XMLElement' and 'XMLElement' in owners \
                    and 'XMLElement' not in self.families:
                # XMLElement's own mutators are handed elements only (add_child / replace_child test the type, remove takes a child of
                # the element); the context-insensitive typing of their parameters also lists the other Tree families
                continue
            node = self.node_of(f, w.node)
            if node is None:
                pm = self.ef._parent_map(f)
                st = w.node
                g = cfg_of(f.node)
                while st is not None and st not in g.node_of_stmt:
                    st = pm.get(st)
                node = g.node_of_stmt.get(st) if st is not None else None
            if node is None:
                continue
            yield node, w.root, fld, (f"{f.qualname}: {short(w.node, 70)}",)

    def _covered(self, f: FuncInfo, wn, resets, fills) -> bool:
        g = cfg_of(f.node)
        # (A) reset after the write on every path to the normal exit (path_avoiding never counts wn itself as a reset)
        if g.exit not in g.reachable(wn) or g.path_avoiding(wn, g.exit, avoid=resets) is None:
            return True
        # (B) reset before, nothing can re-fill in between
        if g.path_avoiding(g.entry, wn, avoid=resets) is not None:
            return False
        for x in fills:
            if x is wn:
                return False
            if x in resets:
                continue
            if wn in g.reachable(x) and g.path_avoiding(x, wn, avoid=resets) is not None:
                return False
        return True

    def _solve_unprotected(self):
        ef = self.ef
        for _ in range(12):
            changed = False
            for f in self.funcs:
                cur = self.unprotected[f]
                cands = list(self._relevant_local_writes(f))
                for e in self.cg.out.get(f, []):
                    cu = self.unprotected.get(e.callee)
                    if not cu:
                        continue
                    if e.kind == 'new':
                        continue
                    node = self.node_of(f, e.node)
                    if node is None:
                        continue
                    amap = ef._arg_roots(e)
                    nested = e.callee.parent is not None
                    for (root, fld), chain in cu.items():
                        if root in ('unknown',):
                            new_roots = {root}
                        elif nested and (root == 'self' or (isinstance(root, tuple) and root not in amap)):
                            new_roots = {root}
                        else:
                            new_roots = amap.get(root, {'unknown'})
                        for nr in new_roots:
                            if nr in ('fresh', 'const', 'class', 'module') or (isinstance(nr, tuple) and nr[0] == 'of' and nr[1] in ('fresh', 'const')):
                                continue
                            cands.append((node, nr, fld, (f"{f.qualname}: {short(e.node, 60)}",) + chain))
                if not cands:
                    continue
                resets = self.reset_nodes(f)
                fills = self.fill_nodes(f)
                for node, root, fld, chain in cands:
                    key = (root, fld)
                    if key in cur:
                        continue
                    if not self._covered(f, node, resets, fills):
                        cur[key] = chain[:8]
                        changed = True
            if not changed:
                break


def check(ctx, cg, ef, res, entries: List[FuncInfo], rule='R-MEMO'):
    """Report, for every memo field of a mutable object, the dependency writes that reach a public entry uncovered."""
    sm = ctx.sm
    res.rule(rule, "lazily filled instance fields (`if self.F is None: self.F = ...`) of elements / matcher nodes / leaves are reset on every path around "
             "every write of the primary state their value is computed from; checked per function and handed to the callers up to the public entry points")
    memos = ctx.lazy('memos', lambda: find_memos(sm, cg))
    by_field: Dict[str, List[Memo]] = {}
    for m in memos:
        by_field.setdefault(m.field, []).append(m)
    res.extra['memo_fields'] = {f: sorted({m.func.qualname for m in ms}) for f, ms in by_field.items()}
    n_obl = 0
    for fld, ms in sorted(by_field.items()):
        co = ctx.lazy(f"memo-coherence-{fld}", lambda: Coherence(ctx, cg, ef, fld, ms, entries))
        if not co.deps:
            res.ok(rule, ms[0].func.fq, f"memo field {fld}: its value depends on no primary state of a mutable object (schema data only)")
            continue
        for e in entries:
            if e.name == '__init__':
                continue
            un = co.unprotected.get(e, {})
            n_obl += 1
            if not un:
                res.ok(rule, e.fq, f"memo field {fld} (filled in {', '.join(sorted(m.func.qualname for m in ms))}; depends on {sorted(co.deps)}): every dependency write "
                       f"reachable from {e.qualname} is covered by a reset")
                continue
            seen = set()
            for (root, f2), chain in sorted(un.items(), key=lambda kv: str(kv[0])):
                origin = chain[-1]
                if origin in seen:
                    continue
                seen.add(origin)
                res.finding(rule, e.fq, f"memo field {fld} is reset around every write of {f2}",
                            f"stale memo: {' -> '.join(chain)} changes {f2} and no reset of {fld} covers it (filled in {', '.join(sorted(m.func.qualname for m in ms))})",
                            key=f"{rule}|{fld}|{e.qualname}|{f2}|{origin.split(':')[0]}")
    res.extra['memo_obligations'] = n_obl
    return by_field
