"""Shared-state discipline (C13 I3/I4, C20): which writes of the API closure touch state that is shared between element
instances / threads, and do they have the fill-then-publish shape of an idempotent lazy cache?"""
import ast
from typing import Dict, List, Set, Tuple

from ..astutil import unparse, short, walk_local, dotted, const_value
from ..cfg import cfg_of
from ..srcmodel import FuncInfo
from ..effects import Write, MUTATORS
from . import tables as T
from . import dom
from . import state

# enumerated lazy caches: (owner family, field) -> reason.  Confirmed by reading; a new shared write is a finding.
LAZY_CACHES = {
    ('XMLElement', 'XSD_TREE'): "class-level: the element declaration node, looked up once per class by XPath",
    ('XSDTreeElement', '_XSD_TREE'): "class-level: the type's schema node, looked up once per class by XPath",
    ('XSDComplexType', '_XSD_TREE'): "same cache, reached through a complex type class",
    ('XSDSimpleType', '_XSD_TREE'): "same cache, reached through a simple type class",
    ('XSDAttributeGroup', '_XSD_TREE'): "same cache",
    ('XSDGroup', '_XSD_TREE'): "same cache",
    ('XSDComplexType', '_XSD_ATTRIBUTES'): "class-level: resolved attribute table of the type",
    ('XSDAttributeGroup', '_XSD_ATTRIBUTES'): "class-level: resolved attribute table of the group",
    ('XSDTree', '_name'): "per schema node: @name", ('XSDTree', '_tag'): "per schema node: local tag",
    ('XSDTree', '_namespace'): "per schema node: namespace", ('XSDTree', '_text'): "per schema node: text",
    ('XSDTree', '_type'): "per schema node: @type", ('XSDTree', '_attributes'): "per schema node: the attrib mapping of the ET node",
    ('XSDTree', '_xml_tree_class_name'): "per schema node: derived class name",
    ('XSDAttribute', '_name'): "per attribute declaration: name", ('XSDAttribute', '_ref'): "per attribute declaration: ref",
    ('XSDAttribute', '_type'): "per attribute declaration: type class", ('XSDAttribute', '_is_required'): "per attribute declaration: use",
    ('XSDElement', '_name'): "per leaf: element name (leaf objects are per element instance; the template's is filled at import)",
    ('XSDGroup', '_sequence'): "per group object: its sequence (shared between copies of the group, never mutated)",
    ('XSDSequence', '_elements'): "documentation helper cache (not reachable from the API closure)",
    ('Tree', '_traversed'): "iterator cache on a schema node", ('Tree', '_iterated_leaves'): "iterator cache on a schema node",
    ('Tree', '_reversed_path_to_root'): "iterator cache on a schema node",
}
GLOBAL_SWITCHES = {'redirect_stdout', 'redirect_stderr', 'locale.setlocale', 'os.chdir', 'os.putenv', 'sys.setrecursionlimit', 'sys.settrace',
                   'warnings.simplefilter', 'warnings.filterwarnings', 'logging.basicConfig'}


def api_entries(sm) -> List[FuncInfo]:
    xe = sm.get_class('XMLElement', T.M_XMLELEMENT)
    names = ['__init__', 'add_child', 'remove', 'replace_child', 'get_children', 'find_child', 'find_children', 'to_string', '__setattr__', '__getattr__',
             '__deepcopy__', 'attributes', 'child_container_tree', 'et_xml_element', 'name', 'possible_children_names', 'value_', 'xsd_check']
    out = []
    for n in names:
        if n in xe.methods:
            out.append(xe.methods[n])
        if n in xe.setters:
            out.append(xe.setters[n])
    out.append(sm.func('XMLScorePartwise', 'write', T.M_XMLELEMENT))
    out.append(sm.func(None, 'parse_musicxml', T.M_PARSER))
    return out


def is_shared(w: Write) -> bool:
    """Does this local write touch an object that several element instances / threads can reach?"""
    if w.root in ('class', 'module'):
        return True
    if w.root in ('fresh', 'const'):
        return False
    owners = set(w.owners)
    if owners and owners <= state.SCHEMA_FAMILIES | {'XSDTreeElement'}:
        return True
    return False


def shared_writes(cg, ef, entries) -> Tuple[List[Write], Set[FuncInfo]]:
    """Local writes, in functions of the API closure, that touch shared objects.  A write through `self` inside a method of a
    schema-family class counts: whether the receiver object is a fresh private copy is decided at each call edge by the
    interprocedural summary (fresh receivers drop the effect) - so we take the *summary* of the entries and map every
    surviving effect back to its origin write."""
    clo = cg.closure(entries)
    out = {}
    for e in entries:
        for key in ef.summary_writes.get(e, set()):
            ex = ef.write_exemplar.get((e, key))
            if ex is None:
                continue
            o = ex.origin()
            if is_shared(o) or key[0] in ('class', 'module'):
                out[(o.func, id(o.node), o.field)] = o
    # the summary keeps one exemplar per (root, field); add every local write of the closure with the same (owner, field)
    # so that all writers of a shared field are examined, not just one
    fields = {(tuple(sorted(o.owners)), o.field) for o in out.values()}
    for f in clo:
        for w in ef.local_writes.get(f, []):
            if (tuple(sorted(w.owners)), w.field) in fields and (is_shared(w)):
                out.setdefault((w.func, id(w.node), w.field), w)
            elif w.root in ('class', 'module'):
                out.setdefault((w.func, id(w.node), w.field), w)
    return list(out.values()), clo


def cache_key(w: Write):
    for o in sorted(w.owners) or ['?']:
        if (o, w.field) in LAZY_CACHES:
            return (o, w.field)
    # class-level write without owner info
    for (o, f) in LAZY_CACHES:
        if f == w.field and not w.owners:
            return (o, f)
    return None


def check_publish_shape(res, rule, w: Write, ef) -> None:
    """fill-then-publish: guarded by a test of the same location, one store of a complete value computed from class-level
    inputs only, and the stored object is not mutated after the store."""
    f = w.func
    g = cfg_of(f.node)
    pm = ef._parent_map(f)
    st = w.node
    while st is not None and st not in g.node_of_stmt:
        st = pm.get(st)
    node = g.node_of_stmt.get(st)
    where = f.fq
    if w.how not in ('store',):
        res.finding(rule, where, f"`{short(w.node, 70)}`: a shared cache is published by one store, never edited in place",
                    f"in-place edit ({w.how}) of shared {('/'.join(sorted(w.owners)) or w.root)}.{w.field}: a concurrent reader can observe the partial value and a "
                    "second instance sees what the first one did", key=f"{rule}|in-place|{f.qualname}|{w.field}|{w.how}", line=getattr(w.node, 'lineno', None))
        return
    if node is None or not isinstance(st, ast.Assign):
        res.finding(rule, where, f"`{short(w.node, 70)}` has the shape of a guarded lazy initialisation", "not a plain assignment",
                    key=f"{rule}|shape|{f.qualname}|{w.field}")
        return
    target_txt = [unparse(t) for t in st.targets if isinstance(t, ast.Attribute) and t.attr == w.field]
    loc = target_txt[0] if target_txt else ''
    # a guard may test a local that holds what was read from the location (`t = self._type; if t is None: ...`): the test is taken on what it computes
    guards = [(unparse(dom.expand(g, t.ast, t)), lab) for t, lab in dom.guards_of(g, node) if t.kind == 'test']
    guarded = any(loc and loc in txt for txt, _ in guards) or any(f".{w.field}" in txt for txt, _ in guards)
    # __init__ of a schema-family object initialises its own fields: that is construction, not publication
    if f.name == '__init__' or f.is_setter:
        return
    res.check(guarded, rule, where, f"`{short(st, 60)}` is guarded by a test of the cache location itself (idempotent lazy initialisation)",
              fail_detail=f"guards: {guards}", key=f"{rule}|unguarded|{f.qualname}|{w.field}", line=st.lineno)
    # value depends on class-level inputs only
    params = set(f.params[1:]) if f.cls is not None and not f.is_staticmethod else set(f.params)
    used = {n.id for n in ast.walk(st.value) if isinstance(n, ast.Name)}
    res.check(not (used & params), rule, where, f"the cached value of {w.field} does not depend on call arguments",
              fail_detail=f"uses parameter(s) {sorted(used & params)}", key=f"{rule}|arg-dependent|{f.qualname}|{w.field}", line=st.lineno)
    # published object not mutated afterwards through a local alias
    aliases = set()
    if isinstance(st.value, ast.Name):
        aliases.add(st.value.id)
    for t in st.targets:
        if isinstance(t, ast.Name):
            aliases.add(t.id)
    after = g.reachable(node) - {node}
    for n in after:
        for e in n.exprs():
            for c in walk_local(e):
                hit = None
                if isinstance(c, ast.Call) and isinstance(c.func, ast.Attribute) and c.func.attr in MUTATORS:
                    base = unparse(c.func.value)
                    if base in aliases or base == loc:
                        hit = c
                if isinstance(c, ast.Subscript) and isinstance(c.ctx, (ast.Store, ast.Del)) and unparse(c.value) in aliases | {loc}:
                    hit = c
                if hit is not None:
                    res.finding(rule, where, f"the object stored in {loc} is complete when it is published",
                                f"`{short(hit, 60)}` mutates it after `{short(st, 50)}` (publish-then-fill): another thread can read the partial table",
                                key=f"{rule}|publish-then-fill|{f.qualname}|{w.field}", line=hit.lineno)
                    return
    # an empty container published and filled later through the location itself is covered by the in-place rule above


def _is_invalidation_counter(ctx, w) -> bool:
    """`Cls.counter += <const>` where every read of `.counter` in the program is either one side of an (in)equality with an instance field
    `x.<stamp>` or the value stored into such a stamp field: a version counter.  Losing an update under concurrency still changes the value."""
    st = w.node
    if not (isinstance(st, ast.AugAssign) and isinstance(st.op, ast.Add) and isinstance(st.value, ast.Constant) and isinstance(st.target, ast.Attribute)):
        return False
    name = st.target.attr
    stamps = set()
    loads = []
    for f in ctx.sm.functions:
        if not f.module.name.startswith('musicxml'):
            continue
        pm = {}
        for n in ast.walk(f.node):
            for c in ast.iter_child_nodes(n):
                pm[c] = n
        for n in ast.walk(f.node):
            if isinstance(n, ast.Attribute) and n.attr == name and isinstance(n.ctx, ast.Load):
                par = pm.get(n)
                if isinstance(par, ast.AugAssign) and par.target is n:
                    continue
                loads.append((n, par))
    if not loads:
        return False
    for n, par in loads:
        if isinstance(par, ast.Compare) and len(par.ops) == 1 and isinstance(par.ops[0], (ast.Eq, ast.NotEq)):
            other = par.comparators[0] if par.left is n else par.left
            if isinstance(other, ast.Attribute):
                stamps.add(other.attr)
                continue
            return False
        if isinstance(par, ast.Assign) and par.value is n and len(par.targets) == 1 and isinstance(par.targets[0], ast.Attribute):
            stamps.add(par.targets[0].attr)
            continue
        return False
    return bool(stamps)


def _receiver_is_fresh_here(w: Write, ef) -> bool:
    """An in-place edit through a local name that, at this point of the function, can only hold an object allocated in this call (`xs = cls._TABLE;
    if xs is None: xs = []; xs.append(..)`): the flow-insensitive roots of the name include the shared location, its reaching definitions here do not."""
    n = w.node
    recv = None
    for c in ast.walk(n):
        if isinstance(c, ast.Call) and isinstance(c.func, ast.Attribute) and c.func.attr in MUTATORS and isinstance(c.func.value, ast.Name):
            recv = c.func.value.id
            break
        if isinstance(c, ast.Subscript) and isinstance(c.ctx, (ast.Store, ast.Del)) and isinstance(c.value, ast.Name):
            recv = c.value.id
            break
    if recv is None:
        return False
    f = w.func
    g = cfg_of(f.node)
    pm = ef._parent_map(f)
    st = n
    while st is not None and st not in g.node_of_stmt:
        st = pm.get(st)
    node = g.node_of_stmt.get(st)
    if node is None:
        return False
    ds = dom.reaching_defs(g, recv, node)
    if not ds or recv in f.params:
        return False
    fresh = (ast.List, ast.Dict, ast.Set, ast.ListComp, ast.DictComp, ast.SetComp)
    for d in ds:
        v = d.ast.value if isinstance(d.ast, ast.Assign) and len(d.ast.targets) == 1 and isinstance(d.ast.targets[0], ast.Name) else None
        if not (isinstance(v, fresh) or isinstance(v, ast.Call) and isinstance(v.func, ast.Name) and v.func.id in ('list', 'dict', 'set') and
                not any(isinstance(x, ast.Attribute) for a in v.args for x in ast.walk(a))):
            return False
    return True


def keyed_publish_ok(w: Write, ef):
    """`Cls.TABLE[key] = obj` on a class-level dictionary used as a registry of lazily built tables: accepted when it has the fill-then-publish shape per
    key - obj is a local that, at the store, can only hold an object allocated in this call (filled before), the store is guarded by a lookup of the same
    table, the object is not edited after the store, and neither key nor object depend on call arguments other than the receiver's class-level data.
    Returns (ok, reason)."""
    st = w.node
    if not (isinstance(st, ast.Assign) and len(st.targets) == 1 and isinstance(st.targets[0], ast.Subscript) and isinstance(st.targets[0].value, ast.Attribute)
            and isinstance(st.value, ast.Name)):
        return False, 'not `Class.TABLE[key] = <local>`'
    table = st.targets[0].value.attr
    f = w.func
    g = cfg_of(f.node)
    node = g.node_of_stmt.get(st)
    if node is None:
        return False, 'statement not found'
    ds = dom.reaching_defs(g, st.value.id, node)
    fresh = (ast.List, ast.Dict, ast.Set, ast.ListComp, ast.DictComp, ast.SetComp)
    if not ds or not all(isinstance(d.ast, ast.Assign) and isinstance(d.ast.value, fresh) for d in ds):
        return False, f"`{st.value.id}` may hold an object that is already published"
    guards = [unparse(dom.expand(g, t.ast, t)) for t, lab in dom.guards_of(g, node) if t.kind == 'test']
    if not any(f".{table}" in txt for txt in guards):
        return False, f"not guarded by a lookup of {table}"
    params = set(f.params[1:]) if f.cls is not None and not f.is_staticmethod else set(f.params)
    used = {n.id for n in ast.walk(st.targets[0].slice) if isinstance(n, ast.Name)}
    if used & params:
        return False, f"the key depends on call argument(s) {sorted(used & params)}"
    for n in g.reachable(node) - {node}:
        for e in n.exprs():
            for c in walk_local(e):
                if isinstance(c, ast.Call) and isinstance(c.func, ast.Attribute) and c.func.attr in MUTATORS and unparse(c.func.value) == st.value.id:
                    return False, f"`{short(c, 50)}` edits the table after it was published"
                if isinstance(c, ast.Subscript) and isinstance(c.ctx, (ast.Store, ast.Del)) and unparse(c.value) == st.value.id:
                    return False, f"`{short(c, 50)}` edits the table after it was published"
    return True, ''


def _own_dict_get_is_none(e, fld) -> bool:
    """`<x>.__dict__.get('F') is None` / `<x>.__dict__.get('F', None) is None`"""
    if not (isinstance(e, ast.Compare) and len(e.ops) == 1 and isinstance(e.ops[0], ast.Is) and const_value(e.comparators[0], 0) is None
            and isinstance(e.comparators[0], ast.Constant)):
        return False
    c = e.left
    return (isinstance(c, ast.Call) and isinstance(c.func, ast.Attribute) and c.func.attr == 'get' and unparse(c.func.value).endswith('.__dict__')
            and 1 <= len(c.args) <= 2 and not c.keywords and const_value(c.args[0]) == fld
            and (len(c.args) == 1 or isinstance(c.args[1], ast.Constant) and c.args[1].value is None))


def own_dict_cache_ok(w: Write, ef):
    """`cls.F = <value>` for a class-level field F that only this statement stores: a per-class lazy table is accepted when the store is guarded by
    `'F' not in <cls>.__dict__` (the class's OWN dictionary - a test through attribute lookup would resolve in a base class and hand a derived type its
    base's table), the value does not depend on call arguments, and the stored object is not edited afterwards.  Returns (ok, reason)."""
    st = w.node
    if not (isinstance(st, ast.Assign) and len(st.targets) == 1 and isinstance(st.targets[0], ast.Attribute)):
        return False, 'not a plain store'
    f = w.func
    g = cfg_of(f.node)
    node = g.node_of_stmt.get(st)
    if node is None:
        return False, 'statement not found'
    fld = st.targets[0].attr
    own = any(t.kind == 'test' and lab == 'F' and isinstance(t.ast, ast.Compare) and isinstance(t.ast.ops[0], ast.In) and const_value(t.ast.left) == fld and
              unparse(dom.expand(g, t.ast.comparators[0], t)).endswith('.__dict__') for t, lab in dom.guards_of(g, node))
    # the same test spelt `<class>.__dict__.get('F') is None` (taken when true): a stored None is recomputed, never a base class's table
    own = own or any(t.kind == 'test' and lab == 'T' and _own_dict_get_is_none(dom.expand(g, t.ast, t), fld) for t, lab in dom.guards_of(g, node))
    if not own:
        return False, f"not guarded by `'{fld}' not in <class>.__dict__`"
    params = set(f.params[1:]) if f.cls is not None and not f.is_staticmethod else set(f.params)
    used = {n.id for n in ast.walk(st.value) if isinstance(n, ast.Name)}
    # a local computed before the store: follow it one level
    for d in [x for nm in used for x in dom.reaching_defs(g, nm, node) if isinstance(x.ast, ast.Assign)]:
        used |= {n.id for n in ast.walk(d.ast.value) if isinstance(n, ast.Name)}
    if used & params:
        return False, f"the value depends on call argument(s) {sorted(used & params)}"
    aliases = {st.value.id} if isinstance(st.value, ast.Name) else set()
    loc = unparse(st.targets[0])
    for n in g.reachable(node) - {node}:
        for e in n.exprs():
            for c in walk_local(e):
                if isinstance(c, ast.Call) and isinstance(c.func, ast.Attribute) and c.func.attr in MUTATORS and unparse(c.func.value) in aliases | {loc}:
                    return False, f"`{short(c, 50)}` edits the table after it was published"
                if isinstance(c, ast.Subscript) and isinstance(c.ctx, (ast.Store, ast.Del)) and unparse(c.value) in aliases | {loc}:
                    return False, f"`{short(c, 50)}` edits the table after it was published"
    return True, ''


def _thread_local_names(sm) -> Set[str]:
    """class- or module-level names bound to `threading.local()`: what hangs below them is per thread"""
    out = set()
    for m in sm.modules.values():
        if not m.name.startswith('musicxml'):
            continue
        for n in ast.walk(m.tree):
            if isinstance(n, ast.Assign) and isinstance(n.value, ast.Call) and (dotted(n.value.func) or '') in ('threading.local', 'local') and not n.value.args:
                out |= {t.id for t in n.targets if isinstance(t, ast.Name)}
    return out


def _through_thread_local(w: Write, ef, names: Set[str]) -> bool:
    """the edited object is reached through a `threading.local()` (directly, or through a local bound to something below it): each thread edits its own"""
    if not names:
        return False
    f = w.func
    g = cfg_of(f.node)
    pm = ef._parent_map(f)
    st = w.node
    while st is not None and st not in g.node_of_stmt:
        st = pm.get(st)
    node = g.node_of_stmt.get(st)
    if node is None:
        return False
    for c in ast.walk(w.node):
        recv = None
        if isinstance(c, ast.Call) and isinstance(c.func, ast.Attribute) and c.func.attr in MUTATORS:
            recv = c.func.value
        elif isinstance(c, (ast.Subscript, ast.Attribute)) and isinstance(getattr(c, 'ctx', None), (ast.Store, ast.Del)):
            recv = c.value
        if recv is not None:
            txt = unparse(dom.expand(g, recv, node))
            if any(f".{nm}." in txt + '.' or txt.startswith(nm + '.') for nm in names):
                return True
    return False


def check_shared_state(ctx, cg, ef, rule: str, entries=None):
    """Every shared write of the API closure is one of the enumerated lazy caches and has the publish shape."""
    res = ctx.res
    entries = entries or api_entries(ctx.sm)
    ws, clo = shared_writes(cg, ef, entries)
    seen_caches = set()
    tl_names = _thread_local_names(ctx.sm)
    for w in sorted(ws, key=lambda x: (x.func.fq, getattr(x.node, 'lineno', 0))):
        if tl_names and _through_thread_local(w, ef, tl_names):
            res.ok(rule, w.func.fq, f"`{short(w.node, 60)}` edits per-thread state (reached through a threading.local)")
            continue
        if w.func.module.name == 'verysimpletree.tree' and w.field in ('_traversed', '_iterated_leaves', '_reversed_path_to_root', '_is_leaf', '_children', '_parent', '_content'):
            # Tree bookkeeping reached through XSDTree construction/deep copies (fresh nodes) is instance-local
            if w.root in ('self', 'unknown') or isinstance(w.root, tuple):
                ck = cache_key(w)
                if ck is None and not (set(w.owners) & {'XSDTree'}):
                    continue
        if w.how != 'store' and _receiver_is_fresh_here(w, ef):
            continue            # the edited object was allocated in this call and is not published yet
        ck = cache_key(w)
        if ck is None:
            owners = '/'.join(sorted(w.owners)) or w.root
            if w.func.name == '__init__' and w.root == 'self':
                continue       # a constructor initialising its own object
            if w.how == 'store' and w.root == 'class' and not any((o, w.field) in LAZY_CACHES for o in w.owners):
                ok_o, why_o = own_dict_cache_ok(w, ef)
                if ok_o:
                    res.ok(rule, w.func.fq, f"`{short(w.node, 60)}` fills a per-class lazy table kept in the class's own dictionary (guarded by `'{w.field}' not in "
                           "<class>.__dict__`, argument-independent, not edited afterwards)")
                    continue
            if w.how == 'store[]' and w.root == 'class':
                ok_k, why_k = keyed_publish_ok(w, ef)
                if ok_k:
                    res.ok(rule, w.func.fq, f"`{short(w.node, 60)}` registers a complete, freshly built table under a key of a class-level registry (fill, then publish; "
                           "guarded by a lookup of the registry; not edited afterwards)")
                    continue
            if _is_invalidation_counter(ctx, w):
                res.ok(rule, w.func.fq, f"`{short(w.node, 50)}` bumps a counter that is only ever compared with memo stamps (it can invalidate memos of other instances, "
                       "never change what they compute)")
                continue
            res.finding(rule, w.func.fq, f"`{short(w.node, 70)}` does not write state shared between instances/threads",
                        f"{owners}.{w.field} ({w.how}, root {w.root}) is not one of the enumerated idempotent lazy caches",
                        key=f"{rule}|unlisted|{w.func.qualname}|{w.field}|{w.how}", line=getattr(w.node, 'lineno', None))
            continue
        seen_caches.add(ck)
        check_publish_shape(res, rule, w, ef)
        if not any(o.status == 'violated' and o.where == w.func.fq and w.field in (o.key or '') for o in res.obligations):
            res.ok(rule, w.func.fq, f"lazy cache {ck[0]}.{ck[1]}: `{short(w.node, 50)}` is a guarded, argument-independent, single store", LAZY_CACHES[ck])
    res.extra['lazy_caches_seen'] = sorted(f"{a}.{b}" for a, b in seen_caches)
    res.extra['shared_writes_examined'] = len(ws)
    return ws, clo


def check_global_switches(ctx, cg, rule: str, entries):
    res = ctx.res
    clo = cg.closure(entries)
    hits = []
    for f in clo:
        for n in walk_local(f.node, include_root=False):
            if isinstance(n, ast.Call):
                d = dotted(n.func) or ''
                if d in GLOBAL_SWITCHES or d.split('.')[-1] in ('redirect_stdout', 'redirect_stderr'):
                    hits.append((f, n, d))
            if isinstance(n, (ast.Assign,)):
                for t in n.targets:
                    if dotted(t) in ('sys.stdout', 'sys.stderr', 'sys.stdin') or (isinstance(t, ast.Subscript) and dotted(t.value) == 'os.environ'):
                        hits.append((f, n, dotted(t) or 'os.environ[...]'))
    for f, n, d in hits:
        res.finding(rule, f.fq, f"`{short(n, 60)}` (a process-global switch) is not reachable from build/validate/serialise entry points",
                    key=f"{rule}|global-switch|{f.qualname}|{d}", line=n.lineno)
    if not hits:
        res.ok(rule, 'API closure', f"{len(clo)} functions: no process-global switch (stdout redirection, locale, cwd, environment)")
