"""Must-effects: labels that every normal path of a function performs, computed interprocedurally, so that a pairing /
gate rule is satisfied equally by a statement in the function itself and by a call of a helper that performs it on every
path (behaviour-preserving "extract helper" refactorings stay silent).

Labels
  ('write', root, field, how, value)   root in {'self', ('param', i)} relative to the function; how in {'store', 'append', 'remove', 'insert', ...};
                                       value in {'self', 'none', ('param', i), 'other'} (for stores) or the root of the argument (for list edits)
  ('call', qualname, args)             a call of a closure function, args = tuple of roots of the positional arguments (after the receiver)
"""
import ast
from typing import Dict, FrozenSet, Optional, Set, Tuple

from ..astutil import unparse, walk_local
from ..cfg import cfg_of, CFG
from ..srcmodel import FuncInfo

LIST_EDITS = {'append', 'remove', 'insert', 'pop', 'extend', 'clear'}


def _simple_root(f: FuncInfo, e) -> object:
    """Root of a simple expression: 'self', ('param', i), 'none', or 'other'."""
    if isinstance(e, ast.Constant) and e.value is None:
        return 'none'
    if isinstance(e, ast.Name):
        if e.id in f.params:
            i = f.params.index(e.id)
            if i == 0 and f.cls is not None and f.parent is None and not f.is_staticmethod:
                return 'self'
            return ('param', i)
        if f.parent is not None:
            # free variable of a nested helper: resolve in the enclosing function
            r = _simple_root(f.parent, e)
            return r
    return 'other'


class MustFx:
    def __init__(self, cg, assumptions: Optional[Dict[str, bool]] = None):
        self.cg = cg
        self.sm = cg.sm
        self.assume = assumptions or {}
        self.must: Dict[FuncInfo, Set[tuple]] = {}
        self._node_labels_cache: Dict[FuncInfo, Dict[object, Set[tuple]]] = {}
        self._solve()

    # ---------------------------------------------------------------- local labels of one CFG node
    def _local_labels(self, f: FuncInfo, node) -> Set[tuple]:
        out = set()
        st = node.ast if node.kind in ('stmt', 'return') else None
        if isinstance(st, ast.Assign):
            for t in st.targets:
                if isinstance(t, ast.Attribute):
                    out.add(('write', _simple_root(f, t.value), t.attr, 'store', _simple_root(f, st.value)))
                    # one level of indirection: x.a.b = v  -> root of x, path a.b
                    if isinstance(t.value, ast.Attribute):
                        out.add(('write', _simple_root(f, t.value.value), f"{t.value.attr}.{t.attr}", 'store', _simple_root(f, st.value)))
        if isinstance(st, ast.Assign):
            for t in st.targets:
                if isinstance(t, ast.Subscript) and isinstance(t.value, ast.Attribute):
                    out.add(('write', _simple_root(f, t.value.value), t.value.attr, 'setitem', _simple_root(f, st.value)))
        for e in node.exprs():
            for c in walk_local(e):
                if isinstance(c, ast.Call) and isinstance(c.func, ast.Attribute) and c.func.attr in LIST_EDITS and isinstance(c.func.value, ast.Attribute):
                    holder = c.func.value
                    arg = _simple_root(f, c.args[-1]) if c.args else 'none'
                    out.add(('write', _simple_root(f, holder.value), holder.attr, c.func.attr, arg))
                    if isinstance(holder.value, ast.Attribute):
                        out.add(('write', _simple_root(f, holder.value.value), f"{holder.value.attr}.{holder.attr}", c.func.attr, arg))
        return out

    def _call_labels(self, f: FuncInfo, node) -> Set[tuple]:
        out = set()
        for e in node.exprs():
            for c in walk_local(e):
                edges = self.cg.by_node.get(c, [])
                for ed in edges:
                    if ed.caller is not f and getattr(ed.caller, 'node', None) is not f.node:
                        continue
                    callee = ed.callee
                    if isinstance(c, ast.Call):
                        args = tuple(_simple_root(f, a) for a in c.args if not isinstance(a, ast.Starred))
                        recv = _simple_root(f, c.func.value) if isinstance(c.func, ast.Attribute) else 'other'
                        out.add(('call', callee.qualname.split('@')[0], recv, args))
                        # instantiate the callee's must-effects
                        amap = {'self': recv}
                        off = 1 if (callee.cls is not None and callee.parent is None and not callee.is_staticmethod and isinstance(c.func, ast.Attribute)) else 0
                        for i, a in enumerate(args):
                            amap[('param', i + off)] = a
                        for kw in c.keywords:
                            if kw.arg in callee.params:
                                amap[('param', callee.params.index(kw.arg))] = _simple_root(f, kw.value)
                        if callee.parent is f:
                            # nested helper: its free variables are ours
                            amap = None
                        for lab in self.must.get(callee, ()):  # noqa
                            out.add(self._instantiate(lab, amap))
                    elif isinstance(c, ast.Attribute) and ed.kind == 'prop-set':
                        pass
        return out

    @staticmethod
    def _instantiate(lab, amap):
        if amap is None:
            return lab

        def m(r):
            if r in ('none', 'other'):
                return r
            return amap.get(r, 'other')
        if lab[0] == 'write':
            return ('write', m(lab[1]), lab[2], lab[3], m(lab[4]))
        if lab[0] == 'call':
            return ('call', lab[1], m(lab[2]), tuple(m(a) for a in lab[3]))
        return lab

    def node_labels(self, f: FuncInfo) -> Dict[object, Set[tuple]]:
        g = cfg_of(f.node)
        out = {}
        for n in g.stmt_nodes():
            labs = self._local_labels(f, n) | self._call_labels(f, n)
            if labs:
                out[n] = labs
        return out

    def _must_of(self, f: FuncInfo) -> Set[tuple]:
        g = cfg_of(f.node)
        ok = g.edge_filter_assuming(self.assume) if self.assume else None
        labels = self.node_labels(f)
        by_label: Dict[tuple, list] = {}
        for n, labs in labels.items():
            for lab in labs:
                by_label.setdefault(lab, []).append(n)
        out = set()
        if g.exit not in g.reachable(g.entry, edge_ok=ok):
            return out
        for lab, nodes in by_label.items():
            if 'other' == lab[1] and lab[0] == 'write':
                continue
            if g.path_avoiding(g.entry, g.exit, avoid=nodes, edge_ok=ok) is None:
                out.add(lab)
        return out

    def _solve(self):
        funcs = [f for f in self.cg.all_functions() if f.module.name.startswith('musicxml') or f.module.name == 'verysimpletree.tree']
        for f in funcs:
            self.must[f] = set()
        for _ in range(6):
            changed = False
            for f in funcs:
                new = self._must_of(f)
                if new - self.must[f]:
                    self.must[f] |= new
                    changed = True
            if not changed:
                break

    # ---------------------------------------------------------------- queries for the rules
    def nodes_with(self, f: FuncInfo, pred) -> list:
        """CFG nodes of f carrying a label (local or through a helper's must-effects) that satisfies pred."""
        return [n for n, labs in self.node_labels(f).items() if any(pred(lab) for lab in labs)]

    def performed_on_every_path(self, f: FuncInfo, pred, assume=None) -> bool:
        g = cfg_of(f.node)
        ok = g.edge_filter_assuming(assume) if assume else None
        nodes = self.nodes_with(f, pred)
        return bool(nodes) and g.path_avoiding(g.entry, g.exit, avoid=nodes, edge_ok=ok) is None
