"""R-ATOM: no observable (primary, non-fresh) write before a reachable raise.
hazards(f) = pairs (write origin, raise site) such that during one execution of f the write may be performed and afterwards
the raise may escape f.  Computed bottom-up over the call graph with root instantiation (writes through objects that are
fresh in the caller are dropped)."""
import ast
from typing import Dict, FrozenSet, List, Optional, Set, Tuple

from ..astutil import unparse, short, walk_local, const_value, norm_text
from ..cfg import cfg_of
from ..srcmodel import FuncInfo
from ..effects import Effects, Write, RaiseSite, exc_is_subclass
from . import dom

# primary state for atomicity (DESIGN.md R-ATOM): what an observer of the element can see
ATOM_PRIMARY = {
    ('XMLElement', '_unordered_children'), ('XMLElement', '_parent'), ('XMLElement', 'parent_xsd_element'), ('XMLElement', '_attributes'),
    ('XMLElement', '_value'), ('XSDElement', '_xml_elements'), ('XMLChildContainer', '_chosen_child'), ('XMLChildContainer', 'chosen_child'),
    ('XMLChildContainer', '_force_validate'),
}
PRIMARY_FIELDS_NO_OWNER = {'_unordered_children', 'parent_xsd_element', '_xml_elements', '_chosen_child', 'chosen_child', '_force_validate'}


def is_primary(w: Write) -> bool:
    for o in w.owners:
        if (o, w.field) in ATOM_PRIMARY:
            return True
    if not w.owners and w.field in PRIMARY_FIELDS_NO_OWNER:
        return True
    return False


INFRA_CLASSES = {'XMLChildContainer', 'XSDElement', 'XSDSequence', 'XSDChoice', 'XSDGroup', 'XSDTree', 'Tree', 'TestTree', 'XSDAttribute',
                 'DuplicationXSDSequence', 'XMLChildContainerFactory', 'TreeRepresentation', 'XSDTreeElement'}
STRUCTURE_FUNCS = {'XMLChildContainer._add_duplication_parent', 'XMLChildContainer.duplicate'}
SHAPE_MARKERS = ('isinstance(', '.tag !=', '.tag ==', 'hasattr(', "'XMLElement' not in", "'XSDComplexType' not in", "'XMLElement' in", "'XSDComplexType' in")


def defensive_guard(r: RaiseSite) -> bool:
    """A raise of TypeError/ValueError inside the matcher / tree infrastructure whose every guard is a *shape test* of an object the
    library itself produced (isinstance, tag comparison).  Assumption (recorded in the evidence): these cannot fire."""
    f = r.func
    owner = f.cls.name if f.cls is not None else None
    infra = owner in INFRA_CLASSES or (owner is None and f.module.name.endswith(('xmlchildcontainer', 'xsdtree', 'xsdindicator', 'xsdelement')))
    if not infra or r.exc not in ('TypeError', 'ValueError', 'AttributeError') or r.implicit:
        return False
    if not isinstance(r.node, ast.Raise):
        return False
    if f.name in ('_check_content_type', '_check_child_to_be_added'):
        return True
    g = cfg_of(f.node)
    node = None
    for n in g.stmt_nodes():
        if n.ast is r.node:
            node = n
    if node is None:
        return False
    guards = [unparse(t.ast) for t, lab in dom.guards_of(g, node) if t.kind == 'test']
    if not guards:
        return False
    return all(any(m in gt for m in SHAPE_MARKERS) for gt in guards[-1:])


def _owner_fn_node(f: FuncInfo):
    g = f
    while g.parent is not None:
        g = g.parent
    return g.node


def wkey(w: Write) -> str:
    return f"{w.func.qualname.split('@')[0]}: {norm_text(w.node, w.func.node, 80)}"


def rkey(r: RaiseSite) -> str:
    """Identity of a raise site for the known-findings atoms: function + exception class for explicit raises (the message is
    not part of the identity - rewording it is not a new hazard), normalised text for implicit sites (subscripts, list.remove)."""
    fq = r.func.qualname.split('@')[0]
    if isinstance(r.node, ast.Raise):
        return f"{fq}: raise {r.exc}" if r.node.exc is not None else f"{fq}: raise"
    return f"{fq}: {norm_text(r.node, r.func.node, 70)}"


class Atom:
    def __init__(self, ef: Effects):
        self.ef = ef
        self.cg = ef.cg
        self.sm = ef.sm
        self.node_index: Dict[FuncInfo, Dict[ast.AST, object]] = {}
        self.implicit: Dict[FuncInfo, List[RaiseSite]] = {}
        self.dead: Dict[Tuple[str, str], str] = {}     # (call site key, raise key) -> reason it cannot fire there
        self.defensive: Set[str] = set()
        self._prepare()
        # per function: list of (root, Write origin) it may perform; list of RaiseSite that may escape
        self.writes: Dict[FuncInfo, Set[Tuple[object, Write]]] = {f: set() for f in self.cg.all_functions()}
        self.raises: Dict[FuncInfo, Dict[str, RaiseSite]] = {f: {} for f in self.cg.all_functions()}
        self.hazards: Dict[FuncInfo, Dict[Tuple[str, str], Tuple[object, Write, RaiseSite]]] = {f: {} for f in self.cg.all_functions()}
        self._solve()

    # ------------------------------------------------------------------ preparation
    def _idx(self, f: FuncInfo):
        if f not in self.node_index:
            g = cfg_of(f.node)
            idx = {}
            for n in g.stmt_nodes():
                for e in n.exprs():
                    for sub in ast.walk(e):
                        idx.setdefault(sub, n)
                if n.ast is not None:
                    idx.setdefault(n.ast, n)
            self.node_index[f] = idx
        return self.node_index[f]

    def _prepare(self):
        """Catalogued implicit raisers: a subscript indexed by a parameter-derived name; list.remove/index of a parameter-derived
        object (fails when the caller passes something that is not there)."""
        ef = self.ef
        for f in self.cg.all_functions():
            out = []
            if not (f.module.name.startswith('musicxml')):
                self.implicit[f] = out
                continue
            params = set(f.params)
            for n in walk_local(f.node, include_root=False):
                if isinstance(n, ast.Subscript) and isinstance(n.slice, ast.Name) and n.slice.id in params and not isinstance(n.value, ast.Name) or \
                        (isinstance(n, ast.Subscript) and isinstance(n.slice, ast.Name) and n.slice.id in params):
                    if not any(ef.caught(f, n, x) for x in ('IndexError', 'KeyError')):
                        out.append(RaiseSite(f, n, 'IndexError', implicit=True))
                if isinstance(n, ast.Call) and isinstance(n.func, ast.Attribute) and n.func.attr in ('remove', 'index') and len(n.args) == 1 \
                        and not self.cg.by_node.get(n):
                    roots = ef.expr_roots(f, n.args[0])
                    argnames = {x.id for x in ast.walk(n.args[0]) if isinstance(x, ast.Name)}
                    recvnames = {x.id for x in ast.walk(n.func.value) if isinstance(x, ast.Name)}
                    # `p.back_pointer.list.remove(p)` cannot fail while the back-pointer pairing holds (R-PAIR); `self.list.remove(p)` can
                    if any(isinstance(r, tuple) and r[0] == 'param' for r in roots) and not ef.caught(f, n, 'ValueError') and not (argnames & recvnames):
                        out.append(RaiseSite(f, n, 'ValueError', implicit=True))
            self.implicit[f] = out

    # ------------------------------------------------------------------ dead raise sites at a call
    def _dead_at(self, caller: FuncInfo, edge, r: RaiseSite) -> Optional[str]:
        """A mechanical reason why raise site r (inside edge.callee or deeper) cannot fire for this call."""
        callee = edge.callee
        node = edge.node
        # (i) literal-argument guards of property setters: `x.requirements_fulfilled = False` cannot hit `if not isinstance(val, bool): raise`
        if edge.kind == 'prop-set' and r.func is callee and isinstance(r.node, ast.Raise):
            g = cfg_of(callee.node)
            rn = self._idx(callee).get(r.node)
            pm = self.ef._parent_map(caller)
            st = pm.get(node)
            while st is not None and not isinstance(st, (ast.Assign, ast.AugAssign)):
                st = pm.get(st)
            val = getattr(st, 'value', None)
            if rn is not None:
                for t, lab in dom.guards_of(g, rn):
                    if t.kind != 'test' or lab != 'F':
                        continue           # CFG tests are positive (leading `not` stripped, labels swapped): `if not isinstance(..)` = the F edge
                    txt = unparse(t.ast)
                    p = callee.params[1] if len(callee.params) > 1 else 'val'
                    if txt == f"isinstance({p}, bool)" and isinstance(val, ast.Constant) and isinstance(val.value, bool):
                        return "literal bool argument passes the setter's type guard"
                    if txt == 'isinstance(self.content, XSDChoice)':
                        # (ii) single-writer invariant: the receiver is known to be a choice at this call
                        recv = unparse(node.value)
                        cg_ = cfg_of(caller.node)
                        cn = self._idx(caller).get(node)
                        if cn is not None:
                            for t2, lab2 in dom.guards_of(cg_, cn):
                                if t2.kind == 'test' and lab2 == 'T' and (f"isinstance({recv}.content, XSDChoice)" in unparse(t2.ast) or
                                                                          (f"{recv}.chosen_child ==" in unparse(t2.ast))):
                                    return "the receiver is a choice here (isinstance test / non-None chosen_child, whose only writer admits choices)"
        # (ii') the call is made under the negation of the callee's guard: `if p.max_occurrences == 'unbounded': p.duplicate()`
        if isinstance(r.node, ast.Raise) and r.func is callee and isinstance(node, ast.Call) and isinstance(node.func, ast.Attribute):
            g = cfg_of(callee.node)
            rn = self._idx(callee).get(r.node)
            recv = unparse(node.func.value)
            if rn is not None:
                gs = [e_ for _t, e_, _txt, lab in dom.guard_views(g, rn) if lab == 'T']
                cg_ = cfg_of(caller.node)
                cn = self._idx(caller).get(node)
                for e_ in gs:
                    if isinstance(e_, ast.Compare) and isinstance(e_.ops[0], ast.NotEq) and unparse(e_.left).startswith('self.'):
                        want = f"{recv}.{unparse(e_.left)[5:]} == {unparse(e_.comparators[0])}"
                        if cn is not None and any(lab2 == 'T' and txt2 == want for _t2, _e2, txt2, lab2 in dom.guard_views(cg_, cn)):
                            return "the call is guarded by the negation of the callee's rejecting test"
        # (iv) the path walk's conflict test is pre-validated by the leaf selector: every reaching definition of the receiver of
        #      `_update_requirements_in_path()` is drawn from the selector's result (or a fresh duplicate), or membership-tested against it
        if r.func is callee and callee.name == '_update_requirements_in_path' and 'ChoiceHasAnotherChosenChild' in r.exc and isinstance(node, ast.Call) \
                and isinstance(node.func, ast.Attribute) and isinstance(node.func.value, ast.Name):
            if self._selector_validated(caller, node):
                return "the receiver was validated against the committed choices by select_valid_leaves before the walk"
        # (iii') x.replace_child(old, new) with old iterated from x.get_children(): "not in list" cannot fire
        if r.exc == 'ValueError' and r.func is callee and callee.name == 'replace_child' and isinstance(node, ast.Call) and isinstance(node.func, ast.Attribute) and node.args:
            recv = unparse(node.func.value)
            a0 = node.args[0]
            if isinstance(a0, ast.Name):
                for loop in [x for x in ast.walk(caller.node) if isinstance(x, ast.For)]:
                    names = [unparse(t) for t in (loop.target.elts if isinstance(loop.target, ast.Tuple) else [loop.target])]
                    if a0.id in names and f"{recv}.get_children()" in unparse(loop.iter) and any(x is node for x in ast.walk(loop)):
                        return "the replaced child is taken from the receiver's own children"
        # (iii) parent/child premise of Tree.remove
        if r.exc == 'ChildNotFoundError' and isinstance(node, ast.Call) and isinstance(node.func, ast.Attribute) and node.args and r.func is callee:
            from ..props.c19 import _is_parent_of
            if _is_parent_of(caller, node.func.value, node.args[0]):
                return "x.up.remove(x): the argument is a child of the receiver"
        return None

    def _handler_between(self, f, n1, n2):
        """If n2 lies in an except handler of a try whose body contains n1 (and n1 is not in that handler), return the handler."""
        pm = self.ef._parent_map(f)
        a1 = n1.ast if n1.ast is not None else n1.stmt
        a2 = n2.ast if n2.ast is not None else n2.stmt
        cur = a2
        while cur is not None and cur is not f.node:
            par = pm.get(cur)
            if isinstance(par, ast.ExceptHandler):
                t = pm.get(par)
                if isinstance(t, ast.Try) and any(a1 is x for b in t.body for x in ast.walk(b)):
                    return par
            cur = par
        return None

    def _selector_validated(self, caller: FuncInfo, call: ast.Call) -> bool:
        g = cfg_of(caller.node)
        cn = self._idx(caller).get(call)
        if cn is None:
            return False
        var = call.func.value.id
        sel_results = set()          # names bound to select_valid_leaves(...) results, and collections filtered from them
        changed = True
        while changed:
            changed = False
            for d in g.stmt_nodes():
                if d.kind == 'stmt' and isinstance(d.ast, ast.Assign) and isinstance(d.ast.targets[0], ast.Name):
                    name = d.ast.targets[0].id
                    v = d.ast.value
                    ok = False
                    if isinstance(v, ast.Call) and isinstance(v.func, ast.Name) and v.func.id == 'select_valid_leaves':
                        ok = True
                    if isinstance(v, ast.ListComp) and len(v.generators) == 1:
                        it = v.generators[0].iter
                        if isinstance(it, ast.Name) and it.id in sel_results:
                            ok = True
                        if isinstance(it, ast.Call) and isinstance(it.func, ast.Attribute) and it.func.attr == 'iterate_leaves' and \
                                isinstance(it.func.value, ast.Name) and 'duplicat' in it.func.value.id:
                            ok = True        # leaves of a fresh duplicate: no committed choice inside
                    if isinstance(v, ast.Call) and isinstance(v.func, ast.Name) and any(isinstance(x, ast.FunctionDef) and x.name == v.func.id for x in ast.walk(caller.node)):
                        # a local helper: every non-None return is a comprehension over a fresh duplicate's leaves
                        helper = next(x for x in ast.walk(caller.node) if isinstance(x, ast.FunctionDef) and x.name == v.func.id)
                        rets = [r.value for r in ast.walk(helper) if isinstance(r, ast.Return) and r.value is not None and not (isinstance(r.value, ast.Constant) and r.value.value is None)]
                        if rets and all(isinstance(r, ast.ListComp) and 'iterate_leaves()' in unparse(r.generators[0].iter) for r in rets) and v.func.id != 'select_valid_leaves':
                            ok = True
                    if ok and name not in sel_results:
                        sel_results.add(name)
                        changed = True
        for d in dom.reaching_defs(g, var, cn):
            v = d.ast.value if isinstance(d.ast, ast.Assign) else None
            if isinstance(v, ast.Subscript) and isinstance(v.value, ast.Name):
                if v.value.id in sel_results:
                    continue
                # membership test against a selector result that raises, between the definition and the call
                tested = False
                for t, lab in dom.guards_of(g, cn):
                    if t.kind == 'test' and isinstance(t.ast, ast.Compare) and isinstance(t.ast.ops[0], (ast.NotIn, ast.In)) and unparse(t.ast.left) == var \
                            and isinstance(t.ast.comparators[0], ast.Name) and t.ast.comparators[0].id in sel_results:
                        tested = True
                # the test sits on the path from this definition only: check reachability d -> test -> call
                for t in g.stmt_nodes():
                    if t.kind == 'test' and isinstance(t.ast, ast.Compare) and isinstance(t.ast.ops[0], ast.In) and unparse(t.ast.left) == var and \
                            isinstance(t.ast.comparators[0], ast.Name) and t.ast.comparators[0].id in sel_results and dom.branch_raises(g, t, 'F') and \
                            g.path_avoiding(d, cn, avoid=[t]) is None:          # canonical form of `if x not in sel: raise`
                        tested = True
                if tested:
                    continue
            return False
        return True

    def _in_handler(self, f, node) -> bool:
        pm = self.ef._parent_map(f)
        cur = node
        while cur is not None and cur is not f.node:
            cur = pm.get(cur)
            if isinstance(cur, ast.ExceptHandler):
                return True
        return False

    def _handler_reraises(self, f, node, exc) -> bool:
        """The handler that catches `exc` around node raises again (conversion): the failure still leaves f."""
        pm = self.ef._parent_map(f)
        cur = node
        while cur is not None and cur is not f.node:
            par = pm.get(cur)
            if isinstance(par, ast.Try) and cur in par.body:
                for h in par.handlers:
                    names = ['*'] if h.type is None else ([unparse(x) for x in h.type.elts] if isinstance(h.type, ast.Tuple) else [unparse(h.type)])
                    if any(n in ('*', 'Exception', 'BaseException') or exc_is_subclass(self.sm, exc, n) for n in names):
                        return any(isinstance(x, ast.Raise) for x in ast.walk(h))
            cur = par
        return False

    # ------------------------------------------------------------------ solving
    def _local_effects(self, f: FuncInfo):
        """Per CFG node of f: (writes, raises, hazards) contributed at that node."""
        ef = self.ef
        idx = self._idx(f)
        W: Dict[object, Set[Tuple[object, Write]]] = {}
        R: Dict[object, Dict[str, RaiseSite]] = {}
        H: Dict[Tuple[str, str], Tuple[object, Write, RaiseSite]] = {}
        self._callee_hz: Dict[object, Set[Tuple[str, str]]] = {}     # node -> (write key, exception class) of callee hazards at that node
        for w in ef.local_writes.get(f, []):
            if w.root in ('fresh', 'const') or not is_primary(w) or f.qualname in STRUCTURE_FUNCS:
                continue
            n = idx.get(w.node)
            if n is not None:
                W.setdefault(n, set()).add((w.root, w))
        for r in ef.local_raises.get(f, []) + self.implicit.get(f, []):
            if ef.caught(f, r.node, r.exc) or r.exc == 'NotImplementedError':
                continue
            if self._in_handler(f, r.node):
                continue        # a converting re-raise: accounted for by keeping the caught exception alive (below)
            if defensive_guard(r):
                self.defensive.add(rkey(r))
                continue
            n = idx.get(r.node)
            if n is not None:
                R.setdefault(n, {})[rkey(r)] = r
        for e in self.cg.out.get(f, []):
            n = idx.get(e.node)
            if n is None:
                continue
            callee = e.callee
            amap = None
            nested = callee.parent is not None
            for (root, w) in self.writes.get(callee, ()):  # instantiate roots
                if amap is None:
                    amap = ef._arg_roots(e)
                if root in ('class', 'module', 'unknown'):
                    new_roots = {root}
                elif nested and (root == 'self' or (isinstance(root, tuple) and root not in amap)):
                    new_roots = {root}
                else:
                    new_roots = amap.get(root, {'unknown'})
                for nr in new_roots:
                    if nr in ('fresh', 'const') or (isinstance(nr, tuple) and nr[0] == 'of'):
                        continue
                    W.setdefault(n, set()).add((nr, w))
            for k, r in self.raises.get(callee, {}).items():
                if ef.caught(f, e.node, r.exc) and not self._handler_reraises(f, e.node, r.exc):
                    continue
                why = self._dead_at(f, e, r)
                if why:
                    self.dead[(f"{f.qualname}: {short(e.node, 60)}", k)] = why
                    continue
                R.setdefault(n, {})[k] = r
            for hk, (root, w, r) in self.hazards.get(callee, {}).items():
                self._callee_hz.setdefault(n, set()).add((hk[0].rsplit('|', 1)[0], r.exc))
                if ef.caught(f, e.node, r.exc) and not self._handler_reraises(f, e.node, r.exc):
                    continue
                if self._dead_at(f, e, r):
                    continue
                if amap is None:
                    amap = ef._arg_roots(e)
                if root in ('class', 'module', 'unknown'):
                    new_roots = {root}
                elif nested and (root == 'self' or (isinstance(root, tuple) and root not in amap)):
                    new_roots = {root}
                else:
                    new_roots = amap.get(root, {'unknown'})
                for nr in new_roots:
                    if nr in ('fresh', 'const') or (isinstance(nr, tuple) and nr[0] == 'of'):
                        continue
                    H[(hk[0].rsplit('|', 1)[0] + ('|arg' if isinstance(nr, tuple) else '|obj'), hk[1])] = (nr, w, r)
        if f.qualname.split('@')[0] in STRUCTURE_FUNCS:
            # duplication re-wires the matcher tree without changing what it holds (assumption, DESIGN.md R-ATOM)
            W = {}
            H = {}
        return W, R, H

    def _solve(self):
        funcs = self.cg.all_functions()
        for _ in range(25):
            changed = False
            for f in funcs:
                W, R, H = self._local_effects(f)
                # summary writes / raises
                wsum = set()
                for s in W.values():
                    wsum |= s
                rsum = {}
                for d in R.values():
                    rsum.update(d)
                # local pairs
                if W and R:
                    g = cfg_of(f.node)
                    for n1, ws in W.items():
                        after = g.reachable(n1)
                        later = set()
                        for m, lab in g.succ[n1]:
                            later |= g.reachable(m)
                        for n2, rs in R.items():
                            if n2 in later:
                                handler = self._handler_between(f, n1, n2)
                                for (root, w) in ws:
                                    if handler is not None:
                                        # n2 runs only if n1 raised something this handler catches: the write must belong to a
                                        # callee hazard whose exception class the handler catches
                                        names = ['*'] if handler.type is None else ([unparse(x) for x in handler.type.elts] if isinstance(handler.type, ast.Tuple) else [unparse(handler.type)])
                                        ok = any(wk == wkey(w) and any(nm in ('*', 'Exception', 'BaseException') or exc_is_subclass(self.sm, exc, nm) for nm in names)
                                                 for wk, exc in self._callee_hz.get(n1, ()))
                                        if not ok:
                                            continue
                                    for k, r in rs.items():
                                        H.setdefault((wkey(w) + ('|arg' if isinstance(root, tuple) else '|obj'), k), (root, w, r))
                if wsum - self.writes[f]:
                    self.writes[f] |= wsum
                    changed = True
                for k, r in rsum.items():
                    if k not in self.raises[f]:
                        self.raises[f][k] = r
                        changed = True
                for hk, v in H.items():
                    if hk not in self.hazards[f]:
                        self.hazards[f][hk] = v
                        changed = True
            if not changed:
                break

    # ------------------------------------------------------------------ result per entry
    def grouped(self, f: FuncInfo):
        """hazards of f grouped by first write: write key -> (Write, {raise key: RaiseSite}, roots)"""
        out = {}
        for (wk, rk), (root, w, r) in self.hazards.get(f, {}).items():
            d = out.setdefault(wk, (w, {}, set()))
            d[1][rk] = r
            d[2].add(str(root))
        return out
