"""R-ATOM: no observable (primary, non-fresh) write before a reachable raise.
hazards(f) = pairs (write origin, raise site) such that during one execution of f the write may be performed and afterwards
the raise may escape f.  Computed bottom-up over the call graph with root instantiation (writes through objects that are
fresh in the caller are dropped)."""
import ast
from typing import Dict, FrozenSet, List, Optional, Set, Tuple

from ..astutil import unparse, short, walk_local, const_value
from ..cfg import cfg_of
from ..srcmodel import FuncInfo
from ..effects import Effects, Write, RaiseSite, exc_is_subclass
from . import dom

# primary state for atomicity (DESIGN.md R-ATOM): what an observer of the element can see
ATOM_PRIMARY = {
    ('XMLElement', '_unordered_children'), ('XMLElement', '_parent'), ('XMLElement', 'parent_xsd_element'), ('XMLElement', '_attributes'),
    ('XMLElement', '_value'), ('XSDElement', '_xml_elements'), ('XMLChildContainer', '_chosen_child'), ('XMLChildContainer', 'chosen_child'),
    ('XMLChildContainer', '_force_validate'),
}
PRIMARY_FIELDS_NO_OWNER = {'_unordered_children', 'parent_xsd_element', '_xml_elements', '_chosen_child', 'chosen_child', '_force_validate'}


def is_primary(w: Write) -> bool:
    for o in w.owners:
        if (o, w.field) in ATOM_PRIMARY:
            return True
    if not w.owners and w.field in PRIMARY_FIELDS_NO_OWNER:
        return True
    return False


INFRA_CLASSES = {'XMLChildContainer', 'XSDElement', 'XSDSequence', 'XSDChoice', 'XSDGroup', 'XSDTree', 'Tree', 'TestTree', 'XSDAttribute',
                 'DuplicationXSDSequence', 'XMLChildContainerFactory', 'TreeRepresentation', 'XSDTreeElement'}
STRUCTURE_FUNCS = {'XMLChildContainer._add_duplication_parent', 'XMLChildContainer.duplicate'}
SHAPE_MARKERS = ('isinstance(', '.tag !=', '.tag ==', 'hasattr(', "'XMLElement' not in", "'XSDComplexType' not in")


def defensive_guard(r: RaiseSite) -> bool:
    """A raise of TypeError/ValueError inside the matcher / tree infrastructure whose every guard is a *shape test* of an object the
    library itself produced (isinstance, tag comparison).  Assumption (recorded in the evidence): these cannot fire."""
    f = r.func
    owner = f.cls.name if f.cls is not None else None
    infra = owner in INFRA_CLASSES or (owner is None and f.module.name.endswith(('xmlchildcontainer', 'xsdtree', 'xsdindicator', 'xsdelement')))
    if not infra or r.exc not in ('TypeError', 'ValueError', 'AttributeError') or r.implicit:
        return False
    if not isinstance(r.node, ast.Raise):
        return False
    g = cfg_of(f.node)
    node = None
    for n in g.stmt_nodes():
        if n.ast is r.node:
            node = n
    if node is None:
        return False
    guards = [unparse(t.ast) for t, lab in dom.guards_of(g, node) if t.kind == 'test']
    if not guards:
        return False
    return all(any(m in gt for m in SHAPE_MARKERS) for gt in guards[-1:])


def wkey(w: Write) -> str:
    return f"{w.func.qualname}: {short(w.node, 80)}"


def rkey(r: RaiseSite) -> str:
    return f"{r.func.qualname}: {short(r.node, 70)}"


class Atom:
    def __init__(self, ef: Effects):
        self.ef = ef
        self.cg = ef.cg
        self.sm = ef.sm
        self.node_index: Dict[FuncInfo, Dict[ast.AST, object]] = {}
        self.implicit: Dict[FuncInfo, List[RaiseSite]] = {}
        self.dead: Dict[Tuple[str, str], str] = {}     # (call site key, raise key) -> reason it cannot fire there
        self.defensive: Set[str] = set()
        self._prepare()
        # per function: list of (root, Write origin) it may perform; list of RaiseSite that may escape
        self.writes: Dict[FuncInfo, Set[Tuple[object, Write]]] = {f: set() for f in self.sm.functions}
        self.raises: Dict[FuncInfo, Dict[str, RaiseSite]] = {f: {} for f in self.sm.functions}
        self.hazards: Dict[FuncInfo, Dict[Tuple[str, str], Tuple[object, Write, RaiseSite]]] = {f: {} for f in self.sm.functions}
        self._solve()

    # ------------------------------------------------------------------ preparation
    def _idx(self, f: FuncInfo):
        if f not in self.node_index:
            g = cfg_of(f.node)
            idx = {}
            for n in g.stmt_nodes():
                for e in n.exprs():
                    for sub in ast.walk(e):
                        idx.setdefault(sub, n)
                if n.ast is not None:
                    idx.setdefault(n.ast, n)
            self.node_index[f] = idx
        return self.node_index[f]

    def _prepare(self):
        """Catalogued implicit raisers: a subscript indexed by a parameter-derived name; list.remove/index of a parameter-derived
        object (fails when the caller passes something that is not there)."""
        ef = self.ef
        for f in self.sm.functions:
            out = []
            if not (f.module.name.startswith('musicxml')):
                self.implicit[f] = out
                continue
            params = set(f.params)
            for n in walk_local(f.node, include_root=False):
                if isinstance(n, ast.Subscript) and isinstance(n.slice, ast.Name) and n.slice.id in params and not isinstance(n.value, ast.Name) or \
                        (isinstance(n, ast.Subscript) and isinstance(n.slice, ast.Name) and n.slice.id in params):
                    if not any(ef.caught(f, n, x) for x in ('IndexError', 'KeyError')):
                        out.append(RaiseSite(f, n, 'IndexError', implicit=True))
                if isinstance(n, ast.Call) and isinstance(n.func, ast.Attribute) and n.func.attr in ('remove', 'index') and len(n.args) == 1 \
                        and not self.cg.by_node.get(n):
                    roots = ef.expr_roots(f, n.args[0])
                    if any(isinstance(r, tuple) and r[0] == 'param' for r in roots) and not ef.caught(f, n, 'ValueError'):
                        out.append(RaiseSite(f, n, 'ValueError', implicit=True))
            self.implicit[f] = out

    # ------------------------------------------------------------------ dead raise sites at a call
    def _dead_at(self, caller: FuncInfo, edge, r: RaiseSite) -> Optional[str]:
        """A mechanical reason why raise site r (inside edge.callee or deeper) cannot fire for this call."""
        callee = edge.callee
        node = edge.node
        # (i) literal-argument guards of property setters: `x.requirements_fulfilled = False` cannot hit `if not isinstance(val, bool): raise`
        if edge.kind == 'prop-set' and r.func is callee and isinstance(r.node, ast.Raise):
            g = cfg_of(callee.node)
            rn = self._idx(callee).get(r.node)
            pm = self.ef._parent_map(caller)
            st = pm.get(node)
            while st is not None and not isinstance(st, (ast.Assign, ast.AugAssign)):
                st = pm.get(st)
            val = getattr(st, 'value', None)
            if rn is not None:
                for t, lab in dom.guards_of(g, rn):
                    if t.kind != 'test' or lab != 'T':
                        continue
                    txt = unparse(t.ast)
                    p = callee.params[1] if len(callee.params) > 1 else 'val'
                    if txt == f"not isinstance({p}, bool)" and isinstance(val, ast.Constant) and isinstance(val.value, bool):
                        return "literal bool argument passes the setter's type guard"
                    if txt == 'not isinstance(self.content, XSDChoice)':
                        # (ii) single-writer invariant: the receiver is known to be a choice at this call
                        recv = unparse(node.value)
                        cg_ = cfg_of(caller.node)
                        cn = self._idx(caller).get(node)
                        if cn is not None:
                            for t2, lab2 in dom.guards_of(cg_, cn):
                                if t2.kind == 'test' and lab2 == 'T' and (f"isinstance({recv}.content, XSDChoice)" in unparse(t2.ast) or
                                                                          (f"{recv}.chosen_child ==" in unparse(t2.ast))):
                                    return "the receiver is a choice here (isinstance test / non-None chosen_child, whose only writer admits choices)"
        # (ii') the call is made under the negation of the callee's guard: `if p.max_occurrences == 'unbounded': p.duplicate()`
        if isinstance(r.node, ast.Raise) and r.func is callee and isinstance(node, ast.Call) and isinstance(node.func, ast.Attribute):
            g = cfg_of(callee.node)
            rn = self._idx(callee).get(r.node)
            recv = unparse(node.func.value)
            if rn is not None:
                gs = [t for t, lab in dom.guards_of(g, rn) if t.kind == 'test' and lab == 'T']
                cg_ = cfg_of(caller.node)
                cn = self._idx(caller).get(node)
                for t in gs:
                    if isinstance(t.ast, ast.Compare) and isinstance(t.ast.ops[0], ast.NotEq) and unparse(t.ast.left).startswith('self.'):
                        want = f"{recv}.{unparse(t.ast.left)[5:]} == {unparse(t.ast.comparators[0])}"
                        if cn is not None and any(t2.kind == 'test' and lab2 == 'T' and unparse(t2.ast) == want for t2, lab2 in dom.guards_of(cg_, cn)):
                            return "the call is guarded by the negation of the callee's rejecting test"
        # (iii) parent/child premise of Tree.remove
        if r.exc == 'ChildNotFoundError' and isinstance(node, ast.Call) and isinstance(node.func, ast.Attribute) and node.args and r.func is callee:
            from ..props.c19 import _is_parent_of
            if _is_parent_of(caller, node.func.value, node.args[0]):
                return "x.up.remove(x): the argument is a child of the receiver"
        return None

    # ------------------------------------------------------------------ solving
    def _local_effects(self, f: FuncInfo):
        """Per CFG node of f: (writes, raises, hazards) contributed at that node."""
        ef = self.ef
        idx = self._idx(f)
        W: Dict[object, Set[Tuple[object, Write]]] = {}
        R: Dict[object, Dict[str, RaiseSite]] = {}
        H: Dict[Tuple[str, str], Tuple[object, Write, RaiseSite]] = {}
        for w in ef.local_writes.get(f, []):
            if w.root in ('fresh', 'const') or not is_primary(w) or f.qualname in STRUCTURE_FUNCS:
                continue
            n = idx.get(w.node)
            if n is not None:
                W.setdefault(n, set()).add((w.root, w))
        for r in ef.local_raises.get(f, []) + self.implicit.get(f, []):
            if ef.caught(f, r.node, r.exc) or r.exc == 'NotImplementedError':
                continue
            if defensive_guard(r):
                self.defensive.add(rkey(r))
                continue
            n = idx.get(r.node)
            if n is not None:
                R.setdefault(n, {})[rkey(r)] = r
        for e in self.cg.out.get(f, []):
            n = idx.get(e.node)
            if n is None:
                continue
            callee = e.callee
            amap = None
            nested = callee.parent is not None
            for (root, w) in self.writes.get(callee, ()):  # instantiate roots
                if amap is None:
                    amap = ef._arg_roots(e)
                if root in ('class', 'module', 'unknown'):
                    new_roots = {root}
                elif nested and (root == 'self' or (isinstance(root, tuple) and root not in amap)):
                    new_roots = {root}
                else:
                    new_roots = amap.get(root, {'unknown'})
                for nr in new_roots:
                    if nr in ('fresh', 'const') or (isinstance(nr, tuple) and nr[0] == 'of'):
                        continue
                    W.setdefault(n, set()).add((nr, w))
            for k, r in self.raises.get(callee, {}).items():
                if ef.caught(f, e.node, r.exc):
                    continue
                why = self._dead_at(f, e, r)
                if why:
                    self.dead[(f"{f.qualname}: {short(e.node, 60)}", k)] = why
                    continue
                R.setdefault(n, {})[k] = r
            for hk, (root, w, r) in self.hazards.get(callee, {}).items():
                if ef.caught(f, e.node, r.exc):
                    continue
                if self._dead_at(f, e, r):
                    continue
                if amap is None:
                    amap = ef._arg_roots(e)
                if root in ('class', 'module', 'unknown'):
                    new_roots = {root}
                elif nested and (root == 'self' or (isinstance(root, tuple) and root not in amap)):
                    new_roots = {root}
                else:
                    new_roots = amap.get(root, {'unknown'})
                for nr in new_roots:
                    if nr in ('fresh', 'const') or (isinstance(nr, tuple) and nr[0] == 'of'):
                        continue
                    H[hk] = (nr, w, r)
        return W, R, H

    def _solve(self):
        funcs = self.sm.functions
        for _ in range(25):
            changed = False
            for f in funcs:
                W, R, H = self._local_effects(f)
                # summary writes / raises
                wsum = set()
                for s in W.values():
                    wsum |= s
                rsum = {}
                for d in R.values():
                    rsum.update(d)
                # local pairs
                if W and R:
                    g = cfg_of(f.node)
                    for n1, ws in W.items():
                        after = g.reachable(n1)
                        later = set()
                        for m, lab in g.succ[n1]:
                            later |= g.reachable(m)
                        for n2, rs in R.items():
                            if n2 in later:
                                for (root, w) in ws:
                                    for k, r in rs.items():
                                        H.setdefault((wkey(w), k), (root, w, r))
                if wsum - self.writes[f]:
                    self.writes[f] |= wsum
                    changed = True
                for k, r in rsum.items():
                    if k not in self.raises[f]:
                        self.raises[f][k] = r
                        changed = True
                for hk, v in H.items():
                    if hk not in self.hazards[f]:
                        self.hazards[f][hk] = v
                        changed = True
            if not changed:
                break

    # ------------------------------------------------------------------ result per entry
    def grouped(self, f: FuncInfo):
        """hazards of f grouped by first write: write key -> (Write, sorted raise keys, RaiseSites)"""
        out = {}
        for (wk, rk), (root, w, r) in self.hazards.get(f, {}).items():
            d = out.setdefault(wk, (w, {}, set()))
            d[1][rk] = r
            d[2].add(str(root))
        return out
