"""R-EXH.validate-started: decision tables of the required-children checkers.  For every abstract kind of child container
(group / sequence / choice / element leaf) x started or not (force_validate of the sequence that carries it) x minOccurs {0, 1}
the loop body of each checker is evaluated abstractly; the outcome must satisfy the XSD meaning:

  * a started alternative / member (its sequence is force-validated) is validated, optional or not;
  * a required (minOccurs=1) non-leaf member of a *sequence* or *group* that is not started is validated (so that its own required members are
    reported); an alternative of a choice that was not started needs no validation (one alternative suffices);
  * an optional member that is not started may be skipped and never raises;
  * a required leaf of a choice holding one element marks the choice as chosen, holding none does not.
"""
import ast
import itertools

from ..astutil import unparse, short
from ..srcmodel import AnalysisError
from .. import abseval
from . import tables as T


def _loop_over_children(fn, param):
    loops = [n for n in fn.node.body if isinstance(n, ast.For) and unparse(n.iter) == f"{param}.get_children()"]
    loops += [n for st in fn.node.body if isinstance(st, ast.If) for n in st.body if isinstance(n, ast.For) and unparse(n.iter) == f"{param}.get_children()"]
    return loops


def _calls(effects):
    return [abseval.show(v).strip("'") for k, v in effects if k == 'call']


def _evaluate(body, where, assume, order=None, _depth=0):
    """Abstract run of a loop body under truth assumptions.  A test the assumptions do not decide (e.g. the body of an inlined helper
    that distinguishes leaves from containers) forks the run: both outcomes are explored and their effects united - a case is
    'validated' when some way through the code examines it."""
    try:
        return abseval.run_block(body, order=order or {}, assume=assume)
    except abseval.NotUnderstood as e:
        msg = str(e)
        if msg.startswith('undecidable test ') and _depth < 4:
            atom = msg[len('undecidable test '):]
            outs = [_evaluate(body, where, dict(assume, **{atom: v}), order, _depth + 1) for v in (True, False)]
            results = {o[0] for o in outs}
            result = outs[0][0] if len(results) == 1 else ('fall',) if ('fall',) in results else outs[0][0]
            effects = [x for o in outs for x in o[1]]
            return result, effects, outs[0][2]
        raise AnalysisError(f"{where}: requirement checker uses an idiom the abstract evaluator does not understand ({e})")


def _examined(effects):
    """the member is looked at: a checker is called for it or its requirement flag is computed"""
    return bool(_calls(effects)) or any(k.endswith('.requirements_fulfilled') for k, _ in effects if k != 'call')


def check_requirement_tables(ctx):
    sm, res = ctx.sm, ctx.res
    res.rule('R-EXH.validate-started', "decision tables of the required-children checkers: a started member (force-validated sequence, directly or inside a group) is "
             "validated whether optional or not; a required non-leaf member is validated; an optional member that was not started is skipped without error; a required "
             "choice leaf holding exactly one element marks the choice as chosen")
    dispatcher = '_check_if_container_requires_elements'
    # ---------------------------------------------------------------- choice
    ch = sm.func(None, '_check_if_choice_requires_elements', T.M_CONTAINER)
    loops = _loop_over_children(ch, ch.params[0])
    if len(loops) != 1:
        raise AnalysisError(f"{ch.fq}: expected one loop over the choice's children, found {len(loops)}")
    loop = loops[0]
    c = unparse(loop.target)
    cnt = f"len({c}.content.xml_elements)"
    n_cases = 0
    for kind, own, inner, mn in itertools.product(('group', 'sequence', 'choice', 'element'), (False, True), (False, True), (0, 1)):
        if own and kind != 'sequence':
            continue          # only sequence containers ever carry the flag themselves (R-OWN of _force_validate)
        if inner and kind != 'group':
            continue
        assume = {
            f"isinstance({c}.content, XSDGroup)": kind == 'group', f"isinstance({c}.content, XSDElement)": kind == 'element',
            f"isinstance({c}.content, XSDSequence)": kind == 'sequence', f"isinstance({c}.content, XSDChoice)": kind == 'choice',
            f"{c}.get_children()[0].force_validate": inner, f"{c}.force_validate": own, f"{c}.force_validate is True": own,
            f"{c}.min_occurrences == 0": mn == 0, f"int({c}.min_occurrences) == 1": mn == 1, f"{c}.min_occurrences == 1": mn == 1,
            f"int({c}.min_occurrences) == 0": mn == 0,
        }
        counts = ((0, {(cnt, '0'): '=', (cnt, '1'): '<'}), (1, {(cnt, '0'): '>', (cnt, '1'): '='})) if kind == 'element' else ((None, {}),)
        for count, order in counts:
            n_cases += 1
            result, eff, env = _evaluate(loop.body, ch.fq, assume, order)
            calls = _calls(eff)
            started = own or inner
            label = f"{kind}, {'started' if started else 'not started'}, minOccurs={mn}" + (f", holds {count}" if count is not None else '')
            key = f"R-EXH.validate-started|choice|{kind}|{int(started)}|{mn}|{count}"
            if started:
                res.check(dispatcher in calls, 'R-EXH.validate-started', ch.fq, f"[choice child: {label}] is validated",
                          fail_detail=f"outcome: {abseval.show(result)}, calls {calls}", key=key, line=loop.lineno)
            elif mn == 0:
                res.check(result[0] != 'raise', 'R-EXH.validate-started', ch.fq, f"[choice child: {label}] may be skipped and does not raise",
                          fail_detail=f"outcome: {abseval.show(result)}", key=key, line=loop.lineno)
            else:
                res.ok('R-EXH.validate-started', ch.fq, f"[choice child: {label}] leaf counts are tabulated under R-ORD")
    # ---------------------------------------------------------------- group
    gr = sm.func(None, '_check_if_group_requires_elements', T.M_CONTAINER)
    gp = gr.params[0]
    for mn, inner in itertools.product((0, 1), (False, True)):
        n_cases += 1
        assume = {f"{gp}.min_occurrences == 0": mn == 0, f"{gp}.get_children()[0].force_validate": inner,
                  f"not {gp}.get_children()[0].force_validate": not inner, f"{gp}.min_occurrences != 0": mn != 0,
                  f"{gp}.min_occurrences > 0": mn > 0, f"{gp}.min_occurrences == 1": mn == 1}
        result, eff, env = _evaluate(gr.node.body, gr.fq, assume)
        validated = result[0] == 'opaque' and '_check_if_sequence_requires_elements' in result[1] or any('_check_if' in x for x in _calls(eff))
        label = f"minOccurs={mn}, {'started' if inner else 'not started'}"
        key = f"R-EXH.validate-started|group|{mn}|{int(inner)}"
        if inner or mn == 1:
            res.check(validated, 'R-EXH.validate-started', gr.fq, f"[group: {label}] its sequence is validated", fail_detail=f"outcome: {abseval.show(result)}", key=key)
        else:
            res.check(result[0] != 'raise', 'R-EXH.validate-started', gr.fq, f"[group: {label}] may be skipped", fail_detail=abseval.show(result), key=key)
    # ---------------------------------------------------------------- sequence (members of a required sequence)
    sq = sm.func(None, '_check_if_sequence_requires_elements', T.M_CONTAINER)
    sp = sq.params[0]
    # the loop over the members that runs when the sequence itself is required: nested in `if seq.min_occurrences > 0:` or placed after the guard
    # clause `if seq.min_occurrences <= 0: return` - in the CFG both are a loop guarded by an atom about seq.min_occurrences
    from ..cfg import cfg_of as _cfg_of
    from . import dom as _dom
    gsq = _cfg_of(sq.node)
    member_loops = []
    for ln in gsq.stmt_nodes():
        if ln.kind == 'for' and unparse(ln.stmt.iter) == f"{sp}.get_children()":
            if any(t.kind == 'test' and f"{sp}.min_occurrences" in unparse(t.ast) for t, _lab in _dom.guards_of(gsq, ln)):
                member_loops.append(ln.stmt)
    if len(member_loops) != 1:
        raise AnalysisError(f"{sq.fq}: expected one member loop under the minOccurs test, found {len(member_loops)}")
    loop = member_loops[0]
    c = unparse(loop.target)
    for own, mn in itertools.product((False, True), (0, 1)):
        n_cases += 1
        assume = {f"{c}.force_validate is True": own, f"{c}.force_validate": own, f"{c}.min_occurrences == 0": mn == 0, f"{c}.min_occurrences == 1": mn == 1}
        result, eff, env = _evaluate(loop.body, sq.fq, assume)
        calls = _calls(eff)
        label = f"{'started' if own else 'not started'}, minOccurs={mn}"
        key = f"R-EXH.validate-started|sequence|{int(own)}|{mn}"
        if own:
            res.check(dispatcher in calls, 'R-EXH.validate-started', sq.fq, f"[sequence member: {label}] is validated", fail_detail=f"calls {calls}", key=key, line=loop.lineno)
        elif mn == 1:
            res.check(_examined(eff), 'R-EXH.validate-started', sq.fq, f"[sequence member: {label}] is validated", fail_detail=f"outcome {abseval.show(result)}, calls {calls}",
                      key=key, line=loop.lineno)
        else:
            res.check(result[0] != 'raise' and not calls, 'R-EXH.validate-started', sq.fq, f"[sequence member: {label}] is skipped", fail_detail=f"calls {calls}", key=key,
                      line=loop.lineno)
    # the started-sequence loop: every non-leaf member is validated, every leaf compared with its minOccurs (R-ORD)
    started_loops = []
    for ln in gsq.stmt_nodes():
        if ln.kind == 'for' and unparse(ln.stmt.iter) == f"{sp}.get_children()":
            if any(t.kind == 'test' and unparse(t.ast) in (f"{sp}.force_validate", f"{sp}.force_validate is True") and lab == 'T' for t, lab in _dom.guards_of(gsq, ln)):
                started_loops.append(ln.stmt)
    ok = False
    for st in [None]:
        for lp in started_loops:
            c2 = unparse(lp.target)
            r, eff, _ = _evaluate(lp.body, sq.fq, {f"isinstance({c2}.content, XSDElement)": False})
            ok = ok or dispatcher in _calls(eff)
    res.check(ok, 'R-EXH.validate-started', sq.fq, "[started sequence] every non-leaf member is validated", key='R-EXH.validate-started|sequence|started-members')
    res.extra['requirement_table_cases'] = n_cases
    res.floor('R-EXH.validate-started cases', n_cases, 15)
    # the dispatcher itself sends each kind to its checker
    dp = sm.func(None, dispatcher, T.M_CONTAINER)
    want = {'XSDSequence': '_check_if_sequence_requires_elements', 'XSDGroup': '_check_if_group_requires_elements', 'XSDChoice': '_check_if_choice_requires_elements'}
    p = dp.params[0]
    for kind, target in want.items():
        assume = {f"isinstance({p}.content, {k})": (k == kind) for k in want}
        result, eff, env = _evaluate(dp.node.body, dp.fq, assume)
        got = result[1] if result[0] == 'opaque' else ','.join(_calls(eff))
        res.check(target in got, 'R-EXH.validate-started', dp.fq, f"a {kind} container is checked by {target}", fail_detail=f"outcome {abseval.show(result)}",
                  key=f"R-EXH.validate-started|dispatch|{kind}")
