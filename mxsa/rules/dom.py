"""R-DOM helpers: gates, guards and reaching definitions on the statement CFG."""
import ast
from typing import Dict, List, Optional, Set, Tuple

from ..astutil import unparse, short, walk_local
from ..cfg import CFG, Node


def nodes_calling(g: CFG, pred) -> List[Node]:
    """CFG nodes that evaluate a call satisfying pred(call)."""
    out = []
    for n in g.stmt_nodes():
        for e in n.exprs():
            if any(isinstance(c, ast.Call) and pred(c) for c in walk_local(e)):
                out.append(n)
                break
    return out


def nodes_with(g: CFG, pred) -> List[Node]:
    out = []
    for n in g.stmt_nodes():
        for e in n.exprs():
            if any(pred(c) for c in walk_local(e)):
                out.append(n)
                break
    return out


def guards_of(g: CFG, target: Node, edge_ok=None) -> List[Tuple[Node, str]]:
    """(test node, label) pairs such that every entry->target path takes that labelled edge of the test."""
    out = []
    for t in g.stmt_nodes():
        if t.kind not in ('test', 'for'):
            continue
        labels = {lab for _, lab in g.succ[t]}
        if len(labels) < 2:
            continue
        for lab in labels:
            def ok(a, b, l, _t=t, _lab=lab):
                if a is _t and l == _lab:
                    return False
                return edge_ok(a, b, l) if edge_ok else True
            if target not in g.reachable(g.entry, edge_ok=ok) and target in g.reachable(g.entry, edge_ok=edge_ok):
                out.append((t, lab))
    return out


def branch_raises(g: CFG, test: Node, label: str) -> bool:
    """Does the `label` branch of `test` end in a raise on every path (never reaching the normal exit without passing back
    through the test)?"""
    starts = [m for m, lab in g.succ[test] if lab == label]
    if not starts:
        return False
    for s in starts:
        reach = g.reachable(s, avoid=[test])
        if g.exit in reach:
            return False
        if g.raise_exit not in reach:
            return False
    return True


def assignments_to(g: CFG, name: str) -> List[Node]:
    out = []
    for n in g.stmt_nodes():
        if n.kind == 'stmt' and isinstance(n.ast, (ast.Assign, ast.AnnAssign, ast.AugAssign)):
            tg = n.ast.targets if isinstance(n.ast, ast.Assign) else [n.ast.target]
            for t in tg:
                for x in ast.walk(t):
                    if isinstance(x, ast.Name) and x.id == name and isinstance(x.ctx, ast.Store):
                        out.append(n)
        elif n.kind == 'for':
            for x in ast.walk(n.stmt.target):
                if isinstance(x, ast.Name) and x.id == name:
                    out.append(n)
        elif n.kind == 'with':
            for i in n.stmt.items:
                if i.optional_vars is not None:
                    for x in ast.walk(i.optional_vars):
                        if isinstance(x, ast.Name) and x.id == name:
                            out.append(n)
    return out


def reaching_defs(g: CFG, name: str, use: Node) -> List[Node]:
    """Definitions of `name` that reach `use` (without being killed by another definition on the way)."""
    defs = assignments_to(g, name)
    out = []
    for d in defs:
        others = [x for x in defs if x is not d]
        if g.path_avoiding(d, use, avoid=others) is not None and d is not use:
            out.append(d)
    return out


def owner_or_helper(cg, f, owners, depth=0) -> bool:
    """f is one of the owner functions, is nested in one, or is a private helper that is only ever called from owner functions
    (transitively) - an extracted piece of an owner is part of it."""
    root_fn = f.qualname.split('.<locals>')[0].split('@')[0]
    if root_fn in owners:
        return True
    if depth > 3 or not f.name.startswith('_') or f.name.startswith('__'):
        return False
    callers = {e.caller for e in cg.inn.get(f, []) if e.caller is not f}
    if not callers:
        return False
    return all(owner_or_helper(cg, c, owners, depth + 1) for c in callers)


def may_call(cg, f, target_qual, assume, depth=0, _seen=None) -> bool:
    """Can an execution of f under the branch assumptions reach a call of target (following calls into helpers of the same class)?"""
    from ..cfg import cfg_of
    from ..astutil import walk_local
    import ast as _ast
    _seen = _seen or set()
    if f in _seen or depth > 3:
        return False
    _seen.add(f)
    g = cfg_of(f.node)
    ok = g.edge_filter_assuming(assume) if assume else None
    reach = g.reachable(g.entry, edge_ok=ok)
    for n in reach:
        for e in n.exprs():
            for c in walk_local(e):
                for ed in cg.by_node.get(c, []):
                    if ed.caller.node is not f.node:
                        continue
                    q = ed.callee.qualname.split('@')[0]
                    if q == target_qual:
                        return True
                    if ed.callee.cls is not None and f.cls is not None and ed.callee.cls.name == f.cls.name and ed.callee.name.startswith('_') \
                            and isinstance(c, _ast.Call) and isinstance(c.func, _ast.Attribute) and unparse(c.func.value) == 'self':
                        if may_call(cg, ed.callee, target_qual, assume, depth + 1, _seen):
                            return True
    return False
