"""R-DOM helpers: gates, guards and reaching definitions on the statement CFG."""
import ast
from typing import Dict, List, Optional, Set, Tuple

from ..astutil import unparse, short, walk_local
from ..cfg import CFG, Node


def nodes_calling(g: CFG, pred) -> List[Node]:
    """CFG nodes that evaluate a call satisfying pred(call)."""
    out = []
    for n in g.stmt_nodes():
        for e in n.exprs():
            if any(isinstance(c, ast.Call) and pred(c) for c in walk_local(e)):
                out.append(n)
                break
    return out


def nodes_with(g: CFG, pred) -> List[Node]:
    out = []
    for n in g.stmt_nodes():
        for e in n.exprs():
            if any(pred(c) for c in walk_local(e)):
                out.append(n)
                break
    return out


def guards_of(g: CFG, target: Node, edge_ok=None) -> List[Tuple[Node, str]]:
    """(test node, label) pairs such that every entry->target path takes that labelled edge of the test."""
    out = []
    for t in g.stmt_nodes():
        if t.kind not in ('test', 'for'):
            continue
        labels = {lab for _, lab in g.succ[t]}
        if len(labels) < 2:
            continue
        for lab in labels:
            def ok(a, b, l, _t=t, _lab=lab):
                if a is _t and l == _lab:
                    return False
                return edge_ok(a, b, l) if edge_ok else True
            if target not in g.reachable(g.entry, edge_ok=ok) and target in g.reachable(g.entry, edge_ok=edge_ok):
                out.append((t, lab))
    return out


def branch_raises(g: CFG, test: Node, label: str) -> bool:
    """Does the `label` branch of `test` end in a raise on every path (never reaching the normal exit without passing back
    through the test)?"""
    starts = [m for m, lab in g.succ[test] if lab == label]
    if not starts:
        return False
    for s in starts:
        reach = g.reachable(s, avoid=[test])
        if g.exit in reach:
            return False
        if g.raise_exit not in reach:
            return False
    return True


def assignments_to(g: CFG, name: str) -> List[Node]:
    out = []
    for n in g.stmt_nodes():
        if n.kind == 'stmt' and isinstance(n.ast, (ast.Assign, ast.AnnAssign, ast.AugAssign)):
            tg = n.ast.targets if isinstance(n.ast, ast.Assign) else [n.ast.target]
            for t in tg:
                for x in ast.walk(t):
                    if isinstance(x, ast.Name) and x.id == name and isinstance(x.ctx, ast.Store):
                        out.append(n)
        elif n.kind == 'for':
            for x in ast.walk(n.stmt.target):
                if isinstance(x, ast.Name) and x.id == name:
                    out.append(n)
        elif n.kind == 'with':
            for i in n.stmt.items:
                if i.optional_vars is not None:
                    for x in ast.walk(i.optional_vars):
                        if isinstance(x, ast.Name) and x.id == name:
                            out.append(n)
    return out


def reaching_defs(g: CFG, name: str, use: Node) -> List[Node]:
    """Definitions of `name` that reach `use` (without being killed by another definition on the way)."""
    defs = assignments_to(g, name)
    out = []
    for d in defs:
        others = [x for x in defs if x is not d]
        if g.path_avoiding(d, use, avoid=others) is not None and d is not use:
            out.append(d)
    return out


def owner_or_helper(cg, f, owners, depth=0) -> bool:
    """f is one of the owner functions, is nested in one, or is a private helper that is only ever called from owner functions
    (transitively) - an extracted piece of an owner is part of it."""
    root_fn = f.qualname.split('.<locals>')[0].split('@')[0]
    if root_fn in owners:
        return True
    if depth > 3 or not f.name.startswith('_') or f.name.startswith('__'):
        return False
    callers = {e.caller for e in cg.inn.get(f, []) if e.caller is not f}
    if not callers:
        return False
    return all(owner_or_helper(cg, c, owners, depth + 1) for c in callers)


def may_call(cg, f, target_qual, assume, depth=0, _seen=None) -> bool:
    """Can an execution of f under the branch assumptions reach a call of target (following calls into helpers of the same class)?"""
    from ..cfg import cfg_of
    from ..astutil import walk_local
    import ast as _ast
    _seen = _seen or set()
    if f in _seen or depth > 3:
        return False
    _seen.add(f)
    g = cfg_of(f.node)
    ok = g.edge_filter_assuming(assume) if assume else None
    reach = g.reachable(g.entry, edge_ok=ok)
    for n in reach:
        for e in n.exprs():
            for c in walk_local(e):
                for ed in cg.by_node.get(c, []):
                    if ed.caller.node is not f.node:
                        continue
                    q = ed.callee.qualname.split('@')[0]
                    if q == target_qual:
                        return True
                    if ed.callee.cls is not None and f.cls is not None and ed.callee.cls.name == f.cls.name and ed.callee.name.startswith('_') \
                            and isinstance(c, _ast.Call) and isinstance(c.func, _ast.Attribute) and unparse(c.func.value) == 'self':
                        if may_call(cg, ed.callee, target_qual, assume, depth + 1, _seen):
                            return True
    return False


# ---------------------------------------------------------------------------------------------------------------------
def expand(g: CFG, e, at: Node, depth=0):
    """expression with every local name replaced by its only reaching definition (depth-limited): what the expression computes, whatever
    intermediate names the code uses"""
    import copy as _copy
    if depth > 4:
        return e

    class R(ast.NodeTransformer):
        def visit_Name(self, node):
            if isinstance(node.ctx, ast.Load):
                ds = reaching_defs(g, node.id, at)
                if len(ds) == 1 and isinstance(ds[0].ast, ast.Assign) and len(ds[0].ast.targets) == 1 and isinstance(ds[0].ast.targets[0], ast.Name):
                    return expand(g, _copy.deepcopy(ds[0].ast.value), ds[0], depth + 1)
            return node
    return R().visit(_copy.deepcopy(e))


def list_mutation_nodes(g: CFG, holder: str) -> List[Node]:
    """CFG nodes that change the list denoted by the expression text `holder`: editing method calls, item / slice stores and deletions,
    augmented assignment"""
    out = []
    for n in g.stmt_nodes():
        hit = False
        for e in n.exprs():
            for c in walk_local(e):
                if isinstance(c, ast.Call) and isinstance(c.func, ast.Attribute) and c.func.attr in ('remove', 'insert', 'append', 'pop', 'extend', 'clear', 'sort', 'reverse') \
                        and unparse(c.func.value) == holder:
                    hit = True
                if isinstance(c, ast.Subscript) and isinstance(c.ctx, (ast.Store, ast.Del)) and unparse(c.value) == holder:
                    hit = True
        st = n.ast if n.kind == 'stmt' else None
        if isinstance(st, ast.AugAssign) and unparse(st.target) == holder:
            hit = True
        if hit:
            out.append(n)
    return out


def bool_flags(g) -> set:
    """local names that are only ever assigned the constants True / False in this function"""
    import ast as _ast
    from ..astutil import walk_local
    vals = {}
    for n in walk_local(g.fn, include_root=False):
        if isinstance(n, _ast.Assign):
            for t in n.targets:
                for x in _ast.walk(t):
                    if isinstance(x, _ast.Name):
                        ok = isinstance(t, _ast.Name) and isinstance(n.value, _ast.Constant) and isinstance(n.value.value, bool)
                        vals.setdefault(x.id, []).append(ok)
        elif isinstance(n, (_ast.AugAssign, _ast.AnnAssign, _ast.For, _ast.comprehension, _ast.NamedExpr)):
            tgt = n.target
            for x in _ast.walk(tgt):
                if isinstance(x, _ast.Name):
                    ok = isinstance(n, _ast.AnnAssign) and isinstance(tgt, _ast.Name) and isinstance(getattr(n, 'value', None), _ast.Constant) and isinstance(n.value.value, bool)
                    vals.setdefault(x.id, []).append(ok)
        elif isinstance(n, _ast.arg):
            vals.setdefault(n.arg, []).append(False)
    params = {a.arg for a in g.fn.args.args + g.fn.args.kwonlyargs + g.fn.args.posonlyargs}
    return {k for k, v in vals.items() if all(v) and k not in params}


def marked_reach(g: CFG, mark_edges, reset_nodes, target: Node) -> Optional[List[Node]]:
    """Is `target` reachable from the entry in a state where a marked edge (test node, label) was taken since the last visit of a
    reset node?  The search runs in the product of the CFG with the values of the function's boolean flag variables (constant
    propagation along the path: `flag = True/False` assignments, `if flag` / `if not flag` tests prune the infeasible branch), so a
    flag-guarded statement after the loop is reached only with the flag values the path really produces.  -> a witness path or None"""
    import ast as _ast
    flags = sorted(bool_flags(g))
    idx = {f: i for i, f in enumerate(flags)}
    mark = {(t, lab) for t, lab in mark_edges}
    resets = set(reset_nodes)
    start = (g.entry, tuple([None] * len(flags)), False)
    prev = {start: None}
    queue = [start]
    while queue:
        st = queue.pop(0)
        node, fv, seen = st
        if node is target and seen:
            path = []
            cur = st
            while cur is not None:
                path.append(cur[0])
                cur = prev[cur]
            return list(reversed(path))
        fv2 = list(fv)
        if node.kind == 'stmt' and isinstance(node.ast, _ast.Assign) and len(node.ast.targets) == 1 and isinstance(node.ast.targets[0], _ast.Name) \
                and node.ast.targets[0].id in idx and isinstance(node.ast.value, _ast.Constant):
            fv2[idx[node.ast.targets[0].id]] = bool(node.ast.value.value)
        seen2 = False if node in resets else seen
        for m, lab in g.succ[node]:
            if node.kind == 'test' and lab in ('T', 'F'):
                v = None
                if isinstance(node.ast, _ast.Name) and node.ast.id in idx:
                    v = fv2[idx[node.ast.id]]
                elif isinstance(node.ast, _ast.Compare) and len(node.ast.ops) == 1 and isinstance(node.ast.left, _ast.Name) and node.ast.left.id in idx \
                        and isinstance(node.ast.comparators[0], _ast.Constant) and isinstance(node.ast.comparators[0].value, bool) \
                        and isinstance(node.ast.ops[0], (_ast.Is, _ast.Eq, _ast.IsNot, _ast.NotEq)):
                    cur_v = fv2[idx[node.ast.left.id]]
                    if cur_v is not None:
                        v = (cur_v == node.ast.comparators[0].value)
                        if isinstance(node.ast.ops[0], (_ast.IsNot, _ast.NotEq)):
                            v = not v
                if v is not None and v != (lab == 'T'):
                    continue
            s3 = seen2 or ((node, lab) in mark)
            nxt = (m, tuple(fv2), s3)
            if nxt not in prev:
                prev[nxt] = st
                queue.append(nxt)
    return None


# ---------------------------------------------------------------------------------------------------------------------
_INV = {ast.Eq: ast.NotEq, ast.NotEq: ast.Eq, ast.Gt: ast.LtE, ast.LtE: ast.Gt, ast.GtE: ast.Lt, ast.Lt: ast.GtE, ast.Is: ast.IsNot, ast.IsNot: ast.Is,
        ast.In: ast.NotIn, ast.NotIn: ast.In}


def test_node_of(g: CFG, expr):
    """The CFG test node that evaluates the source expression `expr` (an atom of a condition), and the label of the edge taken when
    `expr` as written is true.  -> (node, label) or (None, None)"""
    for n in g.stmt_nodes():
        if n.kind != 'test':
            continue
        if n.ast is expr:
            return n, 'T'
        if getattr(n.ast, '_orig', None) is expr:
            return n, 'F'
        # `not X` written in the source: the node holds X
        if isinstance(expr, ast.UnaryOp) and isinstance(expr.op, ast.Not):
            m, lab = test_node_of(g, expr.operand)
            if m is not None:
                return m, ('F' if lab == 'T' else 'T')
    return None, None


def views(t: Node, lab: str):
    """Both polarities of an atomic guard: CFG tests are canonical (positive operators, no leading `not`), a rule may think of the guard
    the way the source wrote it.  (x in y, 'F') is also (x not in y, 'T'); (c, 'F') is also (not c, 'T')."""
    out = [(t.ast, lab)]
    if t.kind != 'test' or lab not in ('T', 'F'):
        return out
    other = 'F' if lab == 'T' else 'T'
    e = t.ast
    if isinstance(e, ast.Compare) and len(e.ops) == 1 and type(e.ops[0]) in _INV:
        new = ast.Compare(left=e.left, ops=[_INV[type(e.ops[0])]()], comparators=e.comparators)
        out.append((ast.copy_location(new, e), other))
    else:
        out.append((ast.copy_location(ast.UnaryOp(op=ast.Not(), operand=e), e), other))
    return out


def guard_views(g: CFG, target: Node, edge_ok=None):
    """[(test node, expression, text, label)] for every guard of target in both polarities"""
    out = []
    for t, lab in guards_of(g, target, edge_ok=edge_ok):
        if t.kind != 'test':
            continue
        for e, l in views(t, lab):
            out.append((t, e, unparse(e), l))
    return out
