"""R-ORD: ordering tables.  Where an occurrence count and an occurrence bound are touched only through comparisons, the
three orderings {<, =, >} are the whole input space; the branch outcome per ordering is tabulated by abstract evaluation and
compared with the XSD meaning of minOccurs / maxOccurs."""
import ast

from ..astutil import unparse, short
from ..srcmodel import AnalysisError
from .. import abseval
from . import tables as T


def _count_texts(node):
    """Texts of `len(<x>.xml_elements)` expressions below node."""
    out = []
    for n in ast.walk(node):
        if isinstance(n, ast.Call) and isinstance(n.func, ast.Name) and n.func.id == 'len' and n.args and \
                isinstance(n.args[0], ast.Attribute) and n.args[0].attr in ('xml_elements', '_xml_elements'):
            t = unparse(n)
            if t not in out:
                out.append(t)
    return out


def _run(stmts, where, order=None, assume=None):
    try:
        return abseval.run_block(stmts, order=order, assume=assume)
    except abseval.NotUnderstood as e:
        raise AnalysisError(f"{where}: occurrence logic uses an idiom the abstract evaluator does not understand ({e})")


def check_occurrence_tables(ctx):
    sm, res = ctx.sm, ctx.res
    res.rule('R-ORD', "comparisons between an occurrence count and minOccurs/maxOccurs have the XSD's three-cell table: count < min -> still "
             "required; count = max -> full; count > max -> full or error; count < max -> not full")
    # ---------------------------------------------------------------- max_is_reached
    f = sm.func('XMLChildContainer', 'max_is_reached', T.M_CONTAINER)
    counts = _count_texts(f.node)
    if len(counts) != 1:
        raise AnalysisError(f"{f.fq}: expected one occurrence count expression, found {counts}")
    c = counts[0]
    bound = 'self.max_occurrences'
    base = {'isinstance(self.content, XSDElement)': True, "not isinstance(self.content, XSDElement)": False}
    r, _, _ = _run(f.node.body, f.fq, order={}, assume=dict(base, **{"self.max_occurrences == 'unbounded'": True, "self.max_occurrences != 'unbounded'": False}))
    res.check(r == ('const', False), 'R-ORD', f.fq, "maxOccurs='unbounded' -> never full", fail_detail=f"computes {abseval.show(r)}",
              key='R-ORD|max_is_reached|unbounded')
    exp = {'<': [('const', False)], '=': [('const', True)], '>': [('const', True), 'raise']}
    for rel in ('<', '=', '>'):
        r, _, _ = _run(f.node.body, f.fq, order={(c, bound): rel},
                       assume=dict(base, **{"self.max_occurrences == 'unbounded'": False, "self.max_occurrences != 'unbounded'": True}))
        ok = r in exp[rel] or (r[0] == 'raise' and 'raise' in exp[rel])
        res.check(ok, 'R-ORD', f.fq, f"count {rel} maxOccurs -> {'not full' if rel == '<' else 'full' + (' (or error)' if rel == '>' else '')}",
                  fail_detail=f"computes {abseval.show(r)}", key=f"R-ORD|max_is_reached|{rel}")
    # ---------------------------------------------------------------- sequence: count vs minOccurs
    sq = sm.func(None, '_check_if_sequence_requires_elements', T.M_CONTAINER)
    vc = sq.nested.get('validate_child')
    n_sites = 0
    sites = []
    for owner in [sq] + ([vc] if vc else []):
        for n in ast.walk(owner.node):
            if isinstance(n, ast.If) and isinstance(n.test, ast.Compare) and _count_texts(n.test) and \
                    any(isinstance(x, ast.Attribute) and x.attr == 'min_occurrences' for x in ast.walk(n.test)):
                # only direct sites (nested function bodies belong to the nested owner)
                if owner is sq and vc is not None and any(n is x for x in ast.walk(vc.node)):
                    continue
                sites.append((owner, n))
            # canonical form of `if count < min: flag = False else: flag = True` is `flag = not count < min` (mxsa/normalise.py)
            if isinstance(n, ast.Assign) and len(n.targets) == 1 and isinstance(n.targets[0], ast.Attribute) and n.targets[0].attr.endswith('requirements_fulfilled'):
                cmps = [x for x in ast.walk(n.value) if isinstance(x, ast.Compare) and _count_texts(x) and
                        any(isinstance(y, ast.Attribute) and y.attr == 'min_occurrences' for y in ast.walk(x))]
                if cmps:
                    if owner is sq and vc is not None and any(n is x for x in ast.walk(vc.node)):
                        continue
                    sites.append((owner, n))
    for owner, ifn in sites:
        n_sites += 1
        probe = ifn.test if isinstance(ifn, ast.If) else ifn.value
        cnt = _count_texts(probe)[0]
        bnd = [unparse(x) for x in ast.walk(probe) if isinstance(x, ast.Attribute) and x.attr == 'min_occurrences'][0]
        outcomes = {}
        for rel in ('<', '=', '>'):
            r, eff, _ = _run([ifn], owner.fq, order={(cnt, bnd): rel})
            flags = [abseval.show(v) for t, v in eff if t.endswith('.requirements_fulfilled')]
            outcomes[rel] = flags
        res.check(outcomes['<'] == ['False'], 'R-ORD', owner.fq, f"`{short(probe)}`: count < minOccurs -> requirement not fulfilled",
                  fail_detail=f"sets {outcomes['<']}", key=f"R-ORD|{owner.qualname}|min|<", line=ifn.lineno)
        for rel in ('=', '>'):
            res.check('False' not in outcomes[rel], 'R-ORD', owner.fq, f"`{short(probe)}`: count {rel} minOccurs -> not reported as missing",
                      fail_detail=f"sets {outcomes[rel]}", key=f"R-ORD|{owner.qualname}|min|{rel}", line=ifn.lineno)
        if owner is vc:
            for rel in ('=', '>'):
                res.check(outcomes[rel] == ['True'], 'R-ORD', owner.fq, f"`{short(probe)}`: count {rel} minOccurs -> requirement fulfilled",
                          fail_detail=f"sets {outcomes[rel]}", key=f"R-ORD|{owner.qualname}|min-true|{rel}", line=ifn.lineno)
    res.floor('R-ORD count-vs-min sites', n_sites, 2)
    # ---------------------------------------------------------------- choice: count dispatch 0 / 1
    ch = sm.func(None, '_check_if_choice_requires_elements', T.M_CONTAINER)
    def _is_count_test(t):
        if isinstance(t, ast.Compare) and _count_texts(t) and isinstance(t.comparators[0], ast.Constant):
            return True
        # `if not <x>.xml_elements` / `if <x>.xml_elements`: the count compared with 0
        while isinstance(t, ast.UnaryOp) and isinstance(t.op, ast.Not):
            t = t.operand
        return isinstance(t, ast.Attribute) and t.attr in ('xml_elements', '_xml_elements')
    disp = [n for n in ast.walk(ch.node) if isinstance(n, ast.If) and _is_count_test(n.test)]
    heads = [n for n in disp if not any(n in ast.walk(o) and n is not o and n in getattr(o, 'orelse', []) for o in disp)]
    if not heads:
        raise AnalysisError(f"{ch.fq}: the count dispatch of a required choice leaf vanished (idiom not understood)")
    # the dispatch may be one if/elif chain or several consecutive ifs of one statement list: take the run of statements from the first to the last of them
    block = None
    for holder in ast.walk(ch.node):
        for field in ('body', 'orelse'):
            lst = getattr(holder, field, None)
            if isinstance(lst, list) and heads[0] in lst:
                idx = [i for i, st in enumerate(lst) if st in heads]
                block = lst[idx[0]:idx[-1] + 1]
    if block is None:
        raise AnalysisError(f"{ch.fq}: the count dispatch of a required choice leaf is not in a statement list (idiom not understood)")
    head = block[0]
    cts = [c_ for st_ in block for c_ in _count_texts(st_)]
    if not cts:
        t_ = head.test
        while isinstance(t_, ast.UnaryOp):
            t_ = t_.operand
        cts = [f"len({unparse(t_)})"]
    cnt = cts[0]
    # the flag variable: the local name assigned True somewhere in the dispatch
    flag = None
    for st_ in block:
        for n in ast.walk(st_):
            if isinstance(n, ast.Assign) and isinstance(n.targets[0], ast.Name) and isinstance(n.value, ast.Constant) and n.value.value is True:
                flag = n.targets[0].id
    if flag is None:
        raise AnalysisError(f"{ch.fq}: the count dispatch sets no flag (idiom not understood)")
    for count, order, want in ((0, {(cnt, '0'): '=', (cnt, '1'): '<'}, None), (1, {(cnt, '0'): '>', (cnt, '1'): '='}, True)):
        r, eff, env = _run(block, ch.fq, order=order)
        chosen = env.get(flag)
        got = None if chosen is None else (chosen[1] if chosen[0] == 'const' else chosen)
        res.check(got == want and r == ('fall',), 'R-ORD', ch.fq,
                  f"required choice leaf holding {count} element(s) -> {'chosen' if want else 'not chosen'}",
                  fail_detail=f"element_chosen={got}, {abseval.show(r)}", key=f"R-ORD|choice-count|{count}", line=head.lineno)
    # the flag is what sets the choice fulfilled
    tail = [n for n in ch.node.body if isinstance(n, ast.If) and unparse(n.test) == flag]
    ok = bool(tail) and any(isinstance(s, ast.Assign) and unparse(s.targets[0]).endswith('.requirements_fulfilled') and unparse(s.value) == 'True' for s in tail[0].body)
    res.check(ok, 'R-ORD', ch.fq, "a chosen element marks the choice as fulfilled", key='R-ORD|choice-count|fulfilled')
