"""Classification of object state (owner family, field): primary (observable through the API) vs derived (caches,
recomputed flags) vs lazy per-schema caches.  One line of reason per entry; the classification is an *assumption*
recorded in the evidence, it can only make a rule miss, never alarm."""

PRIMARY = {
    ('XMLElement', '_unordered_children'): "insertion-ordered children",
    ('XMLElement', '_parent'): "parent back-pointer",
    ('XMLElement', 'parent_xsd_element'): "leaf back-pointer",
    ('XMLElement', '_attributes'): "attribute dictionary",
    ('XMLElement', '_value'): "value",
    ('XMLElement', '_xsd_check'): "check flag",
    ('XMLElement', '_child_container_tree'): "root of the element's matcher tree",
    ('XMLElement', '_kwargs'): "constructor keywords (used by copies)",
    ('XSDElement', '_xml_elements'): "elements attached to a leaf",
    ('XSDElement', 'parent_container'): "leaf -> container link",
    ('XMLChildContainer', '_chosen_child'): "choice commitment",
    ('XMLChildContainer', 'chosen_child'): "choice commitment (setter)",
    ('XMLChildContainer', '_force_validate'): "started optional sequence",
    ('XMLChildContainer', '_children'): "matcher tree structure",
    ('XMLChildContainer', '_parent'): "matcher tree structure",
    ('XMLChildContainer', '_content'): "matcher node content",
    ('XMLChildContainer', 'min_occurrences'): "occurrence bound",
    ('XMLChildContainer', 'max_occurrences'): "occurrence bound",
    ('XMLChildContainer', '_parent_xml_element'): "matcher -> element link",
    ('Tree', '_children'): "tree structure (Tree base of containers)",
    ('Tree', '_parent'): "tree structure (Tree base of containers / elements)",
    ('Tree', '_content'): "node content",
}
DERIVED = {
    ('Tree', '_traversed'): "iterator cache, reset by _reset_iterators at the start of every add_element / structure change",
    ('Tree', '_iterated_leaves'): "iterator cache, same",
    ('Tree', '_reversed_path_to_root'): "iterator cache, same",
    ('Tree', '_is_leaf'): "recomputed from children on add",
    ('XMLElement', '_et_xml_element'): "rebuilt on every use of et_xml_element",
    ('XMLChildContainer', '_requirements_fulfilled'): "recomputed by every final check (treated as derived)",
    ('XMLChildContainer', 'requirements_fulfilled'): "recomputed by every final check (setter)",
    ('XMLChildContainer', '_required_element_names'): "unused cache",
}
PRIMARY_FIELD_NAMES = {f for _, f in PRIMARY}
DERIVED_FIELD_NAMES = {f for _, f in DERIVED}
SCHEMA_FAMILIES = {'XSDTree', 'XSDAttribute', 'XSDAttributeGroup', 'XSDSimpleType', 'XSDComplexType', 'XSDSequence', 'XSDChoice', 'XSDGroup',
                   'XSDTreeElement', 'XMLChildContainerFactory'}


def classify(owners, field) -> str:
    """-> 'primary' | 'derived' | 'schema' | 'other'"""
    owners = set(owners or ())
    if owners and owners <= SCHEMA_FAMILIES:
        return 'schema'
    for o in owners or ():
        if (o, field) in PRIMARY:
            return 'primary'
    for o in owners or ():
        if (o, field) in DERIVED:
            return 'derived'
    if not owners:
        if field in PRIMARY_FIELD_NAMES and field not in ('_attributes', '_parent', '_children', '_content') :
            return 'primary'
        if field in DERIVED_FIELD_NAMES:
            return 'derived'
    if field in DERIVED_FIELD_NAMES:
        return 'derived'
    if owners & SCHEMA_FAMILIES:
        return 'schema'
    return 'other'
