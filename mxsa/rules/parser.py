"""R-LADDER and the parser's consumption / no-swallowing rules."""
import ast
from typing import Dict, List, Optional, Tuple

from ..astutil import unparse, short, walk_local, const_value, dotted
from ..srcmodel import AnalysisError, SourceModel
from . import tables as T


def class_lookup_exprs(fn: ast.FunctionDef, node_p: str) -> set:
    """texts that denote the element class of the node inside the converter: the lookup from the tag itself, and every local name bound exactly
    once, at the top level of the function, to that lookup"""
    lookup = f"eval(convert_to_xml_class_name({node_p}.tag))"
    out = {lookup}
    stores = {}
    for n in ast.walk(fn):
        if isinstance(n, ast.Name) and isinstance(n.ctx, (ast.Store, ast.Del)):
            stores[n.id] = stores.get(n.id, 0) + 1
    seen_compound = False
    for st in fn.body:
        if isinstance(st, ast.Assign) and len(st.targets) == 1 and isinstance(st.targets[0], ast.Name) and unparse(st.value) == lookup and stores.get(st.targets[0].id) == 1 \
                and not seen_compound:
            out.add(st.targets[0].id)
        if isinstance(st, (ast.Try, ast.For, ast.While, ast.With)):
            seen_compound = True
    return out


class Rung:
    def __init__(self, conv, stmt, caught):
        self.conv = conv          # 'id' | 'int' | 'float' | other text
        self.stmt = stmt
        self.caught = caught      # exception names caught by the handler that leads to the next rung ([] for the last rung)

    def __repr__(self):
        return f"{self.conv}->{self.caught}"


def _handler_names(h: ast.ExceptHandler) -> List[str]:
    if h.type is None:
        return ['*']
    if isinstance(h.type, ast.Tuple):
        return [unparse(x) for x in h.type.elts]
    return [unparse(h.type)]


def _conv_of(arg, var: str) -> str:
    if isinstance(arg, ast.Name) and arg.id == var:
        return 'id'
    if isinstance(arg, ast.Call) and isinstance(arg.func, ast.Name) and len(arg.args) == 1 and isinstance(arg.args[0], ast.Name) and arg.args[0].id == var:
        return arg.func.id
    return unparse(arg)


def _raises_uncaught(conv: str, nxt) -> bool:
    """hoisting `conv(text)` in front of the try `nxt` changes nothing when nxt's own handlers would not have caught what conv raises (ValueError)"""
    if not isinstance(nxt, ast.Try):
        return True
    return not any(caught(_handler_names(h), 'ValueError') for h in nxt.handlers)


def extract_ladder(try_node: ast.Try, payload, var: str) -> List[Rung]:
    """payload(stmt) -> the value expression handed to the gate by that statement, or None."""
    rungs = []
    cur = try_node
    prepared: Dict[str, ast.AST] = {}          # locals bound in a handler to a conversion of the text, used by the next attempt

    def resolve(v):
        return prepared.get(v.id, v) if isinstance(v, ast.Name) else v
    while True:
        if not isinstance(cur, ast.Try) or len(cur.body) != 1 or len(cur.handlers) != 1 or cur.orelse or cur.finalbody:
            raise AnalysisError("the parser's conversion ladder is not a chain of single-statement try/except blocks (idiom not understood)")
        val = payload(cur.body[0])
        if val is None:
            raise AnalysisError(f"conversion ladder: `{short(cur.body[0])}` is not a gate call")
        h = cur.handlers[0]
        rungs.append(Rung(_conv_of(resolve(val), var), cur.body[0], _handler_names(h)))
        hb = list(h.body)
        # a conversion prepared in front of the next attempt (`float(text)` / `number = float(text)`): where it raises it leaves the handler like the same
        # conversion inside the next attempt would when that attempt's handler does not catch its exception class - checked by the caller through the rung's
        # own conversion text, which after normalisation carries the conversion itself
        while len(hb) > 1 and isinstance(hb[0], (ast.Expr, ast.Assign)) and isinstance(hb[0].value, ast.Call) and isinstance(hb[0].value.func, ast.Name) and \
                hb[0].value.func.id in ('float', 'int', 'str') and len(hb[0].value.args) == 1 and isinstance(hb[0].value.args[0], ast.Name) and \
                _raises_uncaught(hb[0].value.func.id, hb[1]):
            if isinstance(hb[0], ast.Assign) and len(hb[0].targets) == 1 and isinstance(hb[0].targets[0], ast.Name):
                prepared[hb[0].targets[0].id] = hb[0].value
            hb = hb[1:]
        if len(hb) != 1:
            raise AnalysisError("conversion ladder: a handler with more than one statement")
        nxt = hb[0]
        if isinstance(nxt, ast.Try):
            cur = nxt
            continue
        val = payload(nxt)
        if val is None:
            # not a retry: swallowing handler
            rungs.append(Rung('<no retry: ' + short(nxt, 40) + '>', nxt, []))
        else:
            rungs.append(Rung(_conv_of(resolve(val), var), nxt, []))
        return rungs


# ------------------------------------------------------------------------------------------------ gate families
_NUM_LIT = __import__('re').compile(r'[+-]?(\d+(\.\d*)?|\.\d+)')


def class_family(sm: SourceModel, cname: str, schema=None) -> Optional[dict]:
    c = sm.get_class(cname, T.M_SIMPLE)
    if c is None:
        return None
    ub = c.lookup_binding('_UNION')
    union = [unparse(e) for e in ub[1].elts] if ub and isinstance(ub[1], ast.List) and ub[1].elts else []
    fb = c.lookup_binding('_FORCED_PERMITTED')
    forced = [const_value(e) for e in fb[1].elts] if fb and isinstance(fb[1], ast.List) else []
    tb = c.lookup_binding('_TYPES')
    types = [unparse(e) for e in tb[1].elts] if tb and isinstance(tb[1], ast.List) else []
    if union:
        members = [class_family(sm, m, schema) for m in union]
        return {'kind': 'UNION', 'members': members, 'forced': forced, 'types': sorted({t for m in members if m for t in m['types']})}
    kind = {('int',): 'INT', ('float', 'int'): 'DEC', ('str',): 'STR'}.get(tuple(types))
    if kind is None:
        return {'kind': 'UNKNOWN', 'types': types, 'forced': forced}
    fam = {'kind': kind, 'types': types, 'forced': forced}
    if kind == 'STR' and schema is not None:
        # does the string gate accept a string that looks like a number?  enumerations: only if such a literal is listed
        st = None
        for n, t in list(schema.simple_types.items()) + list(schema.builtin_simple_types.items()):
            if T.xsd_class_name(n) == cname:
                st = t
        if st is not None and st.enumerations:
            fam['numeric_strings'] = 'accept' if any(_NUM_LIT.fullmatch(e or '') for e in st.enumerations) else 'ValueError'
    return fam


def gate(fam: dict, pykind: str, cat: str) -> str:
    """Outcome of handing a Python value of kind pykind (str/int/float) and lexical category cat to the gate of family fam.
    'accept' | 'TypeError' | 'ValueError'.  The value is one the writer emitted from an accepted value, so facets hold
    whenever the Python type is the family's."""
    if fam is None:
        return 'accept'
    if fam['kind'] == 'NOCONTENT':
        return 'accept'
    if pykind == 'str' and cat == 'forced' and fam.get('forced'):
        return 'accept'
    if fam['kind'] == 'UNION':
        if pykind not in fam['types']:
            return 'TypeError'
        outcomes = [gate(m, pykind, cat) for m in fam['members']]
        if 'accept' in outcomes:
            return 'accept'
        return 'ValueError'
    if pykind not in fam['types']:
        return 'TypeError'
    if fam['kind'] == 'STR':
        # a string that only *looks* numeric is still a string for a string-typed gate; for a union member an
        # enumeration/pattern decides: numeric literals are not enumeration members of the schema's string members
        return 'accept' if cat in ('enum', 'empty', 'forced', 'any') else fam.get('numeric_strings', 'accept')
    return 'accept'


def convert(conv: str, cat: str):
    """-> (pykind, cat) or the name of the exception the conversion raises."""
    if conv == 'id':
        return ('str', cat)
    if conv == 'float':
        return ('float', cat) if cat in ('intlit', 'declit') else 'ValueError'
    if conv == 'int':
        return ('int', cat) if cat == 'intlit' else 'ValueError'
    return 'NotUnderstood'


def caught(names: List[str], exc: str) -> bool:
    import builtins
    for n in names:
        if n == '*' or n == exc or n in ('Exception', 'BaseException'):
            return True
        a, b = getattr(builtins, exc, None), getattr(builtins, n, None)
        if isinstance(a, type) and isinstance(b, type) and issubclass(a, b):
            return True
    return False


def simulate(ladder: List[Rung], fam: dict, cat: str) -> Tuple[str, str]:
    """-> ('accept', pykind) | ('escape', 'ExcName at rung i') | ('exhausted', '')"""
    for i, r in enumerate(ladder):
        cv = convert(r.conv, cat)
        if cv == 'NotUnderstood':
            return 'escape', f"rung {i} is `{r.conv}`"
        if isinstance(cv, str):
            exc = cv
        else:
            out = gate(fam, cv[0], cv[1])
            if out == 'accept':
                return 'accept', cv[0]
            exc = out
        if i == len(ladder) - 1 or not caught(r.caught, exc):
            return 'escape', f"{exc} raised at rung {i} ({r.conv}) is not caught there (handler: {r.caught or 'none'})"
    return 'exhausted', ''
