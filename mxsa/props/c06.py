"""C06 - no child is ever lost, duplicated or orphaned: R-OWN (writers of the two child records and the two back-pointers)
and R-PAIR (a) (paired updates on the same object on every normal path of add_child / remove / replace_child)."""
import ast
from typing import Optional
import copy

from ..astutil import unparse, short, walk_local
from ..cfg import cfg_of
from ..srcmodel import AnalysisError
from ..rules import tables as T
from ..rules import dom
from ..engine import get_cg, get_effects
from . import c01

CHECKED = {'self.xsd_check': True, 'self._xsd_check': True}
UNCHECKED = {'self.xsd_check': False, 'self._xsd_check': False}

OWNERS = {
    '_unordered_children': {'XMLElement.__init__', 'XMLElement.add_child', 'XMLElement.remove', 'XMLElement.replace_child'},
    '_xml_elements': {'XSDElement.__init__', 'XSDElement.add_xml_element', 'XMLElement.remove', 'XMLElement.replace_child'},
    'parent_xsd_element': {'XSDElement.add_xml_element', 'XMLElement.remove', 'XMLElement.replace_child'},
    '_parent@XMLElement': {'XMLElement.add_child', 'XMLElement.remove', 'XMLElement.replace_child', 'Tree.__init__'},
    '_child_container_tree': {'XMLElement.__init__', 'XMLElement._create_child_container_tree', 'XMLChildContainer.add_element'},
}


def run(ctx):
    sm, res = ctx.sm, ctx.res
    cg = get_cg(ctx)
    ef = get_effects(ctx)
    res.assume("conservation of children inside the matcher's own restructuring (_check_choices_intelligently rebuilds a container from filtered lists) is run-time "
               "behaviour and is not decided; the R-ATOM hazards KF-01/KF-02 (C10) are violations of this property as well")
    ownership(ctx, ef)
    pairing_add(ctx)
    pairing_remove(ctx)
    pairing_replace(ctx, ef)
    rehoming_swaps_everything(ctx)
    rehoming_conserves_elements(ctx)
    from ..rules import memo, shared
    memo.check(ctx, cg, ef, res, shared.api_entries(sm))


def ownership(ctx, ef):
    sm, res = ctx.sm, ctx.res
    res.rule('R-OWN.children', "the insertion list, the leaf lists and the two back-pointers of an element are written only by the owner functions "
             "(__init__, add_child, remove, replace_child, add_xml_element)")
    seen = {k: set() for k in OWNERS}
    for f in ef.cg.all_functions():
        if getattr(f, 'ctx_family', None):
            continue
        for w in ef.local_writes.get(f, []):
            fld = w.field
            key = None
            if fld in ('_unordered_children',):
                key = '_unordered_children'
            elif fld in ('_xml_elements', 'xml_elements'):
                key = '_xml_elements'
            elif fld == 'parent_xsd_element':
                key = 'parent_xsd_element'
            elif fld == '_child_container_tree':
                key = '_child_container_tree'
            elif fld == '_parent' and ('XMLElement' in w.owners or (not w.owners and f.module.name == T.M_XMLELEMENT)):
                if f.cls is not None and f.cls.name == 'Tree':
                    continue          # generic Tree bookkeeping: XMLElement overrides add_child/remove/replace_child and never calls it on elements
                key = '_parent@XMLElement'
            if key is None:
                continue
            root_fn = f.qualname.split('.<locals>')[0]          # a helper nested in an owner function is part of it
            seen[key].add(root_fn)
            res.check(dom.owner_or_helper(ef.cg, f, OWNERS[key]), 'R-OWN.children', f.fq, f"`{short(w.node, 70)}`: writer of {key} is an owner function",
                      fail_detail=f"owners: {sorted(OWNERS[key])}", key=f"R-OWN.children|{key}|{f.qualname}", line=getattr(w.node, 'lineno', None))
    for k, s in seen.items():
        res.floor(f"R-OWN.children writers of {k}", len(s), 3)
    # XMLElement must keep overriding the Tree mutators (otherwise Tree's generic versions would edit _children/_parent of elements)
    xe = sm.get_class('XMLElement', T.M_XMLELEMENT)
    for m in ('add_child', 'remove', 'replace_child', 'get_children'):
        res.check(m in xe.methods, 'R-OWN.children', f"{xe.module.relpath}::XMLElement", f"XMLElement overrides Tree.{m}", key=f"R-OWN.children|override|{m}")


def _must(g, node_list, edge_ok):
    """Every entry->exit path (under edge_ok) passes one of node_list."""
    return bool(node_list) and g.path_avoiding(g.entry, g.exit, avoid=node_list, edge_ok=edge_ok) is None


def _mustfx(ctx, mode):
    from ..rules.mustfx import MustFx
    cg = get_cg(ctx)
    return ctx.lazy(f"mustfx-{mode}", lambda: MustFx(cg, CHECKED if mode == 'checked' else UNCHECKED))


def pairing_add(ctx):
    sm, res = ctx.sm, ctx.res
    res.rule('R-PAIR.add', "every normal path of add_child performs, on the same child object: leaf attach (checked mode), insertion-list append, parent := self "
             "- directly or through a helper that performs it on every one of its paths")
    f = sm.func('XMLElement', 'add_child', T.M_XMLELEMENT)
    child = ('param', 1)
    for mode in ('checked', 'unchecked'):
        mx = _mustfx(ctx, mode)
        assume = CHECKED if mode == 'checked' else UNCHECKED
        if mode == 'checked':
            res.check(mx.performed_on_every_path(f, lambda l: l[0] == 'call' and l[1] == 'XMLChildContainer.add_element' and l[3][:1] == (child,), assume), 'R-PAIR.add', f.fq,
                      "checked: the child is handed to the matcher on every path", key='R-PAIR.add|attach')
            res.check(mx.performed_on_every_path(f, lambda l: l[0] == 'call' and l[1] == 'XMLChildContainer.add_element' and l[3] == (child, ('param', 2)), assume), 'R-PAIR.add', f.fq,
                      "the matcher receives (child, forward) unchanged", key='R-PAIR.add|args')
        res.check(mx.performed_on_every_path(f, lambda l: l == ('write', 'self', '_unordered_children', 'append', child), assume), 'R-PAIR.add', f.fq,
                  f"{mode}: the child is appended to the insertion list on every normal path", key=f"R-PAIR.add|append|{mode}")
        res.check(mx.performed_on_every_path(f, lambda l: l == ('write', child, '_parent', 'store', 'self'), assume), 'R-PAIR.add', f.fq,
                  f"{mode}: the child's parent is set to self on every normal path", key=f"R-PAIR.add|parent|{mode}")
    # exactly once: no second append on any path (duplication)
    g = cfg_of(f.node)
    mx = _mustfx(ctx, 'checked')
    app_nodes = mx.nodes_with(f, lambda l: l[0] == 'write' and l[1] == 'self' and l[2] == '_unordered_children' and l[3] in ('append', 'insert', 'extend'))
    twice = any(g.path_avoiding(a1, a2) is not None for a1 in app_nodes for a2 in app_nodes if a1 is not a2) or any(
        m is a1 for a1 in app_nodes for m in g.reachable(a1) - {a1} if False)
    loops = any(a1 in (g.reachable(m) if m is not a1 else set()) for a1 in app_nodes for m, _ in g.succ[a1])
    res.check(not twice and not loops, 'R-PAIR.add', f.fq, "the child is appended at most once on any path (no duplication)", key='R-PAIR.add|once')
    rets = [n for n in g.stmt_nodes() if n.kind == 'return']
    res.check(all(unparse(r.ast.value) == f.params[1] for r in rets), 'R-PAIR.add', f.fq, "the added child is returned", key='R-PAIR.add|return')


def _detach_before_clear(ctx, mx, f, child, assume, depth=0) -> bool:
    """On every path the leaf detach (through the back-pointer) precedes the clearing of that back-pointer; when one helper call
    provides both, the order is checked inside the helper."""
    cg = get_cg(ctx)
    g = cfg_of(f.node)
    ok_edges = g.edge_filter_assuming(assume)
    leaf_pred = lambda l: l[0] == 'write' and l[1] == child and l[2] in ('parent_xsd_element.xml_elements', 'parent_xsd_element._xml_elements') and l[3] == 'remove' and l[4] == child
    back_pred = lambda l: l == ('write', child, 'parent_xsd_element', 'store', 'none')
    leaf = mx.nodes_with(f, leaf_pred)
    back = mx.nodes_with(f, back_pred)
    for b in back:
        if b in leaf:
            # both effects come from this node: a helper call - descend
            if depth > 2:
                return False
            descended = False
            for e in b.exprs():
                for c in walk_local(e):
                    for ed in cg.by_node.get(c, []):
                        if ed.caller.node is not f.node or not isinstance(c, ast.Call):
                            continue
                        callee = ed.callee
                        off = 1 if (callee.cls is not None and not callee.is_staticmethod and isinstance(c.func, ast.Attribute)) else 0
                        sub_child = None
                        for i, a in enumerate(c.args):
                            if isinstance(a, ast.Name) and a.id in f.params and ('param', f.params.index(a.id)) == child:
                                sub_child = ('param', i + off)
                        if sub_child is not None and any(leaf_pred(mx._instantiate(l, {sub_child: child})) for l in mx.must.get(callee, ())):
                            descended = True
                            if not _detach_before_clear(ctx, mx, callee, sub_child, assume, depth + 1):
                                return False
            if not descended:
                return False
            continue
        if g.path_avoiding(g.entry, b, avoid=leaf, edge_ok=ok_edges) is not None:
            return False
    return True


def pairing_remove(ctx):
    sm, res = ctx.sm, ctx.res
    res.rule('R-PAIR.remove', "every normal path of remove performs, on the same child object: insertion-list removal, leaf detach and leaf back-pointer := None "
             "(checked mode), parent := None - directly or through a helper that performs it on every one of its paths")
    f = sm.func('XMLElement', 'remove', T.M_XMLELEMENT)
    child = ('param', 1)
    for mode in ('checked', 'unchecked'):
        mx = _mustfx(ctx, mode)
        assume = CHECKED if mode == 'checked' else UNCHECKED
        res.check(mx.performed_on_every_path(f, lambda l: l == ('write', 'self', '_unordered_children', 'remove', child), assume), 'R-PAIR.remove', f.fq,
                  f"{mode}: the child leaves the insertion list on every normal path", key=f"R-PAIR.remove|list|{mode}")
        res.check(mx.performed_on_every_path(f, lambda l: l == ('write', child, '_parent', 'store', 'none'), assume), 'R-PAIR.remove', f.fq,
                  f"{mode}: the child's parent is cleared on every normal path", key=f"R-PAIR.remove|parent|{mode}")
    mx = _mustfx(ctx, 'checked')
    leaf_pred = lambda l: l[0] == 'write' and l[1] == child and l[2] in ('parent_xsd_element.xml_elements', 'parent_xsd_element._xml_elements') and l[3] == 'remove' and l[4] == child
    back_pred = lambda l: l == ('write', child, 'parent_xsd_element', 'store', 'none')
    res.check(mx.performed_on_every_path(f, leaf_pred, CHECKED), 'R-PAIR.remove', f.fq, "checked: the child is detached from its own leaf (found through its back-pointer)",
              key='R-PAIR.remove|leaf')
    res.check(mx.performed_on_every_path(f, back_pred, CHECKED), 'R-PAIR.remove', f.fq, "checked: the child's leaf back-pointer is cleared", key='R-PAIR.remove|back-pointer')
    g = cfg_of(f.node)
    on = g.edge_filter_assuming(CHECKED)
    leaf = mx.nodes_with(f, leaf_pred)
    back = mx.nodes_with(f, back_pred)
    if leaf and back:
        res.check(_detach_before_clear(ctx, mx, f, child, CHECKED), 'R-PAIR.remove', f.fq,
                  "the leaf is detached before the back-pointer that leads to it is cleared", key='R-PAIR.remove|order')
    prune_rules(ctx, f)


def _nonempty_marks(hg):
    """(test node, label) edges that mean `a leaf of the branch holds attached children`"""
    marks = []
    for t in hg.stmt_nodes():
        if t.kind != 'test':
            continue
        conj = t.ast.values if isinstance(t.ast, ast.BoolOp) and isinstance(t.ast.op, ast.And) else [t.ast]
        for cnd in conj:
            txt = unparse(cnd)
            if not any(k in txt for k in ('.xml_elements', '._xml_elements')):
                continue
            if isinstance(cnd, ast.Attribute) or (isinstance(cnd, ast.Compare) and isinstance(cnd.ops[0], (ast.Gt, ast.NotEq, ast.GtE)) and txt.startswith('len(')):
                marks.append((t, 'T'))
            elif isinstance(cnd, ast.Compare) and isinstance(cnd.ops[0], (ast.Eq, ast.Lt, ast.LtE)) and len(conj) == 1:
                marks.append((t, 'F'))
            elif isinstance(cnd, ast.Compare) and isinstance(cnd.ops[0], ast.NotEq) and txt.endswith('!= []'):
                marks.append((t, 'T'))
    return marks


def _pruned_only_when_empty(hg, prune_node, call):
    """No path on which a leaf of the branch was found non-empty reaches the prune (per branch: the mark is reset at the loop that
    binds the pruned node).  Accepts the `any(...)` / `all(...)` forms as a direct guard."""
    arg = call.args[0] if call.args else None
    guards = [(t, lab) for t, lab in dom.guards_of(hg, prune_node) if t.kind == 'test']
    for t, lab in guards:
        for x in ast.walk(t.ast):
            if isinstance(x, ast.Call) and isinstance(x.func, ast.Name) and x.func.id in ('any', 'all') and x.args and isinstance(x.args[0], (ast.GeneratorExp, ast.ListComp)) \
                    and 'xml_elements' in unparse(x.args[0]) and 'iterate_leaves()' in unparse(x.args[0]):
                gen = x.args[0]
                elt_nonempty = 'xml_elements' in unparse(gen.elt) and not (isinstance(gen.elt, ast.UnaryOp) and isinstance(gen.elt.op, ast.Not))
                if x.func.id == 'any' and elt_nonempty and lab == 'F' and not gen.generators[0].ifs:
                    return True, ''
                if x.func.id == 'all' and isinstance(gen.elt, ast.UnaryOp) and isinstance(gen.elt.op, ast.Not) and lab == 'T' and not gen.generators[0].ifs:
                    return True, ''
    marks = _nonempty_marks(hg)
    if not marks:
        return False, "no test of a leaf's attached children (`<leaf>.content.xml_elements`) is found in the function that prunes"
    resets = [n for n in hg.stmt_nodes() if n.kind == 'for' and isinstance(arg, ast.Name) and isinstance(n.stmt.target, ast.Name) and n.stmt.target.id == arg.id]
    path = dom.marked_reach(hg, marks, resets, prune_node)
    if path is None:
        return True, ''
    return False, 'a leaf is found non-empty and the branch is pruned all the same: ' + ' -> '.join(n.text() for n in path[-7:])


def prune_rules(ctx, f):
    """Pruning of duplicated branches in remove(): only below a duplication wrapper, only while another occurrence remains, only after
    the branch's leaves were examined."""
    sm, res = ctx.sm, ctx.res
    cg = get_cg(ctx)
    res.rule('R-PAIR.remove', "every normal path of remove performs, on the same child object: insertion-list removal, leaf detach and leaf back-pointer := None "
             "(checked mode), parent := None; duplicated branches are pruned only while another occurrence remains")
    n_prunes = 0
    for helper in [f] + list(f.nested.values()):
        hg = cfg_of(helper.node)
        for p in hg.stmt_nodes():
            calls = [x for e in p.exprs() for x in walk_local(e) if isinstance(x, ast.Call) and isinstance(x.func, ast.Attribute) and x.func.attr == 'remove'
                     and any(ed.resolved and ed.callee.cls is not None and ed.callee.cls.name == 'Tree' for ed in cg.by_node.get(x, []))]
            for c in calls:
                n_prunes += 1
                recv = unparse(c.func.value)
                if isinstance(c.func.value, ast.Name):
                    ds = [unparse(d.ast.value) for d in dom.assignments_to(hg, c.func.value.id) if isinstance(d.ast, ast.Assign)]
                    if len(ds) == 1:
                        recv = ds[0]
                guards = [(unparse(t.ast), lab) for t, lab in dom.guards_of(hg, p) if t.kind == 'test']
                keeps_one = any((f"len({recv}.get_children()) > 1" in txt or f"len({recv}.get_children()) >= 2" in txt) and lab == 'T' for txt, lab in guards)
                res.check(keeps_one, 'R-PAIR.remove', helper.fq, "a duplicated branch is pruned only while another occurrence remains (the last one keeps the particle's requirements alive)",
                          fail_detail=f"guards of `{short(c)}`: {guards}", key='R-PAIR.remove|keep-last-occurrence', line=p.line)
                only_dup = any('DuplicationXSDSequence' in txt and lab == 'T' for txt, lab in guards)
                res.check(only_dup, 'R-PAIR.remove', helper.fq, "only occurrences below a duplication wrapper are pruned", key='R-PAIR.remove|only-duplicates', line=p.line)
                ok_empty, why_empty = _pruned_only_when_empty(hg, p, c)
                res.check(ok_empty, 'R-PAIR.remove', helper.fq, "a branch is pruned only when none of its leaves holds an attached child (no path on which a leaf was "
                          "found non-empty reaches the prune, flag variables evaluated along the path)", fail_detail=why_empty, key='R-PAIR.remove|empty-only', line=p.line)
    res.floor('R-PAIR.remove prune sites', n_prunes, 1)


def pairing_replace(ctx, ef):
    sm, res = ctx.sm, ctx.res
    res.rule('R-PAIR.replace', "every normal path of replace_child swaps the new child into the old child's position in the insertion list and (checked mode) into its "
             "slot of the same leaf, by identity of the removed child; the new child's back-pointers are set and the *removed* child's parent is cleared")
    f = sm.func('XMLElement', 'replace_child', T.M_XMLELEMENT)
    g = cfg_of(f.node)
    new = f.params[2]
    on, off = g.edge_filter_assuming(CHECKED), g.edge_filter_assuming(UNCHECKED)
    rem = dom.nodes_calling(g, lambda c: unparse(c.func) == 'self._unordered_children.remove' and len(c.args) == 1)
    ins = dom.nodes_calling(g, lambda c: unparse(c.func) == 'self._unordered_children.insert' and len(c.args) == 2 and unparse(c.args[1]) == new)
    # the same swap written as an item assignment: self._unordered_children[i] = new
    setitems = [n for n in g.stmt_nodes() if n.kind == 'stmt' and isinstance(n.ast, ast.Assign) and len(n.ast.targets) == 1 and isinstance(n.ast.targets[0], ast.Subscript)
                and unparse(n.ast.targets[0].value) == 'self._unordered_children' and unparse(n.ast.value) == new and not isinstance(n.ast.targets[0].slice, ast.Slice)]
    others = [n for n in dom.list_mutation_nodes(g, 'self._unordered_children') if n not in rem + ins + setitems]
    form_a = len(rem) == 1 and len(ins) == 1 and not setitems
    form_b = len(setitems) == 1 and not rem and not ins
    if not res.check((form_a or form_b) and not others, 'R-PAIR.replace', f.fq, "one removal of the old and one insertion of the new child in the insertion list "
                     "(or one item assignment at the old child's index), and no other edit of that list", fail_detail='; '.join(n.text() for n in others[:3]),
                     key='R-PAIR.replace|list-ops'):
        return
    if form_a:
        rc = [x for e in rem[0].exprs() for x in walk_local(e) if isinstance(x, ast.Call) and unparse(x.func) == 'self._unordered_children.remove'][0]
        old_var = unparse(rc.args[0])
        ic = [x for e in ins[0].exprs() for x in walk_local(e) if isinstance(x, ast.Call) and unparse(x.func) == 'self._unordered_children.insert'][0]
        idx_var = unparse(ic.args[0])
    else:
        idx_var = unparse(setitems[0].ast.targets[0].slice)
        # the removed child is the one read from that index before the store
        cand = [d.ast.targets[0].id for d in g.stmt_nodes() if d.kind == 'stmt' and isinstance(d.ast, ast.Assign) and isinstance(d.ast.targets[0], ast.Name)
                and unparse(d.ast.value) == f"self._unordered_children[{idx_var}]" and g.dominates(d, setitems[0])]
        if not cand:
            # or the index is looked up from the removed child: `i = self._unordered_children.index(old_child)`
            for d in dom.assignments_to(g, idx_var):
                v = d.ast.value if isinstance(d.ast, ast.Assign) else None
                if isinstance(v, ast.Call) and unparse(v.func) == 'self._unordered_children.index' and len(v.args) == 1 and isinstance(v.args[0], ast.Name) \
                        and g.dominates(d, setitems[0]):
                    cand.append(v.args[0].id)
        if not res.check(len(cand) == 1, 'R-PAIR.replace', f.fq, "the child at that index is read (the removed child) before the item assignment, or the index is that of the "
                         "removed child", key='R-PAIR.replace|list-ops'):
            return
        old_var = cand[0]
        rem = ins = setitems
    # old_var = self._unordered_children[idx_var]; idx_var = self._unordered_children.index(<selected old>)
    defs_old = [unparse(d.ast.value) for d in dom.assignments_to(g, old_var) if isinstance(d.ast, ast.Assign)]
    defs_idx = [unparse(d.ast.value) for d in dom.assignments_to(g, idx_var) if isinstance(d.ast, ast.Assign)]
    by_read = defs_old == [f"self._unordered_children[{idx_var}]"] and len(defs_idx) == 1 and defs_idx[0].startswith('self._unordered_children.index(')
    by_lookup = defs_idx == [f"self._unordered_children.index({old_var})"] and len(defs_old) == 1
    res.check(by_read or by_lookup, 'R-PAIR.replace', f.fq,
              "the new child is inserted at the index the removed child had", fail_detail=f"{old_var} = {defs_old}; {idx_var} = {defs_idx}", key='R-PAIR.replace|same-position')
    for mode, ok in (('checked', on), ('unchecked', off)):
        res.check(_must(g, rem, ok) and _must(g, ins, ok), 'R-PAIR.replace', f.fq, f"{mode}: the insertion list is updated on every normal path", key=f"R-PAIR.replace|list|{mode}")
    # leaf swap by identity
    swaps = [w for w in ef.local_writes[f] if w.field in ('_xml_elements', 'xml_elements')]
    ok_swap = False
    detail = 'no leaf write'
    for w in swaps:
        st = w.node
        detail = short(st, 100)
        if isinstance(st, ast.Assign) and isinstance(st.value, ast.ListComp) and len(st.value.generators) == 1:
            gen = st.value.generators[0]
            el = unparse(gen.target)
            elt = st.value.elt
            src_ok = unparse(gen.iter) in (unparse(st.targets[0]).replace('._xml_elements', '.xml_elements'), unparse(st.targets[0]))
            if isinstance(elt, ast.IfExp) and unparse(elt.body) == new and unparse(elt.orelse) == el and unparse(elt.test) in (f"{el} == {old_var}", f"{el} is {old_var}") \
                    and not gen.ifs and src_ok:
                ok_swap = True
        if isinstance(st, ast.Assign) and isinstance(st.targets[0], ast.Subscript) and f".index({old_var})" in unparse(st.targets[0].slice) and unparse(st.value) == new:
            ok_swap = True
    res.check(ok_swap, 'R-PAIR.replace', f.fq, f"checked: the leaf slot is found by the identity of the removed child `{old_var}` (not by a caller-supplied position), "
              "every other element of the leaf is kept", fail_detail=detail, key='R-PAIR.replace|leaf-by-identity')
    leaf_nodes = []
    pm = ef._parent_map(f)
    for w in swaps:
        st = w.node
        while st is not None and st not in g.node_of_stmt:
            st = pm.get(st)
        if st is not None:
            leaf_nodes.append(g.node_of_stmt[st])
    res.check(_must(g, leaf_nodes, on), 'R-PAIR.replace', f.fq, "checked: the leaf is updated on every normal path", key='R-PAIR.replace|leaf-every-path')
    # the leaf is the removed child's leaf: the object whose list is written is `old.parent_xsd_element`, named directly or through a local
    want = f"{old_var}.parent_xsd_element"
    holder_txt = None
    for w in swaps:
        if isinstance(w.node, ast.Assign):
            t = w.node.targets[0]
            while isinstance(t, ast.Subscript):
                t = t.value
            if isinstance(t, ast.Attribute) and t.attr in ('_xml_elements', 'xml_elements'):
                holder_txt = unparse(t.value)

    def denotes_leaf(txt):
        if txt == want:
            return True
        if txt and txt.isidentifier():
            hd_ = [unparse(d.ast.value) for d in dom.assignments_to(g, txt) if isinstance(d.ast, ast.Assign)]
            return hd_ == [want]
        return False
    res.check(denotes_leaf(holder_txt), 'R-PAIR.replace', f.fq, "the leaf written is the removed child's own leaf", fail_detail=f"the list of `{holder_txt}` is written",
              key='R-PAIR.replace|same-leaf')
    bp = [n for n in g.stmt_nodes() if n.kind == 'stmt' and isinstance(n.ast, ast.Assign) and unparse(n.ast.targets[0]) == f"{new}.parent_xsd_element" and
          denotes_leaf(unparse(n.ast.value))]
    res.check(_must(g, bp, on), 'R-PAIR.replace', f.fq, "checked: the new child's leaf back-pointer is set to that leaf", key='R-PAIR.replace|new-back-pointer')
    np = [n for n in g.stmt_nodes() if n.kind == 'stmt' and isinstance(n.ast, ast.Assign) and unparse(n.ast.targets[0]) == f"{new}._parent" and unparse(n.ast.value) == 'self']
    op = [n for n in g.stmt_nodes() if n.kind == 'stmt' and isinstance(n.ast, ast.Assign) and unparse(n.ast.targets[0]).endswith('._parent') and unparse(n.ast.value) == 'None']
    for mode, ok in (('checked', on), ('unchecked', off)):
        res.check(_must(g, np, ok), 'R-PAIR.replace', f.fq, f"{mode}: the new child's parent is set to self", key=f"R-PAIR.replace|new-parent|{mode}")
        good = [n for n in op if unparse(n.ast.targets[0]) == f"{old_var}._parent"]
        res.check(_must(g, good, ok), 'R-PAIR.replace', f.fq, f"{mode}: the parent of the child that was actually removed (`{old_var}`) is cleared",
                  fail_detail='; '.join(short(n.ast) for n in op) or 'no `<x>._parent = None`', key=f"R-PAIR.replace|old-parent|{mode}")
    rets = [n for n in g.stmt_nodes() if n.kind == 'return']
    res.check(all(unparse(r.ast.value) == new for r in rets), 'R-PAIR.replace', f.fq, "the new child is returned", key='R-PAIR.replace|return')


def rehoming_swaps_everything(ctx):
    sm, res = ctx.sm, ctx.res
    res.rule('R-PAIR.rehome', "after children were re-attached to a trial copy (their leaf back-pointers now point into the copy), every sub-tree of the copy replaces "
             "the corresponding sub-tree of the element's container, unconditionally")
    n = 0
    for name in ('add_element', 'check_required_elements'):
        f = sm.func('XMLChildContainer', name, T.M_CONTAINER)
        for loop in [x for x in ast.walk(f.node) if isinstance(x, ast.For)]:
            it = unparse(loop.iter)
            if not (it.startswith('zip(self.get_children(), ') and it.endswith('.get_children())')):
                continue
            n += 1
            body = loop.body
            names = [unparse(t) for t in loop.target.elts] if isinstance(loop.target, ast.Tuple) else []
            ok = len(body) == 1 and isinstance(body[0], ast.Expr) and isinstance(body[0].value, ast.Call) and unparse(body[0].value.func) == 'self.replace_child' and \
                [unparse(a) for a in body[0].value.args] == names
            res.check(ok, 'R-PAIR.rehome', f.fq, "`for old, new in zip(self.get_children(), copy.get_children()): self.replace_child(old, new)` swaps every sub-tree",
                      fail_detail=short(body, 120), key=f"R-PAIR.rehome|{name}", line=loop.lineno)
    res.floor('R-PAIR.rehome swap loops', n, 2)


# ---------------------------------------------------------------------------------------------- conservation in the re-homing trials
def _expand(g, e, at, depth=0):
    """expression with every local name replaced by its only reaching definition (depth-limited)"""
    if depth > 4:
        return e

    class R(ast.NodeTransformer):
        def visit_Name(self, node):
            if isinstance(node.ctx, ast.Load):
                ds = dom.reaching_defs(g, node.id, at)
                if len(ds) == 1 and isinstance(ds[0].ast, ast.Assign) and len(ds[0].ast.targets) == 1 and isinstance(ds[0].ast.targets[0], ast.Name):
                    return _expand(g, copy.deepcopy(ds[0].ast.value), ds[0], depth + 1)
            return node
    return R().visit(copy.deepcopy(e))


def _is_elems(g, e, at, depth=0) -> bool:
    """does the expression denote a collection of attached XML elements?"""
    if depth > 5:
        return False
    if isinstance(e, ast.Call) and isinstance(e.func, ast.Attribute) and e.func.attr == 'get_attached_elements':
        return True
    if isinstance(e, ast.Attribute) and e.attr in ('xml_elements', '_xml_elements'):
        return True
    if isinstance(e, (ast.ListComp, ast.GeneratorExp)) and len(e.generators) >= 1:
        tv = unparse(e.generators[-1].target)
        return unparse(e.elt) == tv and _is_elems(g, e.generators[-1].iter, at, depth + 1)
    if isinstance(e, ast.BinOp) and isinstance(e.op, ast.Add):
        return _is_elems(g, e.left, at, depth + 1) or _is_elems(g, e.right, at, depth + 1)
    if isinstance(e, ast.Call) and isinstance(e.func, ast.Name) and e.func.id in ('list', 'sorted', 'reversed', 'tuple') and e.args:
        return _is_elems(g, e.args[0], at, depth + 1)
    if isinstance(e, ast.Subscript) and isinstance(e.slice, ast.Slice):
        return _is_elems(g, e.value, at, depth + 1)
    if isinstance(e, ast.Name):
        ds = dom.reaching_defs(g, e.id, at) if at is not None else dom.assignments_to(g, e.id)
        vals = [d.ast.value for d in ds if isinstance(d.ast, ast.Assign)]
        return bool(vals) and any(_is_elems(g, v, d, depth + 1) for v, d in zip(vals, ds))
    return False


def _lossy_in_function(fn) -> Optional[str]:
    """a dict / set built from a collection of attached elements (distinct elements with equal keys / equal values merge)"""
    hg = cfg_of(fn)
    for n in hg.stmt_nodes():
        for e in n.exprs():
            for x in walk_local(e):
                if isinstance(x, (ast.DictComp, ast.SetComp)) and any(_is_elems(hg, gen.iter, n) for gen in x.generators):
                    return short(x, 70)
                if isinstance(x, ast.Call) and isinstance(x.func, ast.Name) and x.func.id in ('set', 'dict', 'frozenset') and x.args and _is_elems(hg, x.args[0], n):
                    return short(x, 70)
                if isinstance(x, ast.Call) and isinstance(x.func, ast.Attribute) and x.func.attr == 'fromkeys' and x.args and _is_elems(hg, x.args[0], n):
                    return short(x, 70)
    return None


def rehoming_conserves_elements(ctx):
    """The trial copies of _check_choices_intelligently receive every attached element: (R1) the collections handed to a copy derive from
    get_attached_elements() through name filters and list moves only; (R2) when a copy is created inside a loop over a collection and
    receives the loop's element, the other elements of that collection are handed to the same copy before it is returned."""
    sm, res = ctx.sm, ctx.res
    cg = get_cg(ctx)
    res.rule('R-CONS.rehome', "every element attached to the container is handed to the trial copy that replaces it: collections are derived from get_attached_elements() "
             "by name filters and list moves only (nothing keyed or de-duplicated), and a copy created per element of a collection also receives the rest of that collection")
    f = sm.func('XMLChildContainer', '_check_choices_intelligently', T.M_CONTAINER)
    g = cfg_of(f.node)
    creations = [n for n in g.stmt_nodes() if n.kind == 'stmt' and isinstance(n.ast, ast.Assign) and isinstance(n.ast.value, ast.Call) and
                 any(e.callee.name == '_create_empty_copy' for e in cg.by_node.get(n.ast.value, [])) and isinstance(n.ast.targets[0], ast.Name)]
    if not creations:
        raise AnalysisError("_check_choices_intelligently: no trial copy (`x = self._create_empty_copy()`) found")
    pm = {}
    for node in ast.walk(f.node):
        for c in ast.iter_child_nodes(node):
            pm[c] = node
    n_obl = 0
    for cr in creations:
        x = cr.ast.targets[0].id
        returns = [n for n in g.stmt_nodes() if n.kind == 'return' and isinstance(n.ast.value, ast.Name) and n.ast.value.id == x and g.path_avoiding(cr, n) is not None]
        # attaches to this copy
        attaches = []       # (cfg node, argument expression, enclosing For statement or None)
        for n in g.stmt_nodes():
            for e in n.exprs():
                for c in walk_local(e):
                    if isinstance(c, ast.Call) and isinstance(c.func, ast.Attribute) and c.func.attr == 'add_element' and unparse(c.func.value) == x and c.args:
                        loop = None
                        cur = pm.get(c)
                        while cur is not None and cur is not f.node:
                            if isinstance(cur, ast.For) and isinstance(cur.target, ast.Name) and isinstance(c.args[0], ast.Name) and cur.target.id == c.args[0].id:
                                if not any(x is cr.ast for x in ast.walk(cur)):
                                    loop = cur          # a loop that runs after the copy exists hands its whole collection to that copy
                                break                   # (a loop that encloses the creation makes one copy per element: rule R2)
                            cur = pm.get(cur)
                        attaches.append((n, c.args[0], loop))
        # R1: provenance of every collection / element handed over
        for n, arg, loop in attaches:
            src = loop.iter if loop is not None else arg
            at = g.node_of_stmt.get(loop) if loop is not None else n
            ex = _expand(g, src, at)
            # the function itself and the local helpers the collection comes from
            lossy = _lossy_in_function(f.node)
            for c in ast.walk(ex):
                if isinstance(c, ast.Call) and isinstance(c.func, ast.Name) and c.func.id in f.nested:
                    lossy = lossy or _lossy_in_function(f.nested[c.func.id].node)
            n_obl += 1
            res.check(lossy is None, 'R-CONS.rehome', f.fq, f"the elements handed to the trial copy by `{short(src, 50)}` pass through lists only",
                      fail_detail=f"`{lossy}` can merge distinct elements (same name, equal key)", key='R-CONS.rehome|lossy-container', line=n.line)
        # R2: per-element copies receive the rest of the collection
        for n, arg, loop in attaches:
            if loop is not None or not isinstance(arg, ast.Name):
                continue
            # is arg the variable of a loop that encloses the creation of the copy?
            cur = pm.get(cr.ast)
            outer = None
            while cur is not None and cur is not f.node:
                if isinstance(cur, ast.For) and isinstance(cur.target, ast.Name) and cur.target.id == arg.id:
                    outer = cur
                    break
                cur = pm.get(cur)
            if outer is None:
                continue
            coll = unparse(outer.iter)
            # loops that hand the remaining elements of `coll` to the same copy
            rest_loops = []
            for n2, arg2, loop2 in attaches:
                if loop2 is None:
                    continue
                it = _expand(g, loop2.iter, g.node_of_stmt.get(loop2))
                txt = unparse(it)
                it_raw = unparse(loop2.iter)
                mentions = coll in it_raw or coll in txt or unparse(_expand(g, outer.iter, g.node_of_stmt.get(outer))) in txt
                if mentions:
                    rest_loops.append(g.node_of_stmt.get(loop2))
            n_obl += 1
            ok = bool(returns) and bool(rest_loops) and all(g.path_avoiding(n, r, avoid=rest_loops) is None for r in returns)
            res.check(ok, 'R-CONS.rehome', f.fq, f"a trial copy created per element of `{coll}` also receives the other elements of `{coll}` before it is returned",
                      fail_detail=f"`{x}.add_element({arg.id}, ...)` hands over one element of `{coll}`; no loop over the rest of `{coll}` lies on every path to `return {x}` "
                                  f"- with two attached elements of that name one is silently dropped from the schema-ordered view", key='R-CONS.rehome|per-element-copy', line=n.line)
    res.floor('R-CONS.rehome obligations', n_obl, 2)
