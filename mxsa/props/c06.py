"""C06 - no child is ever lost, duplicated or orphaned: R-OWN (writers of the two child records and the two back-pointers)
and R-PAIR (a) (paired updates on the same object on every normal path of add_child / remove / replace_child)."""
import ast

from ..astutil import unparse, short, walk_local
from ..cfg import cfg_of
from ..srcmodel import AnalysisError
from ..rules import tables as T
from ..rules import dom
from ..engine import get_cg, get_effects
from . import c01

CHECKED = {'self.xsd_check': True, 'self._xsd_check': True}
UNCHECKED = {'self.xsd_check': False, 'self._xsd_check': False}

OWNERS = {
    '_unordered_children': {'XMLElement.__init__', 'XMLElement.add_child', 'XMLElement.remove', 'XMLElement.replace_child'},
    '_xml_elements': {'XSDElement.__init__', 'XSDElement.add_xml_element', 'XMLElement.remove', 'XMLElement.replace_child'},
    'parent_xsd_element': {'XSDElement.add_xml_element', 'XMLElement.remove', 'XMLElement.replace_child'},
    '_parent@XMLElement': {'XMLElement.add_child', 'XMLElement.remove', 'XMLElement.replace_child', 'Tree.__init__'},
    '_child_container_tree': {'XMLElement.__init__', 'XMLElement._create_child_container_tree', 'XMLChildContainer.add_element'},
}


def run(ctx):
    sm, res = ctx.sm, ctx.res
    cg = get_cg(ctx)
    ef = get_effects(ctx)
    res.assume("conservation of children inside the matcher's own restructuring (_check_choices_intelligently rebuilds a container from filtered lists) is run-time "
               "behaviour and is not decided; the R-ATOM hazards KF-01/KF-02 (C10) are violations of this property as well")
    ownership(ctx, ef)
    pairing_add(ctx)
    pairing_remove(ctx)
    pairing_replace(ctx, ef)
    rehoming_swaps_everything(ctx)


def ownership(ctx, ef):
    sm, res = ctx.sm, ctx.res
    res.rule('R-OWN.children', "the insertion list, the leaf lists and the two back-pointers of an element are written only by the owner functions "
             "(__init__, add_child, remove, replace_child, add_xml_element)")
    seen = {k: set() for k in OWNERS}
    for f in ef.cg.all_functions():
        if getattr(f, 'ctx_family', None):
            continue
        for w in ef.local_writes.get(f, []):
            fld = w.field
            key = None
            if fld in ('_unordered_children',):
                key = '_unordered_children'
            elif fld in ('_xml_elements', 'xml_elements'):
                key = '_xml_elements'
            elif fld == 'parent_xsd_element':
                key = 'parent_xsd_element'
            elif fld == '_child_container_tree':
                key = '_child_container_tree'
            elif fld == '_parent' and ('XMLElement' in w.owners or (not w.owners and f.module.name == T.M_XMLELEMENT)):
                if f.cls is not None and f.cls.name == 'Tree':
                    continue          # generic Tree bookkeeping: XMLElement overrides add_child/remove/replace_child and never calls it on elements
                key = '_parent@XMLElement'
            if key is None:
                continue
            root_fn = f.qualname.split('.<locals>')[0]          # a helper nested in an owner function is part of it
            seen[key].add(root_fn)
            res.check(root_fn in OWNERS[key], 'R-OWN.children', f.fq, f"`{short(w.node, 70)}`: writer of {key} is an owner function",
                      fail_detail=f"owners: {sorted(OWNERS[key])}", key=f"R-OWN.children|{key}|{f.qualname}", line=getattr(w.node, 'lineno', None))
    for k, s in seen.items():
        res.floor(f"R-OWN.children writers of {k}", len(s), 3)
    # XMLElement must keep overriding the Tree mutators (otherwise Tree's generic versions would edit _children/_parent of elements)
    xe = sm.get_class('XMLElement', T.M_XMLELEMENT)
    for m in ('add_child', 'remove', 'replace_child', 'get_children'):
        res.check(m in xe.methods, 'R-OWN.children', f"{xe.module.relpath}::XMLElement", f"XMLElement overrides Tree.{m}", key=f"R-OWN.children|override|{m}")


def _must(g, node_list, edge_ok):
    """Every entry->exit path (under edge_ok) passes one of node_list."""
    return bool(node_list) and g.path_avoiding(g.entry, g.exit, avoid=node_list, edge_ok=edge_ok) is None


def pairing_add(ctx):
    sm, res = ctx.sm, ctx.res
    res.rule('R-PAIR.add', "every normal path of add_child performs, on the same child object: leaf attach (checked mode), insertion-list append, parent := self")
    f = sm.func('XMLElement', 'add_child', T.M_XMLELEMENT)
    g = cfg_of(f.node)
    child = f.params[1]
    attach = dom.nodes_calling(g, lambda c: unparse(c.func) == 'self._child_container_tree.add_element' and c.args and unparse(c.args[0]) == child)
    append = dom.nodes_calling(g, lambda c: unparse(c.func) == 'self._unordered_children.append' and [unparse(a) for a in c.args] == [child])
    parent = [n for n in g.stmt_nodes() if n.kind == 'stmt' and isinstance(n.ast, ast.Assign) and unparse(n.ast.targets[0]) == f"{child}._parent" and unparse(n.ast.value) == 'self']
    on, off = g.edge_filter_assuming(CHECKED), g.edge_filter_assuming(UNCHECKED)
    res.check(_must(g, attach, on), 'R-PAIR.add', f.fq, "checked: the child is handed to the matcher on every path", key='R-PAIR.add|attach')
    for mode, ok in (('checked', on), ('unchecked', off)):
        res.check(_must(g, append, ok), 'R-PAIR.add', f.fq, f"{mode}: the child is appended to the insertion list on every normal path", key=f"R-PAIR.add|append|{mode}")
        res.check(_must(g, parent, ok), 'R-PAIR.add', f.fq, f"{mode}: the child's parent is set to self on every normal path", key=f"R-PAIR.add|parent|{mode}")
    # the forward argument is passed through unchanged
    for n in attach:
        c = [x for e in n.exprs() for x in walk_local(e) if isinstance(x, ast.Call) and unparse(x.func) == 'self._child_container_tree.add_element'][0]
        res.check([unparse(a) for a in c.args] == [child, f.params[2]] and not c.keywords, 'R-PAIR.add', f.fq, "the matcher receives (child, forward) unchanged",
                  fail_detail=short(c), key='R-PAIR.add|args')
    # exactly once
    res.check(len(append) == 1 and len(parent) == 1, 'R-PAIR.add', f.fq, "append and parent assignment occur once each (no duplication)", key='R-PAIR.add|once')
    rets = [n for n in g.stmt_nodes() if n.kind == 'return']
    res.check(all(unparse(r.ast.value) == child for r in rets), 'R-PAIR.add', f.fq, "the added child is returned", key='R-PAIR.add|return')


def pairing_remove(ctx):
    sm, res = ctx.sm, ctx.res
    res.rule('R-PAIR.remove', "every normal path of remove performs, on the same child object: insertion-list removal, leaf detach and leaf back-pointer := None "
             "(checked mode), parent := None")
    f = sm.func('XMLElement', 'remove', T.M_XMLELEMENT)
    g = cfg_of(f.node)
    child = f.params[1]
    lst = dom.nodes_calling(g, lambda c: unparse(c.func) == 'self._unordered_children.remove' and [unparse(a) for a in c.args] == [child])
    leaf = dom.nodes_calling(g, lambda c: isinstance(c.func, ast.Attribute) and c.func.attr == 'remove' and
                             unparse(c.func.value) in (f"{child}.parent_xsd_element.xml_elements", f"{child}.parent_xsd_element._xml_elements") and
                             [unparse(a) for a in c.args] == [child])
    back = [n for n in g.stmt_nodes() if n.kind == 'stmt' and isinstance(n.ast, ast.Assign) and unparse(n.ast.targets[0]) == f"{child}.parent_xsd_element" and unparse(n.ast.value) == 'None']
    parent = [n for n in g.stmt_nodes() if n.kind == 'stmt' and isinstance(n.ast, ast.Assign) and unparse(n.ast.targets[0]) == f"{child}._parent" and unparse(n.ast.value) == 'None']
    on, off = g.edge_filter_assuming(CHECKED), g.edge_filter_assuming(UNCHECKED)
    for mode, ok in (('checked', on), ('unchecked', off)):
        res.check(_must(g, lst, ok), 'R-PAIR.remove', f.fq, f"{mode}: the child leaves the insertion list on every normal path", key=f"R-PAIR.remove|list|{mode}")
        res.check(_must(g, parent, ok), 'R-PAIR.remove', f.fq, f"{mode}: the child's parent is cleared on every normal path", key=f"R-PAIR.remove|parent|{mode}")
    res.check(_must(g, leaf, on), 'R-PAIR.remove', f.fq, "checked: the child is detached from its own leaf (found through its back-pointer)", key='R-PAIR.remove|leaf')
    res.check(_must(g, back, on), 'R-PAIR.remove', f.fq, "checked: the child's leaf back-pointer is cleared", key='R-PAIR.remove|back-pointer')
    # the detach must precede clearing the back-pointer through which the leaf is found
    if leaf and back:
        res.check(all(g.path_avoiding(g.entry, b, avoid=leaf, edge_ok=on) is None for b in back), 'R-PAIR.remove', f.fq,
                  "the leaf is detached before the back-pointer that leads to it is cleared", key='R-PAIR.remove|order')
    # pruning of duplicated branches never removes a branch that still holds a child, and never the last occurrence
    prune_rules(ctx, f)


def prune_rules(ctx, f):
    """Pruning of duplicated branches in remove(): only below a duplication wrapper, only while another occurrence remains, only after
    the branch's leaves were examined."""
    sm, res = ctx.sm, ctx.res
    cg = get_cg(ctx)
    res.rule('R-PAIR.remove', "every normal path of remove performs, on the same child object: insertion-list removal, leaf detach and leaf back-pointer := None "
             "(checked mode), parent := None; duplicated branches are pruned only while another occurrence remains")
    n_prunes = 0
    for helper in [f] + list(f.nested.values()):
        hg = cfg_of(helper.node)
        for p in hg.stmt_nodes():
            calls = [x for e in p.exprs() for x in walk_local(e) if isinstance(x, ast.Call) and isinstance(x.func, ast.Attribute) and x.func.attr == 'remove'
                     and any(ed.callee.cls is not None and ed.callee.cls.name == 'Tree' for ed in cg.by_node.get(x, []))]
            for c in calls:
                n_prunes += 1
                recv = unparse(c.func.value)
                if isinstance(c.func.value, ast.Name):
                    ds = [unparse(d.ast.value) for d in dom.assignments_to(hg, c.func.value.id) if isinstance(d.ast, ast.Assign)]
                    if len(ds) == 1:
                        recv = ds[0]
                guards = [(unparse(t.ast), lab) for t, lab in dom.guards_of(hg, p) if t.kind == 'test']
                keeps_one = any((f"len({recv}.get_children()) > 1" in txt or f"len({recv}.get_children()) >= 2" in txt) and lab == 'T' for txt, lab in guards)
                res.check(keeps_one, 'R-PAIR.remove', helper.fq, "a duplicated branch is pruned only while another occurrence remains (the last one keeps the particle's requirements alive)",
                          fail_detail=f"guards of `{short(c)}`: {guards}", key='R-PAIR.remove|keep-last-occurrence', line=p.line)
                only_dup = any('DuplicationXSDSequence' in txt and lab == 'T' for txt, lab in guards)
                res.check(only_dup, 'R-PAIR.remove', helper.fq, "only occurrences below a duplication wrapper are pruned", key='R-PAIR.remove|only-duplicates', line=p.line)
                empties = any(txt.startswith('remove_duplicate') and lab == 'T' for txt, lab in guards) or any('xml_elements' in txt for txt, _ in guards)
                res.check(empties, 'R-PAIR.remove', helper.fq, "a branch is pruned only after its leaves were examined for attached children", key='R-PAIR.remove|empty-only', line=p.line)
    res.floor('R-PAIR.remove prune sites', n_prunes, 1)


def pairing_replace(ctx, ef):
    sm, res = ctx.sm, ctx.res
    res.rule('R-PAIR.replace', "every normal path of replace_child swaps the new child into the old child's position in the insertion list and (checked mode) into its "
             "slot of the same leaf, by identity of the removed child; the new child's back-pointers are set and the *removed* child's parent is cleared")
    f = sm.func('XMLElement', 'replace_child', T.M_XMLELEMENT)
    g = cfg_of(f.node)
    new = f.params[2]
    on, off = g.edge_filter_assuming(CHECKED), g.edge_filter_assuming(UNCHECKED)
    rem = dom.nodes_calling(g, lambda c: unparse(c.func) == 'self._unordered_children.remove' and len(c.args) == 1)
    ins = dom.nodes_calling(g, lambda c: unparse(c.func) == 'self._unordered_children.insert' and len(c.args) == 2 and unparse(c.args[1]) == new)
    if not res.check(len(rem) == 1 and len(ins) == 1, 'R-PAIR.replace', f.fq, "one removal of the old and one insertion of the new child in the insertion list",
                     key='R-PAIR.replace|list-ops'):
        return
    rc = [x for e in rem[0].exprs() for x in walk_local(e) if isinstance(x, ast.Call) and unparse(x.func) == 'self._unordered_children.remove'][0]
    old_var = unparse(rc.args[0])
    ic = [x for e in ins[0].exprs() for x in walk_local(e) if isinstance(x, ast.Call) and unparse(x.func) == 'self._unordered_children.insert'][0]
    idx_var = unparse(ic.args[0])
    # old_var = self._unordered_children[idx_var]; idx_var = self._unordered_children.index(<selected old>)
    defs_old = [unparse(d.ast.value) for d in dom.assignments_to(g, old_var) if isinstance(d.ast, ast.Assign)]
    defs_idx = [unparse(d.ast.value) for d in dom.assignments_to(g, idx_var) if isinstance(d.ast, ast.Assign)]
    res.check(defs_old == [f"self._unordered_children[{idx_var}]"] and len(defs_idx) == 1 and defs_idx[0].startswith('self._unordered_children.index('), 'R-PAIR.replace', f.fq,
              "the new child is inserted at the index the removed child had", fail_detail=f"{old_var} = {defs_old}; {idx_var} = {defs_idx}", key='R-PAIR.replace|same-position')
    for mode, ok in (('checked', on), ('unchecked', off)):
        res.check(_must(g, rem, ok) and _must(g, ins, ok), 'R-PAIR.replace', f.fq, f"{mode}: the insertion list is updated on every normal path", key=f"R-PAIR.replace|list|{mode}")
    # leaf swap by identity
    swaps = [w for w in ef.local_writes[f] if w.field in ('_xml_elements', 'xml_elements')]
    ok_swap = False
    detail = 'no leaf write'
    for w in swaps:
        st = w.node
        detail = short(st, 100)
        if isinstance(st, ast.Assign) and isinstance(st.value, ast.ListComp) and len(st.value.generators) == 1:
            gen = st.value.generators[0]
            el = unparse(gen.target)
            elt = st.value.elt
            src_ok = unparse(gen.iter) in (unparse(st.targets[0]).replace('._xml_elements', '.xml_elements'), unparse(st.targets[0]))
            if isinstance(elt, ast.IfExp) and unparse(elt.body) == new and unparse(elt.orelse) == el and unparse(elt.test) in (f"{el} == {old_var}", f"{el} is {old_var}") \
                    and not gen.ifs and src_ok:
                ok_swap = True
        if isinstance(st, ast.Assign) and isinstance(st.targets[0], ast.Subscript) and f".index({old_var})" in unparse(st.targets[0].slice) and unparse(st.value) == new:
            ok_swap = True
    res.check(ok_swap, 'R-PAIR.replace', f.fq, f"checked: the leaf slot is found by the identity of the removed child `{old_var}` (not by a caller-supplied position), "
              "every other element of the leaf is kept", fail_detail=detail, key='R-PAIR.replace|leaf-by-identity')
    leaf_nodes = []
    pm = ef._parent_map(f)
    for w in swaps:
        st = w.node
        while st is not None and st not in g.node_of_stmt:
            st = pm.get(st)
        if st is not None:
            leaf_nodes.append(g.node_of_stmt[st])
    res.check(_must(g, leaf_nodes, on), 'R-PAIR.replace', f.fq, "checked: the leaf is updated on every normal path", key='R-PAIR.replace|leaf-every-path')
    # the leaf is the removed child's leaf
    holder = None
    for w in swaps:
        if isinstance(w.node, ast.Assign):
            base = w.node.targets[0]
            while isinstance(base, (ast.Attribute, ast.Subscript)):
                base = base.value
            holder = base.id if isinstance(base, ast.Name) else None
    hd = [unparse(d.ast.value) for d in dom.assignments_to(g, holder) if isinstance(d.ast, ast.Assign)] if holder else []
    res.check(hd == [f"{old_var}.parent_xsd_element"], 'R-PAIR.replace', f.fq, "the leaf written is the removed child's own leaf", fail_detail=f"{holder} = {hd}",
              key='R-PAIR.replace|same-leaf')
    bp = [n for n in g.stmt_nodes() if n.kind == 'stmt' and isinstance(n.ast, ast.Assign) and unparse(n.ast.targets[0]) == f"{new}.parent_xsd_element" and unparse(n.ast.value) == holder]
    res.check(_must(g, bp, on), 'R-PAIR.replace', f.fq, "checked: the new child's leaf back-pointer is set to that leaf", key='R-PAIR.replace|new-back-pointer')
    np = [n for n in g.stmt_nodes() if n.kind == 'stmt' and isinstance(n.ast, ast.Assign) and unparse(n.ast.targets[0]) == f"{new}._parent" and unparse(n.ast.value) == 'self']
    op = [n for n in g.stmt_nodes() if n.kind == 'stmt' and isinstance(n.ast, ast.Assign) and unparse(n.ast.targets[0]).endswith('._parent') and unparse(n.ast.value) == 'None']
    for mode, ok in (('checked', on), ('unchecked', off)):
        res.check(_must(g, np, ok), 'R-PAIR.replace', f.fq, f"{mode}: the new child's parent is set to self", key=f"R-PAIR.replace|new-parent|{mode}")
        good = [n for n in op if unparse(n.ast.targets[0]) == f"{old_var}._parent"]
        res.check(_must(g, good, ok), 'R-PAIR.replace', f.fq, f"{mode}: the parent of the child that was actually removed (`{old_var}`) is cleared",
                  fail_detail='; '.join(short(n.ast) for n in op) or 'no `<x>._parent = None`', key=f"R-PAIR.replace|old-parent|{mode}")
    rets = [n for n in g.stmt_nodes() if n.kind == 'return']
    res.check(all(unparse(r.ast.value) == new for r in rets), 'R-PAIR.replace', f.fq, "the new child is returned", key='R-PAIR.replace|return')


def rehoming_swaps_everything(ctx):
    sm, res = ctx.sm, ctx.res
    res.rule('R-PAIR.rehome', "after children were re-attached to a trial copy (their leaf back-pointers now point into the copy), every sub-tree of the copy replaces "
             "the corresponding sub-tree of the element's container, unconditionally")
    n = 0
    for name in ('add_element', 'check_required_elements'):
        f = sm.func('XMLChildContainer', name, T.M_CONTAINER)
        for loop in [x for x in ast.walk(f.node) if isinstance(x, ast.For)]:
            it = unparse(loop.iter)
            if not (it.startswith('zip(self.get_children(), ') and it.endswith('.get_children())')):
                continue
            n += 1
            body = loop.body
            names = [unparse(t) for t in loop.target.elts] if isinstance(loop.target, ast.Tuple) else []
            ok = len(body) == 1 and isinstance(body[0], ast.Expr) and isinstance(body[0].value, ast.Call) and unparse(body[0].value.func) == 'self.replace_child' and \
                [unparse(a) for a in body[0].value.args] == names
            res.check(ok, 'R-PAIR.rehome', f.fq, "`for old, new in zip(self.get_children(), copy.get_children()): self.replace_child(old, new)` swaps every sub-tree",
                      fail_detail=short(body, 120), key=f"R-PAIR.rehome|{name}", line=loop.lineno)
    res.floor('R-PAIR.rehome swap loops', n, 2)
