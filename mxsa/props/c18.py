"""C18 - xsd_check=False switches off structural checking and nothing else (R-DOM guard dominance, R-EFF escape
with the flag fixed)."""
import ast

from ..astutil import unparse, short, walk_local, dotted
from ..cfg import cfg_of
from ..rules import tables as T
from ..rules import dom
from ..engine import get_cg, get_effects
from ..effects import exc_is_subclass

MATCHER_ATTRS = {'_child_container_tree', 'child_container_tree', 'parent_xsd_element', 'xml_elements', '_xml_elements',
                 'parent_container', 'chosen_child', 'requirements_fulfilled', 'possible_children_names'}
STRUCTURAL_BASES = ('XMLElementException', 'XMLChildContainerException', 'XSDException', 'XMLChildContainerFactoryException')
UNCHECKED = {'self.xsd_check': False, 'self._xsd_check': False}
CHECKED = {'self.xsd_check': True, 'self._xsd_check': True}


def structural(sm, exc: str) -> bool:
    return any(exc_is_subclass(sm, exc, b) for b in STRUCTURAL_BASES) or exc in ('NotImplementedError',)


def _escapes_with_flag_off(sm, cg, ef, caller, node, ed, depth=0):
    """Structural exception classes that the call `ed` can let escape while self.xsd_check is false.  A private helper called on
    self shares the element (and its flag): it is examined under the same assumption instead of by its flag-insensitive summary."""
    callee = ed.callee
    is_self_helper = (callee.cls is not None and callee.cls.is_subclass_of('XMLElement') and callee.name.startswith('_') and not callee.name.startswith('__')
                      and isinstance(node, ast.Call) and isinstance(node.func, ast.Attribute) and unparse(node.func.value) == 'self' and depth < 3)
    out = []
    if not is_self_helper:
        for exc in ef.summary_raises.get(callee, {}):
            if structural(sm, exc) and not ef.caught(caller, node, exc):
                out.append(exc)
        return out
    g = cfg_of(callee.node)
    reach = g.reachable(g.entry, edge_ok=g.edge_filter_assuming(UNCHECKED))
    for n in reach:
        if n.kind == 'stmt' and isinstance(n.ast, ast.Raise):
            for exc in ef._raise_class(callee, n.ast):
                if structural(sm, exc) and not ef.caught(callee, n.ast, exc):
                    out.append(exc)
        for e in n.exprs():
            for sub in walk_local(e):
                for ed2 in cg.by_node.get(sub, []):
                    if ed2.caller.node is not callee.node:
                        continue
                    if ed2.callee.cls is not None and ed2.callee.cls.name == 'XMLElement' and ed2.callee.name == '_final_checks' and callee.name != '_final_checks' \
                            and not (isinstance(sub, ast.Call) and isinstance(sub.func, ast.Attribute) and unparse(sub.func.value) == 'self'):
                        continue
                    for exc in _escapes_with_flag_off(sm, cg, ef, callee, sub, ed2, depth + 1):
                        if not ef.caught(callee, sub, exc):
                            out.append(exc)
    return [x for x in out if not ef.caught(caller, node, x)]


def run(ctx):
    sm, res = ctx.sm, ctx.res
    cg = get_cg(ctx)
    ef = get_effects(ctx)
    res.rule('R-DOM.guard', "with self.xsd_check false, no statement that uses the matcher or raises a structural exception is reachable "
             "in the element operations")
    res.rule('R-DOM.per-element', "_final_checks tests the element's own flag, does nothing else when it is off, and recurses into all "
             "children regardless of it")
    res.rule('R-EFF.unchecked-raise-free', "no call reachable with the flag off can let a structural exception escape")
    res.assume("byte-identity with the checked build for schema-valid orders depends on the matcher (C02) and is not decided")
    funcs = [sm.func('XMLElement', n, T.M_XMLELEMENT) for n in ('add_child', 'remove', 'replace_child', 'get_children', '_final_checks', 'to_string')]
    n_guarded = 0
    for f in funcs:
        g = cfg_of(f.node)
        off = g.edge_filter_assuming(UNCHECKED)
        on = g.edge_filter_assuming(CHECKED)
        reach_off = g.reachable(g.entry, edge_ok=off)
        reach_on = g.reachable(g.entry, edge_ok=on)
        # is the flag consulted at all?
        tests = [n for n in g.stmt_nodes() if n.kind == 'test' and ('xsd_check' in unparse(n.ast))]
        helper_tests = False
        if not tests:
            for ed in cg.out.get(f, []):
                if ed.callee.cls is not None and ed.callee.cls.name == 'XMLElement' and ed.callee.name.startswith('_') and 'xsd_check' in unparse(ed.callee.node):
                    helper_tests = True
        res.check(bool(tests) or helper_tests, 'R-DOM.guard', f.fq, "the operation branches on the element's own xsd_check (itself or in a private helper)",
                  key=f"R-DOM.guard|no-test|{f.name}")
        for t in tests:
            ok = all(x in ('self.xsd_check', 'self._xsd_check') for x in
                     [unparse(a) for a in ast.walk(t.ast) if isinstance(a, ast.Attribute) and a.attr in ('xsd_check', '_xsd_check')])
            res.check(ok, 'R-DOM.per-element', f.fq, f"`{short(t.ast)}` consults the element's own flag",
                      key=f"R-DOM.per-element|own-flag|{f.name}", line=t.line)
        bad_uses, bad_raises, bad_calls = [], [], []
        for n in sorted(reach_off, key=lambda x: x.id):
            for e in n.exprs():
                for sub in walk_local(e):
                    if isinstance(sub, ast.Attribute) and sub.attr in MATCHER_ATTRS:
                        bad_uses.append((n, sub))
                    edges = cg.by_node.get(sub, [])
                    for ed in edges:
                        if ed.callee.cls is not None and ed.callee.cls.name in ('XMLChildContainer', 'XSDElement') and ed.resolved:
                            bad_uses.append((n, sub))
                        # escaping structural exceptions of the callee; the recursion into children (which have
                        # their own flag) is the per-element rule's business
                        if ed.callee.cls is not None and ed.callee.cls.name == 'XMLElement' and ed.callee.name == '_final_checks':
                            continue
                        for exc in _escapes_with_flag_off(sm, cg, ef, f, sub, ed):
                            bad_calls.append((n, sub, ed.callee.qualname, exc))
            if n.kind == 'stmt' and isinstance(n.ast, ast.Raise):
                for exc in ef._raise_class(f, n.ast):
                    if structural(sm, exc):
                        bad_raises.append((n, exc))
        seen = set()
        for n, sub in bad_uses:
            k = unparse(sub)
            if k in seen:
                continue
            seen.add(k)
            res.finding('R-DOM.guard', f.fq, f"matcher state is not touched when xsd_check is off",
                        f"`{short(sub, 80)}` at line {n.line} is reachable with self.xsd_check false",
                        key=f"R-DOM.guard|matcher-use|{f.name}|{short(sub, 60)}", line=n.line)
        for n, exc in bad_raises:
            res.finding('R-DOM.guard', f.fq, "no structural exception is raised when xsd_check is off",
                        f"`{short(n.ast, 80)}` is reachable with self.xsd_check false", key=f"R-DOM.guard|raise|{f.name}|{exc}", line=n.line)
        seen = set()
        for n, sub, callee, exc in bad_calls:
            if (callee, exc) in seen:
                continue
            seen.add((callee, exc))
            res.finding('R-EFF.unchecked-raise-free', f.fq, "calls made with the flag off cannot raise a structural exception",
                        f"`{short(sub, 70)}` -> {callee} may let {exc} escape", key=f"R-EFF.unchecked-raise-free|{f.name}|{callee}|{exc}", line=n.line)
        if not bad_uses and not bad_raises and not bad_calls:
            res.ok('R-DOM.guard', f.fq, f"{len(reach_off)} CFG nodes reachable with the flag off: none uses the matcher or raises structurally")
        n_guarded += sum(1 for n in reach_on - reach_off if n.kind not in ('entry', 'exit', 'raise'))
        # what the flag must NOT switch off: the shared bookkeeping (done under both settings)
        if f.name == 'add_child':
            from ..rules.mustfx import MustFx
            child = ('param', 1)
            for want, pred in (('self._unordered_children.append(child)', lambda l: l == ('write', 'self', '_unordered_children', 'append', child)),
                               ('child._parent = self', lambda l: l == ('write', child, '_parent', 'store', 'self'))):
                ok = True
                for mode, assume in (('checked', CHECKED), ('unchecked', UNCHECKED)):
                    mx = ctx.lazy(f"mustfx-{mode}", lambda a=assume: MustFx(cg, a))
                    ok = ok and mx.performed_on_every_path(f, pred, assume)
                res.check(ok, 'R-DOM.guard', f.fq, f"`{want}` happens with the flag on and off", key=f"R-DOM.guard|shared|add_child|{want}")
        if f.name == 'get_children':
            rets = [n for n in reach_off if n.kind == 'return']
            ok = bool(rets) and all(unparse(r.ast.value) in ('self._unordered_children', 'list(self._unordered_children)', 'self._unordered_children[:]')
                                    for r in rets)
            res.check(ok, 'R-DOM.guard', f.fq, "an unchecked element returns its insertion-ordered children",
                      fail_detail='; '.join(short(r.ast) for r in rets), key='R-DOM.guard|get_children|unchecked-return')
        if f.name == '_final_checks':
            # with the flag off the only thing that happens is the recursion into all children
            loops = [n for n in g.stmt_nodes() if n.kind == 'for' and unparse(n.stmt.iter).startswith('self.get_children(')]
            ok_loop = False
            for ln in loops:
                body_calls = [s for s in ln.stmt.body if isinstance(s, ast.Expr) and isinstance(s.value, ast.Call) and
                              unparse(s.value.func) == f"{unparse(ln.stmt.target)}._final_checks"]
                if body_calls and ln in reach_off and ln in reach_on and len(ln.stmt.body) == len(body_calls):
                    ok_loop = True
                    kw = {k.arg: unparse(k.value) for k in body_calls[0].value.keywords}
                    args = [unparse(a) for a in body_calls[0].value.args]
                    res.check(kw.get('intelligent_choice') == 'intelligent_choice' or args == ['intelligent_choice'], 'R-DOM.per-element', f.fq,
                              "the recursion passes intelligent_choice on", key='R-DOM.per-element|recursion-arg')
            res.check(ok_loop, 'R-DOM.per-element', f.fq, "every child is finally checked, whatever this element's own flag is",
                      key='R-DOM.per-element|recursion')
            others = []
            for n in reach_off:
                if n.kind in ('entry', 'exit', 'raise', 'test', 'for'):
                    continue
                txt = unparse(n.ast) if n.ast is not None else ''
                if '._final_checks(' in txt:
                    continue
                others.append(n)
            res.check(not others, 'R-DOM.per-element', f.fq, "with the flag off _final_checks only recurses (no check of this element)",
                      fail_detail='; '.join(f"line {n.line}: {short(n.ast, 60)}" for n in others[:3]),
                      key='R-DOM.per-element|unchecked-does-nothing')
            # with the flag on, the three checks of this element are performed on every path to the recursion
            for want in ('_check_required_value', 'get_required_element_names', '_check_required_attributes'):
                hits = [n for n in g.stmt_nodes() if any(isinstance(s, ast.Call) and isinstance(s.func, ast.Attribute) and s.func.attr == want
                                                          for e in n.exprs() for s in walk_local(e))]
                res.check(bool(hits) and all(n in reach_on and n not in reach_off for n in hits), 'R-DOM.per-element', f.fq,
                          f"{want} runs exactly when the element's own flag is on", key=f"R-DOM.per-element|{want}")
        if f.name == 'to_string':
            from ..rules.mustfx import MustFx
            from ..rules import dom as _dom
            mx = ctx.lazy('mustfx-checked', lambda: MustFx(cg, CHECKED))
            on_ok = mx.performed_on_every_path(f, lambda l: l[0] == 'call' and l[1] == 'XMLElement._final_checks' and l[2] == 'self', CHECKED)
            off_ok = not _dom.may_call(cg, f, 'XMLElement._final_checks', UNCHECKED)
            res.check(on_ok and off_ok, 'R-DOM.per-element', f.fq,
                      "to_string() validates exactly when the element's own flag is on", fail_detail=f"validated when on: {on_ok}; skipped when off: {off_ok}",
                      key='R-DOM.per-element|to_string')
    container_independent_of_flag(ctx)
    res.extra['cfg_nodes_switched_off_by_flag'] = n_guarded
    res.floor('R-DOM.guard functions', len(funcs), 6)
    res.floor('R-DOM.guard guarded statements', n_guarded, 10)


def container_independent_of_flag(ctx):
    """'... and nothing else': the element's container (which possible_children_names, the xml_* shortcuts and a later switch back to
    checking rely on) is created whatever the flag is."""
    sm, res = ctx.sm, ctx.res
    cg = get_cg(ctx)
    init = sm.func('XMLElement', '__init__', T.M_XMLELEMENT)
    cct = sm.func('XMLElement', '_create_child_container_tree', T.M_XMLELEMENT)
    reaches = dom.may_call(cg, init, 'XMLElement._create_child_container_tree', UNCHECKED)
    g = cfg_of(cct.node)
    stores = [n for n in g.stmt_nodes() if n.kind == 'stmt' and isinstance(n.ast, ast.Assign) and unparse(n.ast.targets[0]) == 'self._child_container_tree']
    reach_off = g.reachable(g.entry, edge_ok=g.edge_filter_assuming(UNCHECKED))
    flag_tests = [n for n in g.stmt_nodes() if n.kind == 'test' and 'xsd_check' in unparse(n.ast)]
    ok = reaches and bool(stores) and all(s in reach_off for s in stores) and not flag_tests
    res.check(ok, 'R-DOM.guard', cct.fq, "the element's container is created independently of xsd_check (the flag switches off checking, not the element's "
              "knowledge of its possible children)", fail_detail=f"reached from __init__ with the flag off: {reaches}; tests on the flag: {[unparse(t.ast) for t in flag_tests]}",
              key='R-DOM.guard|container-independent')
