"""C15 - shortcut syntax is equivalent to the explicit API: layering, decision table, name maps, read fallbacks."""
import ast
import itertools

from ..astutil import unparse, short, walk_local, const_value
from ..cfg import cfg_of
from ..srcmodel import AnalysisError
from ..rules import tables as T
from ..rules import dom
from ..engine import get_cg, get_effects
from . import c04

EXPLICIT_API = {'add_child', 'replace_child', 'remove', '_set_attributes', 'find_child', '_convert_attribute_to_child',
                '_get_attributes_error_message', 'get_children'}


def run(ctx):
    sm, sc, res = ctx.sm, ctx.schema, ctx.res
    layering(ctx)
    decision_table(ctx)
    name_maps(ctx)
    read_fallbacks(ctx)
    el_classes = {c.name: c for c in T.direct_subclasses(sm, T.M_XMLELEMENT, 'XMLElement')}
    c04.routing(ctx, el_classes)
    from . import c18
    ctx.res.rule('R-DOM.guard', "the shortcut's name space (possible_children_names) does not depend on xsd_check")
    c18.container_independent_of_flag(ctx)


def layering(ctx):
    sm, res = ctx.sm, ctx.res
    ef = get_effects(ctx)
    res.rule('R-OWN.layering', "__setattr__, _convert_attribute_to_child and __getattr__ write no element or matcher state themselves: every effect is a call of the "
             "explicit API (add_child / replace_child / remove / value_ setter / _set_attributes), so the shortcut is a composition of explicit calls")
    for name in ('__setattr__', '_convert_attribute_to_child', '__getattr__'):
        f = sm.func('XMLElement', name, T.M_XMLELEMENT)
        bad = [w for w in ef.local_writes[f] if w.root not in ('fresh', 'const') and not (w.field == 'value_')]
        res.check(not bad, 'R-OWN.layering', f.fq, "no direct store into element or matcher state", fail_detail='; '.join(short(w.node, 60) for w in bad[:3]),
                  key=f"R-OWN.layering|{name}")
    # __setattr__: private/property names go to object.__setattr__ unchanged
    f = sm.func('XMLElement', '__setattr__', T.M_XMLELEMENT)
    g = cfg_of(f.node)
    key_p, val_p = f.params[1], f.params[2]
    sup = dom.nodes_calling(g, lambda c: unparse(c.func) == 'super().__setattr__' and [unparse(a) for a in c.args] == [key_p, val_p])
    res.check(len(sup) == 1, 'R-OWN.layering', f.fq, "reserved names are handed to object.__setattr__ with the same key and value", key='R-OWN.layering|super')
    conv = dom.nodes_calling(g, lambda c: unparse(c.func) == 'self._convert_attribute_to_child')
    ok = False
    for n in conv:
        c = [x for e in n.exprs() for x in walk_local(e) if isinstance(x, ast.Call) and unparse(x.func) == 'self._convert_attribute_to_child'][0]
        kw = {k.arg: unparse(k.value) for k in c.keywords}
        args = [unparse(a) for a in c.args]
        ok = (kw.get('name') == key_p and kw.get('value') == val_p) or args == [key_p, val_p]
        guards = [(unparse(t.ast), lab) for t, lab in dom.guards_of(g, n) if t.kind == 'test']
        ok = ok and (f"{key_p}.startswith('xml_')", 'T') in guards
    res.check(ok, 'R-OWN.layering', f.fq, "xml_* names are handed to _convert_attribute_to_child with the same key and value", key='R-OWN.layering|child-route')
    # exception conversions: only NameError / XSDWrongAttribute -> AttributeError
    for h in [x for x in ast.walk(f.node) if isinstance(x, ast.ExceptHandler)]:
        names = unparse(h.type)
        rs = [r for r in h.body if isinstance(r, ast.Raise)]
        ok = names in ('NameError', 'XSDWrongAttribute') and len(rs) == 1 and isinstance(rs[0].exc, ast.Call) and unparse(rs[0].exc.func) == 'AttributeError'
        res.check(ok, 'R-OWN.layering', f.fq, f"`except {names}` converts to AttributeError and nothing else (all other errors of the explicit API pass through)",
                  key=f"R-OWN.layering|convert|{names}")


def decision_table(ctx):
    sm, res = ctx.sm, ctx.res
    res.rule('R-TABLE.shortcut', "the child shortcut performs, for each combination of (child found, value is None, value is an element of the child class), exactly "
             "the explicit operation: replace_child / add_child / remove / nothing / value setter / add_child(class(value))")
    f = sm.func('XMLElement', '_convert_attribute_to_child', T.M_XMLELEMENT)
    g = cfg_of(f.node)
    val_p = f.params[2]
    # names of the local variables
    found = None
    cls_var = None
    for n in g.stmt_nodes():
        if n.kind == 'stmt' and isinstance(n.ast, ast.Assign) and isinstance(n.ast.targets[0], ast.Name):
            v = unparse(n.ast.value)
            if v.startswith('self.find_child('):
                found = n.ast.targets[0].id
                found_arg = unparse(n.ast.value.args[0]) if n.ast.value.args else ''
            if v.startswith('eval('):
                cls_var = n.ast.targets[0].id
                eval_arg = unparse(n.ast.value.args[0])
    if cls_var is None:
        # the class expression may be written in place: isinstance(value, eval(<name>))
        for n in g.stmt_nodes():
            if n.kind == 'test' and isinstance(n.ast, ast.Call) and unparse(n.ast.func) == 'isinstance' and len(n.ast.args) == 2 and unparse(n.ast.args[0]) == val_p:
                c2 = n.ast.args[1]
                if isinstance(c2, ast.Call) and unparse(c2.func) == 'eval' and c2.args:
                    cls_var = unparse(c2)
                    eval_arg = unparse(c2.args[0])
    if found is None or cls_var is None:
        raise AnalysisError("_convert_attribute_to_child: found_child / child_class variables not recognised (idiom not understood)")
    res.check(found_arg == eval_arg, 'R-TABLE.shortcut', f.fq, "the existing child is looked up by the same class name that is instantiated",
              fail_detail=f"find_child({found_arg}) vs eval({eval_arg})", key='R-TABLE.shortcut|same-class')
    ops = {}
    for n in g.stmt_nodes():
        for e in n.exprs():
            for c in walk_local(e):
                if isinstance(c, ast.Call) and isinstance(c.func, ast.Attribute) and isinstance(c.func.value, ast.Name) and c.func.value.id == 'self' \
                        and c.func.attr in ('add_child', 'replace_child', 'remove'):
                    ops.setdefault(n, []).append(f"{c.func.attr}({', '.join(unparse(a) for a in c.args)}{''.join(', ' + k.arg + '=' + unparse(k.value) for k in c.keywords)})")
        if n.kind == 'stmt' and isinstance(n.ast, ast.Assign) and unparse(n.ast.targets[0]) == f"{found}.value_":
            ops.setdefault(n, []).append(f"value_={unparse(n.ast.value)}")
    expected = {
        (True, False, True): [f"replace_child({found}, {val_p})"],
        (True, False, False): [f"add_child({val_p})"],
        (False, True, True): [f"remove({found})"],
        (False, True, False): [],
        (False, False, True): [f"value_={val_p}"],
        (False, False, False): [f"add_child({cls_var}({val_p}))"],
    }
    # the path up to the dispatch must not be pruned: only the three atoms are assumed
    for (is_inst, is_none, has_found), want in expected.items():
        assume = {f"isinstance({val_p}, {cls_var})": is_inst, f"{val_p} is None": is_none, f"{val_p} is not None": not is_none, found: has_found,
                  f"not {val_p}.startswith('xml_')": False, f"not {f.params[1]}.startswith('xml_')": False}
        # membership test of the child name: assume it passes
        for n in g.stmt_nodes():
            if n.kind == 'test' and 'possible_children_names' in unparse(n.ast):
                assume[unparse(n.ast)] = False if 'not in' in unparse(n.ast) else True
        ok_edges = g.edge_filter_assuming(assume)
        reach = g.reachable(g.entry, edge_ok=ok_edges)
        got = sorted(o for n, lst in ops.items() if n in reach for o in lst)
        label = f"element={is_inst}, None={is_none}, found={has_found}"
        res.check(got == sorted(want), 'R-TABLE.shortcut', f.fq, f"[{label}] performs exactly {want or 'nothing'}", fail_detail=f"performs {got}",
                  key=f"R-TABLE.shortcut|{is_inst}|{is_none}|{has_found}")
    res.floor('R-TABLE.shortcut operations', sum(len(v) for v in ops.values()), 5)


def _caps_only_on_nonempty_parts(g, node) -> bool:
    """every cap_first / convert_to_xml_class_name call evaluated at this CFG node is `cap_first(p)` in a comprehension `for p in X if p` (a filter on
    the bare loop variable) where X is, after expansion of locals, a `<expr>.split(<sep>)` call: its items are non-empty strings, s[0] cannot fail"""
    comps = [c for e in node.exprs() for c in ast.walk(e) if isinstance(c, (ast.ListComp, ast.GeneratorExp, ast.SetComp))]
    covered = set()
    for comp in comps:
        if len(comp.generators) != 1 or not isinstance(comp.generators[0].target, ast.Name):
            continue
        gen = comp.generators[0]
        v = gen.target.id
        if not any(isinstance(c, ast.Name) and c.id == v for c in gen.ifs):
            continue
        it = dom.expand(g, gen.iter, node)
        if not (isinstance(it, ast.Call) and isinstance(it.func, ast.Attribute) and it.func.attr == 'split' and len(it.args) == 1 and
                isinstance(it.args[0], ast.Constant) and isinstance(it.args[0].value, str) and it.args[0].value):
            continue
        for c in ast.walk(comp.elt):
            if isinstance(c, ast.Call) and isinstance(c.func, ast.Name) and c.func.id == 'cap_first' and len(c.args) == 1 and not c.keywords and \
                    isinstance(c.args[0], ast.Name) and c.args[0].id == v:
                covered.add(id(c))
    calls = [c for e in node.exprs() for c in ast.walk(e) if isinstance(c, ast.Call) and isinstance(c.func, ast.Name) and c.func.id in ('cap_first', 'convert_to_xml_class_name')]
    return bool(calls) and all(id(c) in covered for c in calls)


def membership_gate(ctx):
    """The class lookup of the child shortcut only ever sees names of the element's own possible children (also the reason no
    NameError / IndexError can come out of the name arithmetic: C19)."""
    sm, res = ctx.sm, ctx.res
    res.rule('R-TAB.shortcut-names', "xml_ + underscore form <-> element name is a bijection on the element names and agrees with the class naming rule")
    f = sm.func('XMLElement', '_convert_attribute_to_child', T.M_XMLELEMENT)
    g = cfg_of(f.node)
    evals = dom.nodes_calling(g, lambda c: isinstance(c.func, ast.Name) and c.func.id == 'eval')
    gates = [n for n in g.stmt_nodes() if n.kind == 'test' and isinstance(n.ast, ast.Compare) and isinstance(n.ast.ops[0], ast.In) and
             unparse(n.ast.comparators[0]) == 'self.possible_children_names' and dom.branch_raises(g, n, 'F')]       # canonical form of `name not in ..` [T]
    ok = bool(evals) and bool(gates) and all(g.path_avoiding(g.entry, e, avoid=gates) is None for e in evals)
    # every computation on the name parts (cap_first indexes [0]) also sits behind the gate
    caps = dom.nodes_calling(g, lambda c: isinstance(c.func, ast.Name) and c.func.id in ('cap_first', 'convert_to_xml_class_name'))
    # ... unless it cannot raise where it stands: `cap_first(p)` inside `[.. for p in <str>.split(..) if p]` only sees non-empty strings
    ok = ok and all(g.path_avoiding(g.entry, c, avoid=gates) is None for c in caps if not _caps_only_on_nonempty_parts(g, c))
    res.check(ok, 'R-TAB.shortcut-names', f.fq, "the class lookup (eval) is dominated by `<hyphenated name> not in self.possible_children_names -> raise NameError`: "
              "only names of the element's own possible children are ever turned into classes", key='R-TAB.shortcut-names|membership-gate')
    for gt in gates:
        left = unparse(dom.expand(g, gt.ast.left, gt))
        res.check(left.startswith("'-'.join(") and ".split('_')" in left, 'R-TAB.shortcut-names', f.fq, "membership is tested on the name with _ mapped to -",
                  fail_detail=left, key='R-TAB.shortcut-names|membership-form')


def name_maps(ctx):
    sm, sc, res = ctx.sm, ctx.schema, ctx.res
    res.rule('R-TAB.shortcut-names', "xml_ + underscore form <-> element name is a bijection on the element names and agrees with the class naming rule")
    membership_gate(ctx)
    names = sc.partwise_names()
    seen = {}
    for n in names:
        res.check('_' not in n and 'xml' not in n.lower(), 'R-TAB.shortcut-names', f"element '{n}'", "name contains neither '_' nor 'xml' (the map strips every 'xml_' and maps every '_')",
                  key=f"R-TAB.shortcut-names|name|{n}")
        under = n.replace('-', '_')
        seen.setdefault(under, []).append(n)
        # class naming rule agreement
        res.check('XML' + ''.join(T.cap_first(p) for p in under.split('_')) == T.xml_class_name(n), 'R-TAB.shortcut-names', f"element '{n}'",
                  "the shortcut's class name equals the naming rule's", key=f"R-TAB.shortcut-names|class|{n}")
    for k, v in seen.items():
        if len(v) > 1:
            res.finding('R-TAB.shortcut-names', f"xml_{k}", "one element per shortcut name", str(v), key=f"R-TAB.shortcut-names|collision|{k}")
    # possible_children_names: the names of the container's leaves
    p = sm.func('XMLElement', 'possible_children_names', T.M_XMLELEMENT)
    comps = [n for n in ast.walk(p.node) if isinstance(n, ast.SetComp) and len(n.generators) == 1 and
             unparse(n.generators[0].iter) in ('self.child_container_tree.iterate_leaves()', 'self._child_container_tree.iterate_leaves()') and
             unparse(n.elt) == f"{unparse(n.generators[0].target)}.content.name" and not n.generators[0].ifs]
    res.check(len(comps) == 1, 'R-TAB.shortcut-names', p.fq,
              "possible children = names of all leaves of the element's own container", key='R-TAB.shortcut-names|possible')


def read_fallbacks(ctx):
    sm, res = ctx.sm, ctx.res
    res.rule('R-TABLE.read', "__getattr__ returns: stored attribute (by presence, not truthiness) -> value; declared attribute -> None; child present -> the child; "
             "possible child -> None; anything else -> AttributeError")
    f = sm.func('XMLElement', '__getattr__', T.M_XMLELEMENT)
    g = cfg_of(f.node)
    item = f.params[1]
    rets = [n for n in g.stmt_nodes() if n.kind == 'return']
    # 1. stored attribute
    key_txt = f"'-'.join({item}.split('_'))"
    stored = [r for r in rets if isinstance(r.ast.value, ast.Subscript) and unparse(r.ast.value.value) in ('self.attributes', 'self._attributes')
              and unparse(r.ast.value.slice) == key_txt]
    by_presence = False
    if stored:
        # inside a try with an `except KeyError` handler
        for t in ast.walk(f.node):
            if isinstance(t, ast.Try) and any(s is stored[0].ast for s in t.body) and any(unparse(h.type) == 'KeyError' for h in t.handlers):
                by_presence = True
    else:
        for r in rets:
            for t, lab in dom.guards_of(g, r):
                if t.kind == 'test' and isinstance(t.ast, ast.Compare) and isinstance(t.ast.ops[0], ast.In) and unparse(t.ast.comparators[0]) in ('self.attributes', 'self._attributes') and lab == 'T':
                    by_presence = True
                    stored = [r]
                if t.kind == 'test' and isinstance(t.ast, ast.Compare) and isinstance(t.ast.ops[0], ast.IsNot) and const_value(t.ast.comparators[0], 0) is None and lab == 'T' \
                        and isinstance(r.ast.value, ast.Name) and unparse(t.ast.left) == r.ast.value.id:
                    by_presence = True
                    stored = [r]
    res.check(bool(stored) and by_presence, 'R-TABLE.read', f.fq, "a stored attribute is returned whenever the key is present (falsy values included)",
              fail_detail="the stored value is returned under a truthiness test, or not at all" if not by_presence else '', key='R-TABLE.read|stored')
    # 2. declared attribute -> None
    none_rets = [r for r in rets if isinstance(r.ast.value, ast.Constant) and r.ast.value.value is None]
    decl = False
    poss = False
    for r in none_rets:
        for t, lab in dom.guards_of(g, r):
            if t.kind != 'test' or lab != 'T':
                continue
            txt = unparse(t.ast)
            if isinstance(t.ast, ast.Compare) and isinstance(t.ast.ops[0], ast.In) and unparse(t.ast.left) == item:
                right = t.ast.comparators[0]
                src = unparse(right)
                if isinstance(right, ast.Name):
                    src = ' '.join(unparse(d.ast.value) for d in dom.assignments_to(g, right.id) if isinstance(d.ast, ast.Assign))
                if "'_'.join(attribute.name.split('-'))" in src and 'get_xsd_attributes()' in src or 'attributes' in src and "'_'.join" in src:
                    decl = True
            if 'self.possible_children_names' in txt and isinstance(t.ast, ast.Compare) and isinstance(t.ast.ops[0], ast.In):
                poss = True
    res.check(decl, 'R-TABLE.read', f.fq, "a declared but unset attribute reads as None", key='R-TABLE.read|declared')
    forelse = any(isinstance(n, ast.For) and n.orelse and unparse(n.iter).startswith('self.get_children(') for n in ast.walk(f.node))
    if not forelse:
        res.check(poss, 'R-TABLE.read', f.fq, "a possible but absent child reads as None", key='R-TABLE.read|possible-child')
    # 3. child present
    child_rets = [r for r in rets if isinstance(r.ast.value, ast.Name) and any(t.kind == 'for' and unparse(t.stmt.target) == r.ast.value.id and
                                                                              unparse(t.stmt.iter).startswith('self.get_children(') for t, lab in dom.guards_of(g, r))]
    if not child_rets and forelse:
        # the search is written as `for ... break / else: x = None` followed by one `return x` for both outcomes (a search helper returning the child or
        # None): which value is returned under which condition is not tabulated by this rule.  Say so, unless something decided above is already wrong.
        if not any(o.status == 'violated' and o.rule == 'R-TABLE.read' for o in res.obligations):
            raise AnalysisError(f"{f.fq}: the search among the present children is a for/else whose result is returned by one statement for both outcomes; "
                                "the read table is not tabulated for this form (idiom not understood)")
        return
    ok = False
    for r in child_rets:
        for t, lab in dom.guards_of(g, r):
            if t.kind == 'test' and lab == 'T' and isinstance(t.ast, ast.Compare) and isinstance(t.ast.ops[0], ast.Eq) and unparse(t.ast.left) == f"{r.ast.value.id}.name":
                ok = True
    res.check(ok, 'R-TABLE.read', f.fq, "a present child is returned (matched by its element name)", key='R-TABLE.read|child')
    gated = [r for r in child_rets if any(t.kind == 'test' and 'possible_children_names' in unparse(t.ast) for t, lab in dom.guards_of(g, r))]
    res.check(bool(child_rets) and not gated, 'R-TABLE.read', f.fq, "the search among the present children does not depend on the container listing the name (an unchecked "
              "element holds children its type does not list; find_child and to_string show them)",
              fail_detail='; '.join(f"line {r.line}: `{r.text()}` only under a test of possible_children_names" for r in gated[:2]), key='R-TABLE.read|child-ungated')
    # 4. no implicit fall-through: every normal exit is a return
    preds = [p for p, _ in g.pred[g.exit]]
    res.check(all(p.kind == 'return' for p in preds), 'R-TABLE.read', f.fq, "every other name ends in `raise AttributeError` (no silent None)",
              fail_detail='; '.join(p.text() for p in preds if p.kind != 'return'), key='R-TABLE.read|no-fallthrough')
    raises = [n for n in g.stmt_nodes() if n.kind == 'stmt' and isinstance(n.ast, ast.Raise)]
    res.check(bool(raises) and all('AttributeError' in unparse(r.ast) for r in raises), 'R-TABLE.read', f.fq, "the rejection is an AttributeError",
              key='R-TABLE.read|raise-type')
    res.check(len(rets) == len(stored) + len(none_rets) + len(child_rets), 'R-TABLE.read', f.fq, "no further return value exists",
              fail_detail='; '.join(short(r.ast) for r in rets), key='R-TABLE.read|other-returns')
