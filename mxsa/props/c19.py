"""C19 - misuse is reported with the documented exception types, silently otherwise (R-EFF io / escape, taint to subscripts,
discarded exception objects, R-EXH feasibility of unimplemented branches, eval closure)."""
import ast

from ..astutil import unparse, short, walk_local, dotted, const_value, norm_text
from ..cfg import cfg_of
from ..srcmodel import AnalysisError, FuncInfo
from ..xsdmodel import local, XS
from ..rules import tables as T
from ..rules import dom
from ..rules import exh
from ..engine import get_cg, get_effects
from ..effects import exc_is_subclass
from . import c03

ALLOWED_BASES = ('XSDException', 'XMLElementException', 'XMLChildContainerException', 'XMLChildContainerFactoryException', 'TypeError', 'ValueError')
ATTRIBUTE_ERROR_OWNERS = {'XMLElement.__getattr__', 'XMLElement.__setattr__'}


def entry_points(sm):
    xe = sm.get_class('XMLElement', T.M_XMLELEMENT)
    out = []
    for name, f in list(xe.methods.items()) + list(xe.setters.items()):
        if not name.startswith('_') or name in ('__init__', '__setattr__', '__getattr__', '__deepcopy__'):
            out.append(f)
    w = sm.func('XMLScorePartwise', 'write', T.M_XMLELEMENT)
    out.append(w)
    return out


def allowed(sm, exc: str, site_func: FuncInfo) -> bool:
    if any(exc_is_subclass(sm, exc, b) for b in ALLOWED_BASES):
        return True
    if exc == 'AttributeError' and site_func.qualname in ATTRIBUTE_ERROR_OWNERS:
        return True
    return False


def run(ctx):
    sm, sc, res = ctx.sm, ctx.schema, ctx.res
    cg = get_cg(ctx)
    ef = get_effects(ctx)
    res.assume("'never hangs' and RecursionError are not decided; implicit exceptions outside the catalogue (parameter-controlled subscripts, eval of schema-derived "
               "names, dereference of a dropped declaration) are not decided")
    entries = entry_points(sm)
    parser_entry = sm.func(None, 'parse_musicxml', T.M_PARSER)
    io_effects(ctx, cg, ef, entries + [parser_entry])
    escapes(ctx, cg, ef, entries)
    subscripts(ctx, cg, ef, entries)
    discarded_exceptions(ctx, cg, entries + [parser_entry])
    handler_argument_subscripts(ctx, cg, ef, entries)
    none_and_empty_guards(ctx)
    eval_closure(ctx)
    from . import c04
    c04.removal_is_total(ctx, ef)
    from . import c15
    c15.membership_gate(ctx)


# ---------------------------------------------------------------------------------------------- io
def io_effects(ctx, cg, ef, entries):
    sm, res = ctx.sm, ctx.res
    res.rule('R-EFF.io', "no output effect (print, sys.stdout/stderr, ET.dump, logging/warnings calls, breakpoint) is reachable from the public API, nor executed at import")
    hits, clo = ef.io_reachable(entries)
    for f, node, name in hits:
        path = cg.path(entries[0], lambda x: x is f) or []
        via = None
        for e in entries:
            p = cg.path(e, lambda x: x is f)
            if p is not None:
                via = (e, p)
                break
        chain = ' -> '.join([via[0].qualname] + [x.callee.qualname for x in via[1]]) if via else f.qualname
        res.finding('R-EFF.io', f.fq, f"`{short(node, 70)}` is not reachable from the public API", f"reached via {chain}",
                    key=f"R-EFF.io|{f.qualname}|{name}", line=node.lineno)
    if not hits:
        res.ok('R-EFF.io', 'public API closure', f"{len(clo)} functions reachable from {len(entries)} entry points: no output effect")
    # import-time statements of the closure's modules
    n_mod = 0
    for m in sm.modules.values():
        if not m.name.startswith('musicxml'):
            continue
        n_mod += 1
        for st in m.tree.body:
            if isinstance(st, (ast.FunctionDef, ast.ClassDef)):
                continue
            for c in ast.walk(st):
                if isinstance(c, ast.Call):
                    d = dotted(c.func) or ''
                    from ..effects import IO_CALLS
                    inside = False
                    if d in IO_CALLS:
                        # allowed only inside a redirect_stdout block
                        for w in ast.walk(st):
                            if isinstance(w, ast.With) and any('redirect_std' in unparse(i.context_expr) for i in w.items) and any(c is x for x in ast.walk(w)):
                                inside = True
                        if not inside:
                            res.finding('R-EFF.io', f"{m.relpath}::<module>", f"`{short(c, 70)}` does not run at import", key=f"R-EFF.io|import|{m.name}|{d}", line=c.lineno)
    res.ok('R-EFF.io', 'import-time code', f"{n_mod} modules of the closure: no output at import")
    # positive control: the detector must see the print() that exists in the third-party Tree.get_distance
    gd = sm.func('Tree', 'get_distance', 'verysimpletree.tree', required=False)
    if gd is not None:
        seen = bool(ef.local_io.get(gd))
        if not seen:
            raise AnalysisError("positive control failed: the io detector does not see the print() in verysimpletree Tree.get_distance")
        res.ok('R-EFF.io', gd.fq, "positive control: the detector sees this print(); it is outside the API closure", f"in closure: {gd in clo}")
        res.check(gd not in clo, 'R-EFF.io', gd.fq, "Tree.get_distance (which prints) is not reachable from the public API", key='R-EFF.io|Tree.get_distance')
    res.extra['api_closure_functions'] = len(clo)
    res.floor('R-EFF.io closure size', len(clo), 100)


# ---------------------------------------------------------------------------------------------- escape
def _escaping_to(cg, ef, site_func, node, exc, entries):
    """Entries the exception raised at (site_func, node) can escape to: backward propagation over call edges, minus handlers."""
    if ef.caught(site_func, node, exc):
        return []
    S = {site_func}
    work = [site_func]
    while work:
        h = work.pop()
        for e in cg.inn.get(h, []):
            g = e.caller
            if g in S:
                continue
            if ef.caught(g, e.node, exc):
                continue
            S.add(g)
            work.append(g)
    return [e for e in entries if e in S]


def _raise_condition(f, raise_node) -> str:
    """Identity of a raise site inside its function: the branch conditions it is taken under (local names replaced by
    placeholders), not the message - rewording a message does not detach a known finding, changing the condition does.
    Comparisons of one `len(...)` with integer constants are folded into the interval of counts they admit, so that
    `n == 0: F & n == 1: F` and `n > 1: T` are the same condition."""
    g = cfg_of(f.node)
    n = g.node_of_stmt.get(raise_node)
    if n is None:
        return 'raise'
    atoms = []
    lens = {}
    for t, lab in dom.guards_of(g, n):
        if t.kind != 'test':
            continue
        e = t.ast
        if isinstance(e, ast.Compare) and len(e.ops) == 1 and isinstance(e.comparators[0], ast.Constant) and isinstance(e.comparators[0].value, int) \
                and not isinstance(e.comparators[0].value, bool) and isinstance(e.left, ast.Call) and unparse(e.left.func) == 'len':
            key = norm_text(e.left, f.node, 60)
            lo, hi, holes = lens.setdefault(key, [0, None, set()])
            c = e.comparators[0].value
            op = type(e.ops[0])
            true = lab == 'T'
            # canonical operators in the CFG: ==, >, >=  (and their negations through the F label)
            if op is ast.Eq:
                if true:
                    lens[key][0], lens[key][1] = max(lo, c), c if hi is None else min(hi, c)
                else:
                    holes.add(c)
            elif op is ast.Gt:
                if true:
                    lens[key][0] = max(lo, c + 1)
                else:
                    lens[key][1] = c if hi is None else min(hi, c)
            elif op is ast.GtE:
                if true:
                    lens[key][0] = max(lo, c)
                else:
                    lens[key][1] = c - 1 if hi is None else min(hi, c - 1)
            else:
                atoms.append(f"{norm_text(e, f.node, 60)}:{lab}")
            continue
        if isinstance(e, ast.Attribute) and e.attr in ('xml_elements', '_xml_elements'):
            # truthiness of the leaf's element list: at least one / none
            key = norm_text(ast.Call(func=ast.Name(id='len', ctx=ast.Load()), args=[e], keywords=[]), f.node, 60)
            lo, hi, holes = lens.setdefault(key, [0, None, set()])
            if lab == 'T':
                lens[key][0] = max(lo, 1)
            else:
                lens[key][1] = 0 if hi is None else min(hi, 0)
            continue
        atoms.append(f"{norm_text(e, f.node, 60)}:{lab}")
    for key, (lo, hi, holes) in lens.items():
        while lo in holes:
            lo += 1
        while hi is not None and hi in holes:
            hi -= 1
        rest = sorted(h for h in holes if h > lo and (hi is None or h < hi))
        atoms.append(f"{key} in [{lo}, {'inf' if hi is None else hi}]" + (f" minus {rest}" if rest else ''))
    conds = sorted(atoms)
    return 'raise when ' + ' & '.join(conds) if conds else 'raise unconditionally'


def escapes(ctx, cg, ef, entries):
    sm, sc, res = ctx.sm, ctx.schema, ctx.res
    res.rule('R-EFF.escape', "every explicit raise that can escape a public entry point is of a documented class (XSD*/XMLElement*/XMLChildContainer* families, TypeError, "
             "ValueError, AttributeError from __getattr__/__setattr__), or is discharged mechanically: caught, or its path condition is unsatisfiable over the schema")
    clo = cg.closure(entries)
    n_sites = 0
    for f in sorted(clo, key=lambda x: x.fq):
        for r in ef.local_raises.get(f, []):
            n_sites += 1
            if allowed(sm, r.exc, f):
                continue
            reached = _escaping_to(cg, ef, f, r.node, r.exc, entries)
            if not reached:
                res.ok('R-EFF.escape', f.fq, f"`{short(r.node, 60)}` ({r.exc}) is caught before it reaches an entry point", line=r.node.lineno)
                continue
            ok, why = _discharge(ctx, cg, ef, f, r)
            key = f"R-EFF.escape|{r.exc}|{f.qualname}|{_raise_condition(f, r.node)}"
            if ok:
                res.ok('R-EFF.escape', f.fq, f"`{short(r.node, 60)}` ({r.exc}) cannot be reached: {why}", line=r.node.lineno)
            else:
                res.finding('R-EFF.escape', f.fq, f"`{short(r.node, 70)}` cannot escape a public call",
                            f"{r.exc} escapes {', '.join(e.qualname for e in reached[:3])}; {why}", key=key, line=r.node.lineno)
    res.extra['raise_sites_in_api_closure'] = n_sites
    res.floor('R-EFF.escape raise sites', n_sites, 40)


def _all_particles(ctx):
    sc = ctx.schema
    roots = [sc.main_root] + [T._safe_parse(t) for _, _, t in T.embedded_fragments(ctx.sm)]
    for r in roots:
        for n in r.iter():
            yield n


def _discharge(ctx, cg, ef, f, r):
    """Mechanical discharge arguments for raise sites of undocumented classes.  -> (discharged, explanation)"""
    sm, sc = ctx.sm, ctx.schema
    txt = unparse(r.node)
    q = f.qualname
    if r.exc == 'NotImplementedError':
        if q == '_convert_xsd_child_to_xsd_container':
            conv = f
            pop = sm.func('XMLChildContainer', '_populate_children', T.M_CONTAINER)
            holders = [n for n in _all_particles(ctx) if local(n.tag) in ('sequence', 'choice', 'element') or (local(n.tag) == 'group' and n.attrib.get('name'))]
            domain = {local(c.tag) for h in holders for c in h}
            filt = {c for op, c, _ in exh.tag_tests(pop.node) if op == '!='}
            handled = {k for k, (h, _, _) in exh.if_chain_cases(conv.node).items() if h}
            rest = domain - filt - handled
            return not rest, f"particle tags of the schema {sorted(domain - filt)} are all handled" if not rest else f"unhandled particle tags {sorted(rest)}"
        if q in ('_check_if_choice_requires_elements', '_check_if_sequence_requires_elements') and 'min_occurrence greater than 1' in txt:
            kind = 'choice' if 'choice' in q else 'sequence'
            bad = []
            for n in _all_particles(ctx):
                if local(n.tag) == kind or (kind == 'sequence' and local(n.tag) == 'group' and n.attrib.get('name')):
                    for c in n:
                        mn = c.attrib.get('minOccurs')
                        if mn is not None and mn not in ('0', '1'):
                            bad.append((n.attrib.get('name'), local(c.tag), mn))
            return not bad, f"every child of every {kind} in the schema has minOccurs in {{0, 1}}" if not bad else f"{kind} children with minOccurs > 1: {bad[:3]}"
        if q == '_check_if_choice_requires_elements':
            # `raise NotImplementedError(child)`: a choice leaf with minOccurs=1 holding more than one element
            hits = []
            for n in _all_particles(ctx):
                if local(n.tag) == 'choice':
                    for c in n:
                        if local(c.tag) == 'element' and c.attrib.get('minOccurs', '1') == '1' and c.attrib.get('maxOccurs', '1') != '1':
                            hits.append(c.attrib.get('name'))
            return not hits, ("no choice in the schema has a required element alternative that may repeat" if not hits else
                              f"satisfiable: choice leaves with minOccurs=1 and maxOccurs>1 exist ({sorted(set(hits))[:6]}); two such children are schema-valid")
        if q == '_check_if_container_requires_elements' or q == 'XMLChildContainer.get_leaves':
            # content kinds: the content setter admits exactly Sequence/Choice/Element/Group; leaves never reach the dispatcher
            cct = sm.func('XMLChildContainer', '_check_content_type', T.M_CONTAINER)
            kinds = set()
            for n in ast.walk(cct.node):
                if isinstance(n, ast.List):
                    kinds |= {unparse(e) for e in n.elts}
            handled = {unparse(c.args[1]) for c in ast.walk(f.node) if isinstance(c, ast.Call) and isinstance(c.func, ast.Name) and c.func.id == 'isinstance' and len(c.args) == 2}
            if q == 'XMLChildContainer.get_leaves':
                return kinds <= handled, f"content kinds admitted by the content setter {sorted(kinds)} are all handled"
            ok_calls, why = _dispatcher_never_gets_a_leaf(ctx, cg, f)
            return (kinds - {'XSDElement'}) <= handled and ok_calls, why
        return False, "no discharge argument is known for this site"
    if r.exc == 'ChildNotFoundError':
        # Tree.remove(child): every call site in the closure passes a child of the receiver
        bad = []
        for e in cg.inn.get(f, []):
            if e.caller.cls is not None and e.caller.cls.name in ('Tree', 'TestTree', 'TreeRepresentation'):
                continue
            if not isinstance(e.node, ast.Call) or not isinstance(e.node.func, ast.Attribute) or not e.node.args:
                bad.append(short(e.node))
                continue
            recv, arg = e.node.func.value, e.node.args[0]
            if not _is_parent_of(e.caller, recv, arg):
                bad.append(f"{e.caller.qualname}: {short(e.node)}")
        return not bad, "every call passes a child of the receiver (x.up.remove(x) / p = x.get_parent(); p.remove(x))" if not bad else f"premise not established at {bad[:2]}"
    if r.exc == 'AttributeError' and q == 'XSDTree._get_xsd_tree_class_name':
        bad = [n for n in _all_particles(ctx) if local(n.tag) == 'attributeGroup' and not (n.attrib.get('ref') or n.attrib.get('name'))]
        return not bad, "every attributeGroup node of the schema has @ref or @name"
    if r.exc == 'KeyError' and q == 'replace_key_underline_with_hyphen':
        return False, "reachable from every constructor: keyword arguments that differ only in `_` vs `-` collide"
    return False, "no discharge argument is known for this site"


def _is_parent_of(caller: FuncInfo, recv, arg) -> bool:
    a = unparse(arg)
    r = unparse(recv)
    if r in (f"{a}.up", f"{a}.get_parent()"):
        return True
    if isinstance(recv, ast.Name):
        for n in walk_local(caller.node, include_root=False):
            if isinstance(n, ast.Assign) and any(isinstance(t, ast.Name) and t.id == recv.id for t in n.targets):
                if unparse(n.value) in (f"{a}.get_parent()", f"{a}.up"):
                    return True
    return False


def _dispatcher_never_gets_a_leaf(ctx, cg, f):
    """Every call of _check_if_container_requires_elements(x) passes a non-leaf container: x is the else-branch of an
    isinstance(.., XSDElement) test, or is guarded by x.force_validate (only ever set on sequences), or is the root."""
    sm = ctx.sm
    bad = []
    for e in cg.inn.get(f, []):
        if not isinstance(e.node, ast.Call) or not e.node.args:
            continue
        arg = unparse(e.node.args[0])
        g = cfg_of(e.caller.node)
        node = None
        for n in g.stmt_nodes():
            if any(x is e.node for ex in n.exprs() for x in ast.walk(ex)):
                node = n
        if node is None:
            bad.append(short(e.node))
            continue
        ok = False
        for t, lab in dom.guards_of(g, node):
            if t.kind != 'test':
                continue
            tt = unparse(t.ast)
            base = arg.split('.get_children()')[0]
            if tt == f"isinstance({arg}.content, XSDElement)" and lab == 'F':
                ok = True
            if tt in (f"{arg}.force_validate", f"{arg}.force_validate is True", f"{base}.force_validate") and lab == 'T':
                ok = True
            if tt == f"isinstance({base}.content, XSDGroup)" and lab == 'T':
                ok = True
        if arg == 'self' and e.caller.qualname == 'XMLChildContainer.check_required_elements':
            ok = True      # the root container of a complex type is a sequence/choice/group (get_xsd_indicator)
        if arg.endswith('.get_children()[0]'):
            ok = True      # the single child of a group container is the group's sequence
        if not ok:
            bad.append(f"{e.caller.qualname}: {short(e.node)}")
    # force_validate is only ever set on sequences
    for fn in sm.functions:
        if fn.module.name != T.M_CONTAINER:
            continue
        g = cfg_of(fn.node)
        for n in g.stmt_nodes():
            if n.kind == 'stmt' and isinstance(n.ast, ast.Assign) and isinstance(n.ast.targets[0], ast.Attribute) and n.ast.targets[0].attr == '_force_validate':
                if isinstance(n.ast.value, ast.Constant) and n.ast.value.value is None:
                    continue
                recv = unparse(n.ast.targets[0].value)
                guards = [(unparse(t.ast), lab) for t, lab in dom.guards_of(g, n) if t.kind == 'test']
                seq = any(f"isinstance({recv}.content, XSDSequence)" in tt and lab == 'T' for tt, lab in guards)
                if recv == 'self' and fn.name == 'set_force_validate':
                    # callers: node.get_parent().set_force_validate(...) under isinstance(node.get_parent().content, XSDSequence)
                    seq = True
                    for e in cg.inn.get(fn, []):
                        g2 = cfg_of(e.caller.node)
                        cn = [x for x in g2.stmt_nodes() if any(y is e.node for ex in x.exprs() for y in ast.walk(ex))]
                        r2 = unparse(e.node.func.value) if isinstance(e.node, ast.Call) and isinstance(e.node.func, ast.Attribute) else ''
                        gs = [(unparse(t.ast), lab) for t, lab in dom.guards_of(g2, cn[0]) if t.kind == 'test'] if cn else []
                        if not any(tt == f"isinstance({r2}.content, XSDSequence)" and lab == 'T' for tt, lab in gs):
                            seq = False
                if not seq:
                    bad.append(f"{fn.qualname}: {short(n.ast)} is not restricted to sequence containers")
    return not bad, ("every caller passes a non-leaf container (else-branch of the XSDElement test, force_validate-guarded sequence, group child or root)"
                     if not bad else f"premise not established: {bad[:2]}")


# ---------------------------------------------------------------------------------------------- subscripts
def subscripts(ctx, cg, ef, entries):
    sm, res = ctx.sm, ctx.res
    res.rule('R-TAINT.subscript', "no index or key that derives from a parameter of a public entry point reaches a subscript without a range/membership test "
             "or an enclosing LookupError handler")
    clo = cg.closure(entries)
    # per function: parameters that reach an unguarded subscript locally
    sinks = {}      # (func, param index) -> (site func, node)
    for f in clo:
        params = f.params
        for n in walk_local(f.node, include_root=False):
            if isinstance(n, ast.Subscript) and isinstance(n.ctx, ast.Load) and isinstance(n.slice, ast.Name) and n.slice.id in params:
                if any(ef.caught(f, n, x) for x in ('IndexError', 'KeyError')):
                    continue
                if _range_guarded(f, n):
                    continue
                sinks.setdefault((f, params.index(n.slice.id)), (f, n))
    changed = True
    while changed:
        changed = False
        for e in cg.edges:
            if e.caller not in clo or not isinstance(e.node, ast.Call):
                continue
            callee = e.callee
            off = 1 if (callee.cls is not None and callee.parent is None and not callee.is_staticmethod and isinstance(e.node.func, ast.Attribute)) else 0
            binds = []
            for i, a in enumerate(e.node.args):
                binds.append((i + off, a))
            for kw in e.node.keywords:
                if kw.arg in callee.params:
                    binds.append((callee.params.index(kw.arg), kw.value))
            for j, a in binds:
                if (callee, j) in sinks and isinstance(a, ast.Name) and a.id in e.caller.params:
                    k = (e.caller, e.caller.params.index(a.id))
                    if k not in sinks and not any(ef.caught(e.caller, e.node, x) for x in ('IndexError', 'KeyError')):
                        sinks[k] = sinks[(callee, j)]
                        changed = True
    n = 0
    reported = set()
    for (f, i), (sf, node) in sorted(sinks.items(), key=lambda kv: kv[0][0].fq):
        if f not in entries:
            continue
        n += 1
        key = f"R-TAINT.subscript|{sf.qualname}|{f.qualname}({f.params[i]})"
        if key in reported:
            continue
        reported.add(key)
        res.finding('R-TAINT.subscript', sf.fq, f"`{short(node, 60)}` is not indexed by an unchecked caller-supplied value",
                    f"parameter `{f.params[i]}` of {f.qualname} reaches it: IndexError/KeyError escapes", key=key, line=node.lineno)
    if not reported:
        res.ok('R-TAINT.subscript', 'public API closure', f"{len(sinks)} parameter-indexed subscripts, none fed by an entry-point parameter")
    res.extra['parameter_indexed_subscripts'] = len(sinks)


def _range_guarded(f, sub: ast.Subscript) -> bool:
    g = cfg_of(f.node)
    node = None
    for n in g.stmt_nodes():
        if any(x is sub for ex in n.exprs() for x in ast.walk(ex)):
            node = n
    if node is None:
        return False
    name = sub.slice.id
    for t, lab in dom.guards_of(g, node):
        if t.kind == 'test':
            for c in ast.walk(t.ast):
                if isinstance(c, ast.Compare) and name in {x.id for x in ast.walk(c) if isinstance(x, ast.Name)} and \
                        isinstance(c.ops[0], (ast.Lt, ast.LtE, ast.Gt, ast.GtE, ast.In)) and ('len(' in unparse(c) or 'range(' in unparse(c) or isinstance(c.ops[0], ast.In)):
                    return True
    return False


# ---------------------------------------------------------------------------------------------- discarded exception objects
def discarded_exceptions(ctx, cg, entries):
    sm, res = ctx.sm, ctx.res
    res.rule('R-EXH.discarded', "no statement constructs an exception object without raising it (the error it stands for is silently skipped)")
    n = 0
    for f in sm.functions:
        if not f.module.name.startswith('musicxml'):
            continue
        for st in walk_local(f.node, include_root=False):
            if isinstance(st, ast.Expr) and isinstance(st.value, ast.Call):
                nm = unparse(st.value.func)
                if nm.endswith('Error') or nm.endswith('Exception'):
                    n += 1
                    res.finding('R-EXH.discarded', f.fq, f"`{short(st, 60)}` is raised, not dropped",
                                "the object is built and discarded; execution continues with the case unhandled", key=f"R-EXH.discarded|{f.qualname}|{nm}",
                                line=st.lineno)
    if n == 0:
        res.ok('R-EXH.discarded', 'runtime closure', "no discarded exception object")


# ---------------------------------------------------------------------------------------------- eval closure
def eval_closure(ctx):
    sm, sc, res = ctx.sm, ctx.schema, ctx.res
    res.irrelevant_prefixes += ['R-TAB.T6|ref-name', 'R-TAB.T6|ref-use', 'R-TAB.T6|ref-fragment']
    c03.run_attribute_part(ctx)     # attributeGroup / attribute-type eval sites, attribute references, declarations without type=
    # group refs
    res.rule('R-TAB.eval', "every name an eval() site can be asked for, over the schema-derived domain of its argument, is bound in that module's namespace")
    group_refs = sorted({n.attrib['ref'] for n in _all_particles(ctx) if local(n.tag) == 'group' and n.attrib.get('ref')})
    for mod in (T.M_CONTAINER, T.M_COMPLEX, T.M_IND):
        for gname in group_refs:
            cn = T.xsd_class_name(gname, 'group')
            r = sm.resolve_name(mod, cn)
            res.check(r is not None and r[0] == 'class', 'R-TAB.eval', f"{sm.modules[mod].relpath}::eval('XSDGroup'+...)", f"group ref '{gname}' resolves to {cn}",
                      key=f"R-TAB.eval|group|{mod}|{cn}")
    # element names -> classes in xmlelement's own namespace (xml_* shortcut) and in the parser's
    for mod in (T.M_XMLELEMENT, T.M_PARSER):
        missing = [T.xml_class_name(n) for n in sc.partwise_names() if not ((sm.resolve_name(mod, T.xml_class_name(n)) or (None,))[0] == 'class')]
        res.check(not missing, 'R-TAB.eval', f"{sm.modules[mod].relpath}::eval(<element class name>)", "every element name resolves to its class",
                  fail_detail=str(missing[:4]), key=f"R-TAB.eval|elements|{mod}")
    # complex-type names used by containers.py and complexContent bases
    m = sm.modules[T.M_CONTAINERS]
    allct = sm.modules[T.M_COMPLEX].all or []
    missing = [n for n in allct if not ((sm.resolve_name(T.M_CONTAINERS, n) or (None,))[0] == 'class')]
    res.check(not missing, 'R-TAB.eval', f"{m.relpath}::eval(ct)", "every name in xsdcomplextype.__all__ resolves in containers.py", fail_detail=str(missing[:4]),
              key='R-TAB.eval|containers')


# ---------------------------------------------------------------------------------------------- err.args[k] in handlers
def _types_always_lists(sm) -> bool:
    """Every _TYPES binding of the simple type classes is a list display (the shape guards of _check_value_type are dead)."""
    for c in sm.subclasses('XSDSimpleType'):
        if '_TYPES' in c.bindings and not isinstance(c.bindings['_TYPES'], ast.List):
            return False
    return True


def handler_argument_subscripts(ctx, cg, ef, entries):
    sm, res = ctx.sm, ctx.res
    res.rule('R-EFF.handler-args', "a handler that subscripts the caught exception's args (err.args[k]) only ever catches exceptions constructed with more than k "
             "arguments: a bare `raise X` reaching it would turn the rejection into an IndexError")
    clo = cg.closure(entries)
    n = 0
    for f in sorted(clo, key=lambda x: x.fq):
        if getattr(f, 'ctx_family', None):
            continue
        for t in [x for x in walk_local(f.node, include_root=False) if isinstance(x, ast.Try)]:
            for h in t.handlers:
                if not h.name:
                    continue
                ks = [const_value(sub.slice) for sub in ast.walk(h) if isinstance(sub, ast.Subscript) and unparse(sub.value) == f"{h.name}.args" and isinstance(const_value(sub.slice), int)]
                if not ks:
                    continue
                need = max(ks) + 1
                caught = ['*'] if h.type is None else ([unparse(x) for x in h.type.elts] if isinstance(h.type, ast.Tuple) else [unparse(h.type)])
                # callees of the try body and their closure
                callees = set()
                for b in t.body:
                    for c in ast.walk(b):
                        for ed in cg.by_node.get(c, []):
                            if ed.caller.node is f.node:
                                callees.add(ed.callee)
                sub_clo = cg.closure(list(callees))
                for g_ in sorted(sub_clo, key=lambda x: x.fq):
                    for r in ef.local_raises.get(g_, []):
                        if not any(cn in ('*', 'Exception') or exc_is_subclass(sm, r.exc, cn) for cn in caught):
                            continue
                        if not isinstance(r.node, ast.Raise) or r.node.exc is None:
                            continue
                        n += 1
                        nargs = len(r.node.exc.args) if isinstance(r.node.exc, ast.Call) else 0
                        if nargs >= need:
                            continue
                        # a short raise: is it dead?  (the shape guards on self._TYPES, given that every _TYPES binding is a list)
                        gg = cfg_of(g_.node)
                        rn = next((x for x in gg.stmt_nodes() if x.ast is r.node), None)
                        glabs = [(unparse(tt.ast), lab) for tt, lab in dom.guards_of(gg, rn) if tt.kind == 'test'] if rn is not None else []
                        guards = [gt for gt, _ in glabs]
                        from ..rules.atom import defensive_guard
                        # every _TYPES table is a list: under these facts, is the raise reachable at all?
                        facts = {'isinstance(self._TYPES, str)': False, 'self._TYPES == str': False, "hasattr(self._TYPES, '__iter__')": True}
                        dead = rn is not None and _types_always_lists(sm) and rn not in gg.reachable(gg.entry, edge_ok=gg.edge_filter_assuming(facts))
                        if not dead and defensive_guard(r):
                            res.assumed('R-EFF.handler-args', g_.fq, f"`{short(r.node, 40)}` is an internal shape guard of the tree infrastructure (assumed dead)", line=r.node.lineno)
                            continue
                        key = f"R-EFF.handler-args|{f.qualname}|{g_.qualname}|{norm_text(r.node, g_.node, 50)}|{'/'.join(guards)[:60]}"
                        if dead:
                            res.ok('R-EFF.handler-args', g_.fq, f"`{short(r.node, 40)}` (caught by {f.qualname}, which reads {h.name}.args[{need - 1}]) is dead: every _TYPES table is a list",
                                   line=r.node.lineno)
                        else:
                            res.finding('R-EFF.handler-args', g_.fq, f"`{short(r.node, 50)}` carries a message: {f.qualname} catches it and reads {h.name}.args[{need - 1}]",
                                        f"constructed with {nargs} argument(s); guards {guards}: IndexError ('tuple index out of range') instead of the rejection", key=key, line=r.node.lineno)
    res.extra['raise_sites_reaching_args_subscripts'] = n


# ---------------------------------------------------------------------------------------------- None / empty guards
def none_and_empty_guards(ctx):
    sm, res = ctx.sm, ctx.res
    res.rule('R-DOM.none-guard', "in the public element operations a dereference of the optional container (absent for types without child content) is dominated by a "
             "test of its existence; a subscript of a possibly empty match list is dominated by an emptiness test that raises; the replacement is type-checked "
             "before the first mutation")
    xe = sm.get_class('XMLElement', T.M_XMLELEMENT)
    n_deref = 0
    for name in ('add_child', 'get_children', '_final_checks', 'possible_children_names', 'to_string', 'remove', 'replace_child', 'find_child', 'find_children'):
        f = xe.methods.get(name)
        if f is None:
            continue
        g = cfg_of(f.node)
        for n in g.stmt_nodes():
            derefs = [x for e in n.exprs() for x in walk_local(e) if isinstance(x, ast.Attribute) and isinstance(x.value, ast.Attribute) and
                      unparse(x.value) in ('self._child_container_tree', 'self.child_container_tree')]
            if not derefs:
                continue
            n_deref += 1
            ok = False
            for t, lab in dom.guards_of(g, n):
                if t.kind != 'test':
                    continue
                txt = unparse(t.ast)
                if txt in ('self._child_container_tree', 'self.child_container_tree') and lab == 'T':
                    ok = True
                if txt in ('self._child_container_tree is None',) and lab == 'F':
                    ok = True
            res.check(ok, 'R-DOM.none-guard', f.fq, f"`{short(derefs[0], 60)}` is reached only when the container exists",
                      fail_detail="for an element type without child content the container is None: AttributeError on None instead of a documented rejection",
                      key=f"R-DOM.none-guard|container|{f.name}", line=n.line)
    res.floor('R-DOM.none-guard container dereferences', n_deref, 3)
    # add_child: the missing container is rejected with the documented exception
    f = xe.methods['add_child']
    g = cfg_of(f.node)
    rj = [n for n in g.stmt_nodes() if n.kind == 'stmt' and isinstance(n.ast, ast.Raise) and 'XMLElementCannotHaveChildrenError' in unparse(n.ast)]
    ok = any(any(t.kind == 'test' and ((unparse(t.ast) in ('self._child_container_tree', 'self.child_container_tree') and lab == 'F') or (unparse(t.ast) == 'self._child_container_tree is None' and lab == 'T')) for t, lab in dom.guards_of(g, r)) for r in rj)
    res.check(ok, 'R-DOM.none-guard', f.fq, "a checked element without a container rejects children with XMLElementCannotHaveChildrenError", key='R-DOM.none-guard|cannot-have-children')
    # replace_child: emptiness test before the subscript, type check before the first mutation
    f = xe.methods['replace_child']
    g = cfg_of(f.node)
    subs = [n for n in g.stmt_nodes() if any(isinstance(x, ast.Subscript) and isinstance(x.value, ast.Name) and isinstance(x.ctx, ast.Load) and
                                             any(isinstance(d.ast, ast.Assign) and isinstance(d.ast.value, ast.ListComp) for d in dom.assignments_to(g, x.value.id))
                                             for e in n.exprs() for x in walk_local(e))]
    for n in subs:
        x = [x for e in n.exprs() for x in walk_local(e) if isinstance(x, ast.Subscript) and isinstance(x.value, ast.Name) and isinstance(x.ctx, ast.Load) and
             any(isinstance(d.ast, ast.Assign) and isinstance(d.ast.value, ast.ListComp) for d in dom.assignments_to(g, x.value.id))][0]
        lst = x.value.id
        gate = [t for t in g.stmt_nodes() if t.kind == 'test' and ((unparse(t.ast) == lst and dom.branch_raises(g, t, 'F')) or
                                                                 (unparse(t.ast) == f"len({lst}) == 0" and dom.branch_raises(g, t, 'T')))]
        res.check(bool(gate) and g.path_avoiding(g.entry, n, avoid=gate) is None, 'R-DOM.none-guard', f.fq,
                  f"`{short(x, 40)}` is dominated by `if not {lst}: raise ValueError`", key='R-DOM.none-guard|empty-matches', line=n.line)
    new = f.params[2]
    tc = dom.nodes_calling(g, lambda c: unparse(c.func) == 'self._check_child_to_be_added' and [unparse(a) for a in c.args] == [new])
    muts = dom.list_mutation_nodes(g, 'self._unordered_children')
    res.check(bool(tc) and all(g.path_avoiding(g.entry, m, avoid=tc) is None for m in muts), 'R-DOM.none-guard', f.fq,
              "the replacement is type-checked (TypeError for a non-element) before the insertion list changes", key='R-DOM.none-guard|replace-type-check')
    ck = xe.methods.get('_check_child_to_be_added')
    ok = False
    if ck is not None:
        g2 = cfg_of(ck.node)
        for r in [n for n in g2.stmt_nodes() if n.kind == 'stmt' and isinstance(n.ast, ast.Raise) and 'TypeError' in unparse(n.ast)]:
            ok = ok or any(t.kind == 'test' and unparse(t.ast) == f"isinstance({ck.params[1]}, XMLElement)" and lab == 'F' for t, lab in dom.guards_of(g2, r))
    res.check(ok, 'R-DOM.none-guard', ck.fq if ck else xe.module.relpath, "a non-element is rejected with TypeError", key='R-DOM.none-guard|type-check-body')
    # a caller-supplied child is not dereferenced before something has checked that it is an element
    for fname, pidx in (('add_child', 1), ('replace_child', 2)):
        f = xe.methods.get(fname)
        if f is None or len(f.params) <= pidx:
            continue
        p = f.params[pidx]
        g = cfg_of(f.node)
        on = g.edge_filter_assuming({'self.xsd_check': True, 'self._xsd_check': True})
        gates = dom.nodes_calling(g, lambda c: isinstance(c.func, ast.Attribute) and c.func.attr in ('add_element', '_check_child_to_be_added') and c.args and unparse(c.args[0]) == p)
        derefs = [n for n in g.stmt_nodes() if any(isinstance(x, ast.Attribute) and isinstance(x.ctx, ast.Load) and isinstance(x.value, ast.Name) and x.value.id == p
                                                   for e in n.exprs() for x in ast.walk(e)) and n not in gates]
        def type_tested(n) -> bool:
            # the read sits under `isinstance(<p>, XMLElement)` [T]: it is taken only for an element
            return any(t.kind == 'test' and lab == 'T' and unparse(t.ast) == f"isinstance({p}, XMLElement)" for t, lab in dom.guards_of(g, n))
        bad = [n for n in derefs if g.path_avoiding(g.entry, n, avoid=gates, edge_ok=on) is not None and n in g.reachable(g.entry, edge_ok=on) and not type_tested(n)]
        res.check(not bad, 'R-DOM.none-guard', f.fq, f"under xsd_check the argument `{p}` is read (`{p}.<attr>`) only after its type was checked (add_element / _check_child_to_be_added)",
                  fail_detail='; '.join(f"line {n.line}: {n.text()[:70]}" for n in bad[:2]) + " - a non-element (None, str) fails with an internal AttributeError here",
                  key=f"R-DOM.none-guard|deref-before-type-check|{fname}")
