"""C03 - every element class is a faithful translation of its XSD declaration (R-TAB, R-EXH).
Two tables are compared row by row: the schema read by xsdmodel, and the class-level bindings in the
.py sources."""
import ast
import json
import os
import xml.etree.ElementTree as ET

from ..astutil import unparse, const_value, literal_str_list
from ..srcmodel import AnalysisError
from ..xsdmodel import Schema, local, ComplexType, SimpleType, XS
from ..automata import DFA, distinguishing_word
from ..rules import tables as T
from ..rules import exh
from .. import report

REFERENCE = os.path.join(report.VERIF, 'reference', 'schema-fingerprint.json')

# W3C definitions of the six built-ins the library re-models in xml.xsd (XML Schema Part 2, 2nd ed.,
# section 3.3; language pattern as amended by the 2nd edition / RFC 3066 form)
W3C_BUILTINS = {
    'NMTOKEN': ('xs:token', [r'\c+']),
    'Name': ('xs:token', [r'\i\c*']),
    'NCName': ('xs:Name', [r'[\i-[:]][\c-[:]]*']),
    'ID': ('xs:NCName', []),
    'IDREF': ('xs:NCName', []),
    'language': ('xs:token', [r'[a-zA-Z]{1,8}(-[a-zA-Z0-9]{1,8})*']),
}
XS_PRIMITIVES = {
    # xs: name -> (python class, expected python base class, expected own-or-inherited _TYPES)
    'integer': ('XSDSimpleTypeInteger', 'XSDSimpleType', ['int']),
    'nonNegativeInteger': ('XSDSimpleTypeNonNegativeInteger', 'XSDSimpleTypeInteger', ['int']),
    'positiveInteger': ('XSDSimpleTypePositiveInteger', 'XSDSimpleTypeInteger', ['int']),
    'decimal': ('XSDSimpleTypeDecimal', 'XSDSimpleType', ['float', 'int']),
    'string': ('XSDSimpleTypeString', 'XSDSimpleType', ['str']),
    'token': ('XSDSimpleTypeToken', 'XSDSimpleTypeString', ['str']),
    'date': ('XSDSimpleTypeDate', 'XSDSimpleTypeString', ['str']),
    'anyURI': ('XSDSimpleTypeAnyURI', 'XSDSimpleTypeString', ['str']),
}


def _class_types(cls):
    b = cls.lookup_binding('_TYPES')
    if not b:
        return None
    v = b[1]
    if isinstance(v, ast.List):
        return [unparse(e) for e in v.elts]
    return None


def run(ctx):
    sm, sc, res = ctx.sm, ctx.schema, ctx.res
    res.assume("the pinned copy of musicxml_4_0.xsd (fingerprint in reference/schema-fingerprint.json) stands in for "
               "the MusicXML 4.0 standard, which is not available offline")
    res.assume("only the *description* handed to the matcher is compared with the schema; the matcher's run-time "
               "acceptance of words is not decided (see C02 in DESIGN.md section 5)")
    T.check_naming_functions(sm, res, ctx.schema)

    m_el = sm.modules[T.M_XMLELEMENT]
    ns_el = sm.namespace(T.M_XMLELEMENT)

    # ------------------------------------------------------------------ T1 names
    res.rule('R-TAB.T1', "name -> class: the naming rule is injective on the partwise element names, each name has exactly "
             "one class derived from XMLElement, __all__ lists exactly those classes")
    names = sc.partwise_names()
    by_class = {}
    for n in names:
        by_class.setdefault(T.xml_class_name(n), []).append(n)
    for cn, ns in by_class.items():
        res.check(len(ns) == 1, 'R-TAB.T1', f"{m_el.relpath}::{cn}", "naming rule injective",
                  f"names {ns} collide on {cn}", key=f"R-TAB.T1|collision|{cn}")
    el_classes = {c.name: c for c in T.direct_subclasses(sm, T.M_XMLELEMENT, 'XMLElement')}
    dups = T.duplicate_classdefs(sm, T.M_XMLELEMENT)
    for d in dups:
        res.finding('R-TAB.T1', f"{m_el.relpath}::{d}", "class defined more than once (the later definition wins)",
                    key=f"R-TAB.T1|duplicate-class|{d}")
    for n in names:
        cn = T.xml_class_name(n)
        res.check(cn in el_classes, 'R-TAB.T1', f"{m_el.relpath}::{cn}", f"element '{n}' has a class",
                  fail_detail="no class of that name derives from XMLElement", key=f"R-TAB.T1|missing-class|{cn}")
    allv = m_el.all
    if allv is None:
        res.finding('R-TAB.T1', f"{m_el.relpath}::__all__", "__all__ is a literal list of names", key='R-TAB.T1|__all__|shape')
    else:
        exp = {T.xml_class_name(n) for n in names}
        for x in sorted(exp - set(allv)):
            res.finding('R-TAB.T1', f"{m_el.relpath}::__all__", f"{x} is exported (the parser resolves tags through __all__)",
                        "missing from __all__", key=f"R-TAB.T1|__all__|missing|{x}")
        for x in sorted(set(allv) - exp):
            if x not in el_classes:
                res.finding('R-TAB.T1', f"{m_el.relpath}::__all__", f"__all__ entry {x} names an element class",
                            "no such class", key=f"R-TAB.T1|__all__|dangling|{x}")
        res.ok('R-TAB.T1', f"{m_el.relpath}::__all__", f"__all__ has {len(allv)} entries, {len(exp)} expected")
    # which names do the classes claim (XSD_TREE key)?
    claimed = {}
    el_rows = {}
    for cn, c in el_classes.items():
        tb = T.parse_tree_binding(c.bindings.get('XSD_TREE'))
        ty = c.bindings.get('TYPE')
        sfe = c.bindings.get('_SEARCH_FOR_ELEMENT')
        el_rows[cn] = (tb, unparse(ty) if ty is not None else None, const_value(sfe) if sfe is not None else None)
        if tb and tb[0] == 'dict':
            claimed.setdefault(tb[2], []).append(cn)
    for key, cls_list in claimed.items():
        res.check(len(cls_list) == 1, 'R-TAB.T1', f"{m_el.relpath}::{cls_list[0]}", f"exactly one class is bound to element '{key}'",
                  fail_detail=f"classes {cls_list}", key=f"R-TAB.T1|two-classes|{key}")

    # ------------------------------------------------------------------ T2 / T3 element rows
    res.rule('R-TAB.T2', "TYPE of every element class is the class the naming rule gives for the declared type (complex if a "
             "named complex type exists, else simple); anonymous types are located by evaluating the XPath literal")
    res.rule('R-TAB.T3', "the literal key of XSD_TREE/_XSD_TREE equals the schema name the class name stands for")
    decl_type = {}
    for d in sc.partwise_decls():
        decl_type.setdefault(d.name, set()).add((d.type, d.anonymous is not None))
    for n, ts in decl_type.items():
        res.check(len(ts) == 1, 'R-TAB.T1', f"musicxml_4_0.xsd::element[{n}]",
                  "all declarations of one element name agree on the type (XSD_TREE_DICT keeps the last one)",
                  fail_detail=str(sorted(map(str, ts))), key=f"R-TAB.T1|conflicting-decl|{n}")
    anon_expected = {'score-partwise': ('XSDComplexTypeScorePartwise', 'score-partwise'),
                     'part': ('XSDComplexTypePart', 'score-partwise/part'),
                     'measure': ('XSDComplexTypeMeasure', 'score-partwise/part/measure'),
                     'directive': ('XSDComplexTypeDirective', 'attributes/directive')}
    pairs = 0
    for n in names:
        cn = T.xml_class_name(n)
        if cn not in el_classes:
            continue
        tb, ty, sfe = el_rows[cn]
        where = f"{m_el.relpath}::{cn}"
        res.check(bool(tb) and tb[0] == 'dict' and tb[1] == 'element' and tb[2] == n, 'R-TAB.T3', where,
                  f"XSD_TREE is XSD_TREE_DICT['element']['{n}']", fail_detail=f"found {unparse(el_classes[cn].bindings.get('XSD_TREE'))}",
                  key=f"R-TAB.T3|element|{cn}")
        (tname, anon), = list(decl_type[n])[:1]
        if anon:
            exp_cls = anon_expected.get(n, (None, None))[0]
        elif tname in sc.complex_types:
            exp_cls = T.xsd_class_name(tname, 'complex_type')
        else:
            exp_cls = T.xsd_class_name(tname, 'simple_type')
        ok = ty == exp_cls
        # the name must resolve in the module namespace to the class of that name
        r = sm.resolve_name(T.M_XMLELEMENT, ty) if ty else None
        ok = ok and r is not None and r[0] == 'class'
        res.check(ok, 'R-TAB.T2', where, f"TYPE = {exp_cls} (schema type '{tname if not anon else 'anonymous'}')",
                  fail_detail=f"found {ty}", key=f"R-TAB.T2|{cn}")
        pairs += 1
    # anonymous types: XPath literals
    for n, (clsname, label) in anon_expected.items():
        c = sm.get_class(clsname, T.M_COMPLEX)
        if c is None:
            res.finding('R-TAB.T2', f"{T.M_COMPLEX}::{clsname}", "hand-written class for the anonymous type exists",
                        key=f"R-TAB.T2|anon-class|{clsname}")
            continue
        xp = const_value(c.bindings.get('_SEARCH_FOR_ELEMENT')) if c.bindings.get('_SEARCH_FOR_ELEMENT') is not None else None
        target = sc.anon_complex_types[label].node
        found = sc.find(xp) if isinstance(xp, str) and xp else None
        res.check(found is target, 'R-TAB.T2', f"{c.module.relpath}::{clsname}",
                  f"_SEARCH_FOR_ELEMENT selects the anonymous complexType of {label}",
                  fail_detail=f"XPath {xp!r} selects {None if found is None else (local(found.tag), found.attrib.get('name'))}",
                  key=f"R-TAB.T2|xpath|{clsname}")
        res.check('_XSD_TREE' not in c.bindings, 'R-TAB.T2', f"{c.module.relpath}::{clsname}",
                  "no _XSD_TREE binding shadows the XPath lookup", key=f"R-TAB.T2|xpath-shadow|{clsname}")
    # extra_elements XPaths in xsdtree.py
    m_tree = sm.modules[T.M_TREE]
    extra = m_tree.assigns.get('extra_elements')
    exp_extra = {'score-partwise': [], 'part': [('element', 'score-partwise')],
                 'measure': [('element', 'score-partwise'), ('element', 'part')],
                 'directive': [('complexType', 'attributes')]}
    got_extra = {}
    if isinstance(extra, ast.Dict):
        for k, v in zip(extra.keys, extra.values):
            if isinstance(v, ast.Dict):
                for kk, vv in zip(v.keys, v.values):
                    if const_value(kk) == 'search_for':
                        got_extra[const_value(k)] = const_value(vv)
    for n, path in exp_extra.items():
        decls = [d for d in sc.element_decls if d.name == n and d.path == path]
        target = decls[0].node if decls else None
        xp = got_extra.get(n)
        found = sc.find(xp) if xp else None
        res.check(target is not None and found is target, 'R-TAB.T2', f"{m_tree.relpath}::extra_elements[{n}]",
                  f"override XPath selects the partwise declaration of '{n}'", fail_detail=f"XPath {xp!r}",
                  key=f"R-TAB.T2|extra|{n}")
    for n in sorted(set(got_extra) - set(exp_extra)):
        res.finding('R-TAB.T2', f"{m_tree.relpath}::extra_elements[{n}]", "no unexpected element override",
                    key=f"R-TAB.T2|extra-unexpected|{n}")
    # last-declaration-wins: for names declared several times, the node XSD_TREE_DICT keeps must carry the same type
    res.extra['element_rows'] = pairs

    # ------------------------------------------------------------------ T4 complex types
    res.rule('R-TAB.T4', "every named complex type has one class bound to it; _SIMPLE_CONTENT is the class of "
             "simpleContent/extension@base (or None); base class is XSDComplexType")
    m_ct = sm.modules[T.M_COMPLEX]
    ct_classes = {c.name: c for c in T.direct_subclasses(sm, T.M_COMPLEX, 'XSDComplexType')}
    for d in T.duplicate_classdefs(sm, T.M_COMPLEX):
        res.finding('R-TAB.T4', f"{m_ct.relpath}::{d}", "class defined more than once", key=f"R-TAB.T4|duplicate-class|{d}")
    embedded_ct = {}
    for tname, ct in sc.complex_types.items():
        cn = T.xsd_class_name(tname, 'complex_type')
        where = f"{m_ct.relpath}::{cn}"
        c = ct_classes.get(cn)
        if not res.check(c is not None, 'R-TAB.T4', where, f"complex type '{tname}' has a class",
                         key=f"R-TAB.T4|missing-class|{cn}"):
            continue
        res.check([b.name for b in c.bases] == ['XSDComplexType'], 'R-TAB.T4', where, "base class is XSDComplexType",
                  fail_detail=str([b.name for b in c.bases]), key=f"R-TAB.T4|base|{cn}")
        tb = T.parse_tree_binding(c.bindings.get('_XSD_TREE'))
        if tb and tb[0] == 'embedded':
            embedded_ct[tname] = (c, tb[1])
            res.ok('R-TAB.T3', where, "_XSD_TREE is an embedded fragment (compared component-wise under T5)")
        else:
            res.check(bool(tb) and tb[0] == 'dict' and tb[1] == 'complexType' and tb[2] == tname, 'R-TAB.T3', where,
                      f"_XSD_TREE is XSD_TREE_DICT['complexType']['{tname}']",
                      fail_detail=f"found {unparse(c.bindings.get('_XSD_TREE'))}", key=f"R-TAB.T3|complexType|{cn}")
        sc_exp = T.xsd_class_name(ct.simple_base, 'simple_type') if ct.simple_base else 'None'
        sc_got = unparse(c.bindings['_SIMPLE_CONTENT']) if '_SIMPLE_CONTENT' in c.bindings else 'None'
        res.check(sc_got == sc_exp, 'R-TAB.T4', where, f"_SIMPLE_CONTENT = {sc_exp}", fail_detail=f"found {sc_got}",
                  key=f"R-TAB.T4|simple-content|{cn}")
        if ct.simple_base:
            r = sm.resolve_name(T.M_COMPLEX, sc_got)
            res.check(r is not None and r[0] == 'class', 'R-TAB.T4', where, f"{sc_got} resolves to a class",
                      key=f"R-TAB.T4|simple-content-resolves|{cn}")
    # anonymous: directive has simple content xs:string
    for n, (clsname, label) in anon_expected.items():
        c = sm.get_class(clsname, T.M_COMPLEX)
        if c is None:
            continue
        ct = sc.anon_complex_types[label]
        sc_exp = T.xsd_class_name(ct.simple_base, 'simple_type') if ct.simple_base else 'None'
        sc_got = unparse(c.bindings['_SIMPLE_CONTENT']) if '_SIMPLE_CONTENT' in c.bindings else 'None'
        res.check(sc_got == sc_exp, 'R-TAB.T4', f"{m_ct.relpath}::{clsname}", f"_SIMPLE_CONTENT = {sc_exp}",
                  fail_detail=f"found {sc_got}", key=f"R-TAB.T4|simple-content|{clsname}")
    exp_ct = {T.xsd_class_name(t, 'complex_type') for t in sc.complex_types} | {v[0] for v in anon_expected.values()}
    if m_ct.all is not None:
        for x in sorted(exp_ct - set(m_ct.all)):
            res.finding('R-TAB.T4', f"{m_ct.relpath}::__all__", f"{x} is exported (containers and star imports go through __all__)",
                        key=f"R-TAB.T4|__all__|missing|{x}")
        res.check(m_ct.all[:1] == ['XSDComplexType'], 'R-TAB.T4', f"{m_ct.relpath}::__all__",
                  "first entry is the abstract base (containers.py skips __all__[0])", key="R-TAB.T4|__all__|first")
    for x in sorted(set(ct_classes) - exp_ct):
        res.finding('R-TAB.T4', f"{m_ct.relpath}::{x}", "class corresponds to a complex type of the schema",
                    key=f"R-TAB.T4|unexpected-class|{x}")

    # ------------------------------------------------------------------ T5 content models
    res.rule('R-TAB.T5', "embedded schema fragments describe the same content model (DFA equivalence) and the same "
             "attribute table as the schema component they replace")
    res.rule('R-EXH.particles', "the functions that turn particles into containers handle every particle shape the "
             "schema contains")
    for tname, (c, txt) in embedded_ct.items():
        where = f"{c.module.relpath}::{c.name}"
        node = T.parse_embedded(txt, where)
        res.check(local(node.tag) == 'complexType' and node.attrib.get('name') == tname, 'R-TAB.T5', where,
                  f"embedded fragment is complexType '{tname}'", key=f"R-TAB.T5|embedded-head|{c.name}")
        emb = ComplexType(tname, node, sc)
        ref = sc.complex_types[tname]
        try:
            da, db = DFA(emb.particle()), DFA(ref.particle())
        except ValueError as e:
            raise AnalysisError(f"{where}: {e}")
        w = distinguishing_word(da, db)
        res.check(w is None, 'R-TAB.T5', where,
                  f"content model of the embedded '{tname}' is language-equivalent to the schema's "
                  f"({len(da.states)} vs {len(db.states)} DFA states)",
                  fail_detail=f"shortest distinguishing word: {w} (embedded accepts: {da.accepts(w) if w is not None else ''})",
                  key=f"R-TAB.T5|language|{c.name}")
        ea = [a.row() for a in emb.attributes()]
        ra = [a.row() for a in ref.attributes()]
        res.check(sorted(map(str, ea)) == sorted(map(str, ra)), 'R-TAB.T5', where, "attribute table of the embedded fragment equals the schema's",
                  fail_detail=f"only embedded: {sorted(set(map(str, ea)) - set(map(str, ra)))}; only schema: {sorted(set(map(str, ra)) - set(map(str, ea)))}",
                  key=f"R-TAB.T5|attributes|{c.name}")
        # element types inside the embedded fragment must equal the schema's (leaf name -> type)
        et = sorted({(p.name, p.type) for p in emb.particle().leaves()})
        rt = sorted({(p.name, p.type) for p in ref.particle().leaves()})
        res.check(et == rt, 'R-TAB.T5', where, "leaf (name, type) pairs of the embedded fragment equal the schema's",
                  fail_detail=f"diff {sorted(set(et) ^ set(rt))}", key=f"R-TAB.T5|leaf-types|{c.name}")
        res.extra.setdefault('automata', []).append({'type': tname, 'dfa_states_embedded': len(da.states),
                                                     'dfa_states_schema': len(db.states), 'equivalent': w is None})
    res.floor('R-TAB.T5 embedded complex types', len(embedded_ct), 1)
    # duplication sequence literal: an empty sequence
    dup = sm.get_class('DuplicationXSDSequence', T.M_CONTAINER)
    if dup is None:
        raise AnalysisError("anchor DuplicationXSDSequence vanished")
    txt = const_value(dup.bindings.get('sequence_xsd'))
    node = T.parse_embedded(txt, 'DuplicationXSDSequence.sequence_xsd') if isinstance(txt, str) else None
    res.check(node is not None and local(node.tag) == 'sequence' and len(list(node)) == 0 and not node.attrib,
              'R-TAB.T5', f"{dup.module.relpath}::DuplicationXSDSequence", "duplication wrapper is an empty plain sequence",
              key="R-TAB.T5|duplication-sequence")
    exh.check_particle_dispatch(ctx)

    # every group@ref resolves via the eval naming rule to an exported class bound to that group
    res.rule('R-TAB.eval', "every name an eval() site can be asked for, over the schema-derived domain of its argument, is bound "
             "in that module's namespace (star imports x __all__) to the class for that component")
    m_ind = sm.modules[T.M_IND]
    grp_classes = {c.name: c for c in T.direct_subclasses(sm, T.M_IND, 'XSDGroup')}
    for g in sc.groups:
        cn = T.xsd_class_name(g, 'group')
        where = f"{m_ind.relpath}::{cn}"
        c = grp_classes.get(cn)
        if not res.check(c is not None, 'R-TAB.T3', where, f"group '{g}' has a class", key=f"R-TAB.T3|missing-group-class|{cn}"):
            continue
        tb = T.parse_tree_binding(c.bindings.get('XSD_TREE'))
        res.check(bool(tb) and tb[0] == 'dict' and tb[1] == 'group' and tb[2] == g, 'R-TAB.T3', where,
                  f"XSD_TREE is XSD_TREE_DICT['group']['{g}']", fail_detail=f"found {unparse(c.bindings.get('XSD_TREE'))}",
                  key=f"R-TAB.T3|group|{cn}")
    group_refs = sorted({n.attrib['ref'] for n in sc.main_root.iter(XS + 'group') if n.attrib.get('ref')}
                        | {n.attrib['ref'] for _, _, t in T.embedded_fragments(sm)
                           for n in _safe_parse(t).iter(XS + 'group') if n.attrib.get('ref')})
    for mod in (T.M_CONTAINER, T.M_COMPLEX, T.M_IND):
        for g in group_refs:
            cn = T.xsd_class_name(g, 'group')
            r = sm.resolve_name(mod, cn)
            res.check(r is not None and r[0] == 'class' and r[1].name == cn and g in sc.groups, 'R-TAB.eval',
                      f"{sm.modules[mod].relpath}::eval('XSDGroup'+...)", f"group ref '{g}' resolves to {cn} in {mod}",
                      key=f"R-TAB.eval|group|{mod}|{cn}")
    # no complexContent/extension adds particles (get_xsd_indicator delegates to the base only)
    for label, ct in sc.all_complex_types().items():
        if ct.content_shape == 'complexContent':
            res.check(not ct.extension_has_particles, 'R-EXH.particles', f"musicxml_4_0.xsd::complexType[{label}]",
                      "complexContent/extension adds attributes only (the library takes the particle of the base type)",
                      key=f"R-EXH.particles|extension-particles|{label}")
            res.check(ct.complex_base in sc.complex_types, 'R-EXH.particles', f"musicxml_4_0.xsd::complexType[{label}]",
                      "extension base is a named complex type", key=f"R-EXH.particles|extension-base|{label}")

    # ------------------------------------------------------------------ T6 attribute tables
    _attribute_tables(ctx, el_classes, names, decl_type, anon_expected, embedded_ct)

    # ------------------------------------------------------------------ T7 simple types
    _simple_types(ctx)

    # ------------------------------------------------------------------ T8 fingerprint
    res.rule('R-TAB.T8', "the schema copy the library loads equals, component by component (annotations, whitespace and "
             "attribute order ignored; particle order kept), the pinned reference fingerprint")
    if not os.path.isfile(REFERENCE):
        raise AnalysisError(f"{REFERENCE} is missing (it is generated once, deliberately, by tools/make_fingerprint.py)")
    with open(REFERENCE, encoding='utf-8') as f:
        ref = json.load(f)['components']
    fp = sc.fingerprint()
    bad = 0
    for k in sorted(set(ref) | set(fp)):
        if ref.get(k) != fp.get(k):
            bad += 1
            what = 'changed' if k in ref and k in fp else ('added' if k in fp else 'removed')
            res.finding('R-TAB.T8', k.replace(':', '::', 1), f"schema component equals the pinned MusicXML 4.0 component", what,
                        key=f"R-TAB.T8|{k}")
    if not bad:
        res.ok('R-TAB.T8', 'musicxml_4_0.xsd + xml.xsd', f"{len(fp)} top-level components equal the reference")
    res.extra['schema_components'] = len(fp)
    for name, (base, pats) in W3C_BUILTINS.items():
        st = sc.builtin_simple_types.get(name)
        where = f"xml.xsd::simpleType[{name}]"
        if not res.check(st is not None, 'R-TAB.T8', where, "re-modelled built-in exists", key=f"R-TAB.T8|builtin-missing|{name}"):
            continue
        res.check(st.base == base and st.patterns == pats, 'R-TAB.T8', where,
                  f"equals the W3C definition (base {base}, pattern {pats})",
                  fail_detail=f"found base {st.base}, pattern {st.patterns}", key=f"R-TAB.T8|builtin|{name}")
    res.extra['programs'] = len(el_classes) + len(ct_classes) + len(grp_classes)
    res.extra['counts'] = {'partwise_element_names': len(names), 'element_declarations': len(sc.element_decls),
                           'element_classes': len(el_classes), 'complex_types': len(sc.complex_types),
                           'anonymous_complex_types_partwise': 4, 'groups': len(sc.groups),
                           'attribute_groups': len(sc.attribute_groups), 'simple_types': len(sc.simple_types),
                           'builtin_simple_types': len(sc.builtin_simple_types)}
    res.floor('R-TAB element classes', len(el_classes), 441)
    res.floor('R-TAB complex type classes', len(ct_classes), 228)


def _safe_parse(txt):
    try:
        return ET.fromstring(txt)
    except ET.ParseError:
        return ET.Element('x')


def _attribute_tables(ctx, el_classes, names, decl_type, anon_expected, embedded_ct):
    sm, sc, res = ctx.sm, ctx.schema, ctx.res
    res.rule('R-TAB.T6', "attribute tables: every attributeGroup ref and attribute type resolves through the naming rule to an "
             "exported class bound to that component; references (ref=) are handled and keep the schema's qualified name, "
             "type and use; no table has a duplicate name; the kwarg map _ -> - is injective")
    res.rule('R-EXH.attributes', "get_xsd_attributes handles the three content shapes x {attribute, attributeGroup}; "
             "XSDAttribute handles every attribute declaration shape the schema contains")
    m_at = sm.modules[T.M_ATTR]
    ag_classes = {c.name: c for c in T.direct_subclasses(sm, T.M_ATTR, 'XSDAttributeGroup')}
    for g in sc.attribute_groups:
        cn = T.xsd_class_name(g, 'attribute_group')
        where = f"{m_at.relpath}::{cn}"
        c = ag_classes.get(cn)
        if not res.check(c is not None, 'R-TAB.T3', where, f"attributeGroup '{g}' has a class", key=f"R-TAB.T3|missing-ag-class|{cn}"):
            continue
        tb = T.parse_tree_binding(c.bindings.get('XSD_TREE'))
        res.check(bool(tb) and tb[0] == 'dict' and tb[1] == 'attributeGroup' and tb[2] == g, 'R-TAB.T3', where,
                  f"XSD_TREE is XSD_TREE_DICT['attributeGroup']['{g}']", fail_detail=f"found {unparse(c.bindings.get('XSD_TREE'))}",
                  key=f"R-TAB.T3|attributeGroup|{cn}")
        res.check('_XSD_ATTRIBUTES' not in c.bindings or unparse(c.bindings['_XSD_ATTRIBUTES']) == 'None', 'R-TAB.T6', where,
                  "no pre-filled attribute table overrides the schema-derived one", key=f"R-TAB.T6|prefilled|{cn}")
    # attributeGroup refs: where are they evaluated? in xsdcomplextype (complex types) and xsdattribute (nested groups)
    ag_refs_ct = set()
    for label, ct in sc.all_complex_types().items():
        ag_refs_ct |= {i for k, i in ct.own_attr_items if k == 'attributeGroup'}
    for tname, (c, txt) in embedded_ct.items():
        ag_refs_ct |= {n.attrib['ref'] for n in _safe_parse(txt).iter(XS + 'attributeGroup') if n.attrib.get('ref')}
    ag_refs_ag = set()
    for g in sc.attribute_groups:
        ag_refs_ag |= {i for k, i in sc.attribute_group_items(g) if k == 'attributeGroup'}
    for mod, refs in ((T.M_COMPLEX, ag_refs_ct), (T.M_ATTR, ag_refs_ag)):
        for g in sorted(refs):
            cn = T.xsd_class_name(g, 'attribute_group')
            r = sm.resolve_name(mod, cn)
            res.check(r is not None and r[0] == 'class' and r[1].name == cn and g in sc.attribute_groups, 'R-TAB.eval',
                      f"{sm.modules[mod].relpath}::eval(child.xsd_element_class_name)", f"attributeGroup ref '{g}' resolves to {cn} in {mod}",
                      key=f"R-TAB.eval|attributeGroup|{mod}|{cn}")
    # complexContent extension bases are eval'ed in xsdcomplextype
    for label, ct in sc.all_complex_types().items():
        if ct.complex_base:
            cn = T.xsd_class_name(ct.complex_base, 'complex_type')
            r = sm.resolve_name(T.M_COMPLEX, cn)
            res.check(r is not None and r[0] == 'class', 'R-TAB.eval', f"{sm.modules[T.M_COMPLEX].relpath}::eval(extension base)",
                      f"extension base '{ct.complex_base}' resolves to {cn}", key=f"R-TAB.eval|extension-base|{cn}")
    exh.check_attribute_dispatch(ctx)

    # per type: resolved table
    all_attr_names = set()
    type_tables = {}
    for label, ct in sc.all_complex_types().items():
        if label.startswith('score-timewise'):
            continue
        attrs = ct.attributes()
        type_tables[label] = attrs
        seen = {}
        for a in attrs:
            all_attr_names.add(a.name)
            if a.name in seen:
                res.finding('R-TAB.T6', f"musicxml_4_0.xsd::complexType[{label}]", f"attribute '{a.name}' is declared once",
                            key=f"R-TAB.T6|duplicate-attr|{label}|{a.name}")
            seen[a.name] = a
    # attribute types resolve in xsdattribute's namespace (XSDAttribute.type_ evals there)
    tnames = set()
    for label, attrs in type_tables.items():
        for a in attrs:
            if a.type:
                tnames.add(a.type)
    for t in sorted(tnames):
        cn = T.xsd_class_name(t, 'simple_type')
        r = sm.resolve_name(T.M_ATTR, cn)
        bare = t.split(':')[-1]
        known = (bare in sc.simple_types) or (bare in sc.builtin_simple_types) or (t.startswith('xs:') and bare in XS_PRIMITIVES)
        res.check(r is not None and r[0] == 'class' and known, 'R-TAB.eval', f"{m_at.relpath}::XSDAttribute.type_",
                  f"attribute type '{t}' resolves to {cn}", key=f"R-TAB.eval|attr-type|{cn}")
    # kwarg map: '_' -> '-' must be injective on each table and no name contains '_'
    for n in sorted(all_attr_names):
        res.check('_' not in n, 'R-TAB.T6', f"attribute '{n}'", "name contains no underscore (kwargs map _ to -)",
                  key=f"R-TAB.T6|underscore|{n}")
    for label, attrs in type_tables.items():
        hy = {}
        for a in attrs:
            hy.setdefault(a.name.split(':')[-1], set()).add(a.name)
        for k, v in hy.items():
            if len(v) > 1:
                res.finding('R-TAB.T6', f"musicxml_4_0.xsd::complexType[{label}]", f"local attribute name '{k}' is unique in the table",
                            str(sorted(v)), key=f"R-TAB.T6|local-name-collision|{label}|{k}")
    res.extra['attribute_names'] = len(all_attr_names)

    # references: what the library substitutes for each ref
    x_at = sm.get_class('XSDAttribute', T.M_ATTR)
    setter = x_at.setters.get('xsd_tree') if x_at else None
    if setter is None:
        raise AnalysisError("anchor XSDAttribute.xsd_tree[setter] vanished")
    handled_refs = exh.ref_dispatch(setter)       # ref literal -> ('fragment', ET node) | ('unhandled', why)
    res.extra['attribute_ref_dispatch'] = {k: v[0] for k, v in handled_refs.items()}
    ref_decl = {}
    if sc.attr_root is not None:
        for c in sc.attr_root:
            if local(c.tag) == 'attribute' and c.attrib.get('name'):
                ref_decl['xml:' + c.attrib['name']] = c
    pairs = 0
    el_type = {}
    for n in names:
        (tname, anon), = list(decl_type[n])[:1]
        label = anon_expected[n][1] if anon else tname
        el_type[n] = label
    reported = set()
    for n in names:
        label = el_type[n]
        if label not in type_tables:
            continue            # simple-typed element: no attributes
        for a in type_tables[label]:
            pairs += 1
            if a.ref:
                h = handled_refs.get(a.ref)
                k = (a.ref, a.owner, a.use)
                if k in reported:
                    continue
                reported.add(k)
                where = f"{m_at.relpath}::XSDAttribute.xsd_tree[setter]"
                if h is None or h[0] != 'fragment':
                    res.finding('R-EXH.attributes', where, f"attribute reference '{a.ref}' (declared in {a.owner}) is handled",
                                f"the ref dispatch has no branch that binds a declaration for it: {h[1] if h else 'no branch'}",
                                key=f"R-EXH.attributes|ref|{a.ref}")
                    continue
                frag = h[1]
                got_name = frag.attrib.get('name')
                res.check(got_name == a.ref, 'R-TAB.T6', where,
                          f"reference '{a.ref}' keeps its qualified name", fail_detail=f"the substituted declaration is named '{got_name}'",
                          key=f"R-TAB.T6|ref-name|{a.ref}")
                res.check((frag.attrib.get('use', 'optional')) == a.use, 'R-TAB.T6', where,
                          f"reference '{a.ref}' in {a.owner} keeps use='{a.use}'",
                          fail_detail=f"the substituted declaration has use='{frag.attrib.get('use', 'optional')}'; the use= of the referencing node is dropped",
                          key=f"R-TAB.T6|ref-use|{a.ref}|{a.use}")
                decl = ref_decl.get(a.ref)
                if decl is not None:
                    res.check(Schema.canon(decl) == Schema.canon(frag), 'R-TAB.T6', where,
                              f"substituted declaration for '{a.ref}' equals the one in _attributes.xsd",
                              key=f"R-TAB.T6|ref-fragment|{a.ref}")
                res.check(bool(frag.attrib.get('type')), 'R-EXH.attributes', f"{m_at.relpath}::XSDAttribute.type_",
                          f"declaration substituted for '{a.ref}' has a type= (type_ subscripts ['type'])",
                          fail_detail="the declaration has an anonymous simpleType and no type attribute: KeyError on first use",
                          key=f"R-EXH.attributes|no-type|{a.ref}")
            else:
                if (a.owner, a.name) in reported:
                    continue
                reported.add((a.owner, a.name))
                res.check(bool(a.type) and not a.inline_type, 'R-EXH.attributes', f"musicxml_4_0.xsd::{a.owner}/@{a.name}",
                          "attribute declaration has a type= (XSDAttribute.type_ subscripts ['type'])",
                          key=f"R-EXH.attributes|no-type|{a.owner}|{a.name}")
    res.extra['element_attribute_pairs'] = pairs
    res.floor('R-TAB.T6 (element, attribute) pairs', pairs, 2000)


def _simple_types(ctx):
    sm, sc, res = ctx.sm, ctx.schema, ctx.res
    res.rule('R-TAB.T7', "every simple type has one class; its Python base class is the class of restriction@base (this selects "
             "the value gate); union classes carry memberTypes and the inline enumeration; the xs: primitives have the "
             "documented _TYPES and inheritance chain")
    m_st = sm.modules[T.M_SIMPLE]
    st_classes = {c.name: c for c in T.direct_subclasses(sm, T.M_SIMPLE, 'XSDSimpleType')}
    for d in T.duplicate_classdefs(sm, T.M_SIMPLE):
        res.finding('R-TAB.T7', f"{m_st.relpath}::{d}", "class defined more than once", key=f"R-TAB.T7|duplicate-class|{d}")
    for xsname, (cn, base, types) in XS_PRIMITIVES.items():
        c = st_classes.get(cn)
        where = f"{m_st.relpath}::{cn}"
        if not res.check(c is not None, 'R-TAB.T7', where, f"xs:{xsname} has a class", key=f"R-TAB.T7|missing-class|{cn}"):
            continue
        res.check([b.name for b in c.bases] == [base], 'R-TAB.T7', where, f"base class is {base}",
                  fail_detail=str([b.name for b in c.bases]), key=f"R-TAB.T7|base|{cn}")
        res.check(_class_types(c) == types, 'R-TAB.T7', where, f"_TYPES resolves to {types}", fail_detail=f"found {_class_types(c)}",
                  key=f"R-TAB.T7|types|{cn}")
    used_xs = set()
    for st in list(sc.simple_types.values()) + list(sc.builtin_simple_types.values()):
        if st.base and st.base.startswith('xs:'):
            used_xs.add(st.base[3:])
        for mbr in st.union_members or []:
            if mbr.startswith('xs:'):
                used_xs.add(mbr[3:])
    for label, ct in sc.all_complex_types().items():
        if ct.simple_base and ct.simple_base.startswith('xs:'):
            used_xs.add(ct.simple_base[3:])
        if not label.startswith('score-timewise'):
            for a in ct.attributes():
                if a.type and a.type.startswith('xs:'):
                    used_xs.add(a.type[3:])
    for d in sc.partwise_decls():
        if d.type and d.type.startswith('xs:'):
            used_xs.add(d.type[3:])
    for x in sorted(used_xs):
        cn = T.xsd_class_name('xs:' + x)
        res.check(cn in st_classes, 'R-TAB.T7', f"{m_st.relpath}::{cn}", f"xs:{x} (used by the schema) has a class",
                  key=f"R-TAB.T7|missing-class|{cn}")
    all_st = dict(sc.builtin_simple_types)
    all_st.update(sc.simple_types)
    n_rows = 0
    for name, st in all_st.items():
        cn = T.xsd_class_name(name)
        where = f"{m_st.relpath}::{cn}"
        c = st_classes.get(cn)
        if not res.check(c is not None, 'R-TAB.T7', where, f"simple type '{name}' has a class", key=f"R-TAB.T7|missing-class|{cn}"):
            continue
        n_rows += 1
        bases = [b.name for b in c.bases]
        if st.union_members is not None:
            # union: either _UNION lists the member classes, or (single member + inline enumeration) the class derives
            # from the member's class and _FORCED_PERMITTED carries the enumeration
            members = [T.xsd_class_name(x) for x in st.union_members]
            ub = c.bindings.get('_UNION')
            got_union = [unparse(e) for e in ub.elts] if isinstance(ub, ast.List) else None
            fp = literal_str_list(c.bindings.get('_FORCED_PERMITTED')) if '_FORCED_PERMITTED' in c.bindings else None
            if st.union_inline_enums:
                ok = len(members) == 1 and bases == members and fp is not None and sorted(fp) == sorted(st.union_inline_enums) and got_union is None
                res.check(ok, 'R-TAB.T7', where,
                          f"union with inline enumeration: derives from {members} and _FORCED_PERMITTED = {st.union_inline_enums}",
                          fail_detail=f"bases {bases}, _FORCED_PERMITTED {fp}, _UNION {got_union}", key=f"R-TAB.T7|union|{cn}")
            else:
                ok = got_union is not None and sorted(got_union) == sorted(members) and bases == ['XSDSimpleType'] and fp is None
                res.check(ok, 'R-TAB.T7', where, f"_UNION = memberTypes {members}",
                          fail_detail=f"bases {bases}, _UNION {got_union}, _FORCED_PERMITTED {fp}", key=f"R-TAB.T7|union|{cn}")
            # embedded fragment equals the schema component
            tb = T.parse_tree_binding(c.bindings.get('XSD_TREE')) or T.parse_tree_binding(c.bindings.get('_XSD_TREE'))
            if tb and tb[0] == 'embedded':
                node = T.parse_embedded(tb[1], where)
                res.check(Schema.canon(node) == Schema.canon(st.node), 'R-TAB.T7', where,
                          "embedded fragment equals the schema component (canonical comparison)", key=f"R-TAB.T7|embedded|{cn}")
            elif tb and tb[0] == 'dict':
                res.check(tb[1] == 'simpleType' and tb[2] == name, 'R-TAB.T3', where, f"tree binding key is '{name}'",
                          key=f"R-TAB.T3|simpleType|{cn}")
            else:
                res.finding('R-TAB.T7', where, "union class has a tree binding", key=f"R-TAB.T7|no-tree|{cn}")
        else:
            exp_base = T.xsd_class_name(st.base) if st.base else None
            res.check(bases == [exp_base], 'R-TAB.T7', where, f"base class is {exp_base} (restriction base '{st.base}')",
                      fail_detail=f"found {bases}", key=f"R-TAB.T7|base|{cn}")
            tb = T.parse_tree_binding(c.bindings.get('_XSD_TREE'))
            res.check(bool(tb) and tb[0] == 'dict' and tb[1] == 'simpleType' and tb[2] == name, 'R-TAB.T3', where,
                      f"_XSD_TREE is XSD_TREE_DICT['simpleType']['{name}']", fail_detail=f"found {unparse(c.bindings.get('_XSD_TREE'))}",
                      key=f"R-TAB.T3|simpleType|{cn}")
            for b in ('_UNION', '_FORCED_PERMITTED', '_PERMITTED', '_PATTERN', '_TYPES'):
                res.check(b not in c.bindings, 'R-TAB.T7', where, f"no hand-set {b} overrides the schema-derived facets",
                          fail_detail=f"{b} = {unparse(c.bindings.get(b))}", key=f"R-TAB.T7|override|{cn}|{b}")
        # no method overrides on generated classes that could change the gate
        own = set(c.methods) | set(c.setters)
        allowed = {'__init__'} if st.union_members is not None else set()
        res.check(own <= allowed, 'R-TAB.T7', where, "generated class defines no methods of its own (the gate is inherited)",
                  fail_detail=str(sorted(own - allowed)), key=f"R-TAB.T7|methods|{cn}")
    if m_st.all is not None:
        exp = {T.xsd_class_name(n) for n in all_st} | {v[0] for v in XS_PRIMITIVES.values()}
        for x in sorted(exp - set(m_st.all)):
            res.finding('R-TAB.T7', f"{m_st.relpath}::__all__", f"{x} is exported", key=f"R-TAB.T7|__all__|missing|{x}")
    res.extra['simple_type_rows'] = n_rows
    res.floor('R-TAB.T7 simple type classes', n_rows, 151)


def run_attribute_part(ctx):
    """The attribute-table rows of C03 (T6 + R-EXH.attributes), for the properties that rest on them (C04, C09, C19)."""
    sm, sc, res = ctx.sm, ctx.schema, ctx.res
    names = sc.partwise_names()
    decl_type = {}
    for d in sc.partwise_decls():
        decl_type.setdefault(d.name, set()).add((d.type, d.anonymous is not None))
    anon_expected = {'score-partwise': ('XSDComplexTypeScorePartwise', 'score-partwise'),
                     'part': ('XSDComplexTypePart', 'score-partwise/part'),
                     'measure': ('XSDComplexTypeMeasure', 'score-partwise/part/measure'),
                     'directive': ('XSDComplexTypeDirective', 'attributes/directive')}
    el_classes = {c.name: c for c in T.direct_subclasses(sm, T.M_XMLELEMENT, 'XMLElement')}
    embedded_ct = {}
    for tname in sc.complex_types:
        c = sm.get_class(T.xsd_class_name(tname, 'complex_type'), T.M_COMPLEX)
        if c is not None:
            tb = T.parse_tree_binding(c.bindings.get('_XSD_TREE'))
            if tb and tb[0] == 'embedded':
                embedded_ct[tname] = (c, tb[1])
    res.rule('R-TAB.T3', "the literal key of XSD_TREE/_XSD_TREE equals the schema name the class name stands for")
    res.rule('R-TAB.eval', "every name an eval() site can be asked for resolves in that module's namespace to the class for that component")
    _attribute_tables(ctx, el_classes, names, decl_type, anon_expected, embedded_ct)
    return el_classes, names, decl_type, anon_expected
