"""C13 - element instances are isolated from one another: freshness of instance state, template -> instance copies, schema
family read-only after import, no class/module-level write besides the lazy caches."""
import ast

from ..astutil import unparse, short, walk_local, dotted, const_value
from ..cfg import cfg_of
from ..srcmodel import AnalysisError
from ..rules import shared
from ..rules import dom
from ..rules import tables as T
from ..engine import get_cg, get_effects
from ..effects import MUTATORS

INIT_CLASSES = [('XMLElement', T.M_XMLELEMENT), ('XMLChildContainer', T.M_CONTAINER), ('XSDElement', T.M_XSDELEMENT), ('XSDSequence', T.M_IND),
                ('XSDChoice', T.M_IND), ('XSDGroup', T.M_IND), ('Tree', 'verysimpletree.tree'), ('XSDSimpleType', T.M_SIMPLE), ('XSDComplexType', T.M_COMPLEX)]


def run(ctx):
    sm, res = ctx.sm, ctx.res
    cg = get_cg(ctx)
    ef = get_effects(ctx)
    res.assume("aliasing is field-based and flow-insensitive (receiver typing of mxsa); Python objects created by a constructor call are private until stored somewhere")
    fresh_instance_state(ctx, ef)
    template_to_instance(ctx, cg, ef)
    res.rule('R-EFF.shared', "writes of the API closure to objects shared between instances (class-level, module-level, schema family) are only the enumerated idempotent "
             "lazy caches, with a value that depends on the class alone")
    entries = shared.api_entries(sm)
    ws, clo = shared.check_shared_state(ctx, cg, ef, 'R-EFF.shared', entries)
    res.floor('R-EFF.shared shared writes', len(ws), 8)
    from . import c14
    c14.run(ctx)          # deep copies are instances too: completeness/purity/freshness of __deepcopy__


def _is_fresh_value(v, params) -> bool:
    if isinstance(v, ast.Constant):
        return True
    if isinstance(v, (ast.List, ast.Dict, ast.Set, ast.Tuple, ast.ListComp, ast.DictComp, ast.SetComp, ast.JoinedStr, ast.BinOp, ast.IfExp, ast.Compare, ast.UnaryOp)):
        return True
    if isinstance(v, ast.Name):
        return True      # a parameter / local: ownership is the caller's (constructor arguments)
    if isinstance(v, ast.Call):
        return True
    return False


def fresh_instance_state(ctx, ef):
    sm, res = ctx.sm, ctx.res
    res.rule('R-COPY.fresh-instance', "every field assigned in __init__ is bound to a literal, a fresh display, a constructor/call result or a parameter - never to a "
             "class-level or module-level mutable; a field whose only binding is a class-level mutable is never mutated in place")
    n = 0
    for cname, mod in INIT_CLASSES:
        c = sm.get_class(cname, mod)
        if c is None:
            raise AnalysisError(f"anchor class {cname} vanished")
        init = c.methods.get('__init__')
        if init is None:
            continue
        for st in walk_local(init.node, include_root=False):
            if isinstance(st, ast.Assign):
                for t in st.targets:
                    if isinstance(t, ast.Attribute) and unparse(t.value) == 'self':
                        n += 1
                        v = st.value
                        bad = None
                        if isinstance(v, ast.Attribute):
                            base = unparse(v.value)
                            if base in ('self', 'cls', cname, 'type(self)', 'self.__class__'):
                                b = c.lookup_binding(v.attr)
                                if b is not None and isinstance(b[1], (ast.List, ast.Dict, ast.Set)):
                                    bad = f"bound to the class-level mutable {b[0].name}.{v.attr}"
                        elif isinstance(v, ast.Name):
                            r = sm.resolve_name(init.module.name, v.id)
                            if v.id not in init.params and r is not None and r[0] == 'assign' and isinstance(r[1][1], (ast.List, ast.Dict, ast.Set)):
                                bad = f"bound to the module-level mutable {v.id}"
                        res.check(bad is None, 'R-COPY.fresh-instance', init.fq, f"`{short(st, 60)}` gives the instance its own object", fail_detail=bad or '',
                                  key=f"R-COPY.fresh-instance|init|{cname}|{t.attr}", line=st.lineno)
    res.floor('R-COPY.fresh-instance init fields', n, 30)
    # class-level mutables: in-place mutation through an instance must be dominated by an instance rebinding in the same function
    for c in [k for m in sm.modules.values() if m.name.startswith('musicxml') or m.name == 'verysimpletree.tree' for k in m.classes.values()]:
        muts = {name for name, v in c.bindings.items() if isinstance(v, (ast.List, ast.Dict, ast.Set))}
        if not muts or c.name.startswith('XML') and c.name != 'XMLElement' or len(c.mro) > 1 and any(c.name.startswith(p) for p in ('XSDSimpleType', 'XSDComplexType', 'XSDGroup', 'XSDAttributeGroup')) and c.name not in ('XSDSimpleType', 'XSDComplexType', 'XSDGroup', 'XSDAttributeGroup'):
            # generated classes carry only table bindings that C03 compares; their methods are the base classes'
            muts = muts
        if not muts:
            continue
        users = [k for k in sm.subclasses(c.name)]
        for k in users:
            for f in list(k.methods.values()) + list(k.setters.values()):
                g = None
                for call in [x for x in walk_local(f.node, include_root=False) if isinstance(x, ast.Call) and isinstance(x.func, ast.Attribute) and x.func.attr in MUTATORS]:
                    recv = call.func.value
                    if isinstance(recv, ast.Attribute) and unparse(recv.value) in ('self', 'cls', 'type(self)', 'self.__class__') and recv.attr in muts:
                        g = g or cfg_of(f.node)
                        node = next((x for x in g.stmt_nodes() if any(y is call for e in x.exprs() for y in ast.walk(e))), None)
                        rebinds = [x for x in g.stmt_nodes() if x.kind == 'stmt' and isinstance(x.ast, ast.Assign) and
                                   any(unparse(t) == f"self.{recv.attr}" for t in x.ast.targets) and isinstance(x.ast.value, (ast.List, ast.Dict, ast.Set, ast.Call, ast.ListComp))]
                        ok = unparse(recv.value) == 'self' and node is not None and bool(rebinds) and g.path_avoiding(g.entry, node, avoid=rebinds) is None
                        res.check(ok, 'R-COPY.fresh-instance', f.fq, f"`{short(call, 60)}` mutates an instance-owned object (a fresh rebinding of self.{recv.attr} dominates it)",
                                  fail_detail=f"{c.name}.{recv.attr} is a class-level mutable shared by every instance", key=f"R-COPY.fresh-instance|class-mutable|{f.qualname}|{recv.attr}",
                                  line=call.lineno)
    # _unordered_children and friends must not be class-level bindings of XMLElement
    xe = sm.get_class('XMLElement', T.M_XMLELEMENT)
    for fld in ('_unordered_children', '_attributes', '_child_container_tree', '_children', '_xml_elements'):
        for k in [xe] + [sm.get_class('XSDElement', T.M_XSDELEMENT), sm.get_class('XMLChildContainer', T.M_CONTAINER)]:
            if k is not None and fld in k.bindings and isinstance(k.bindings[fld], (ast.List, ast.Dict, ast.Set)):
                res.finding('R-COPY.fresh-instance', f"{k.module.relpath}::{k.name}", f"{fld} is per instance", "bound at class level to a mutable",
                            key=f"R-COPY.fresh-instance|class-level|{k.name}|{fld}")


def template_to_instance(ctx, cg, ef):
    sm, res = ctx.sm, ctx.res
    res.rule('R-COPY.template', "every read of the module-level container templates is the direct argument of copy.copy / __copy__; XMLChildContainer.__copy__ and the "
             "content __copy__ routines return constructor calls (fresh leaf lists); what copies share belongs to the schema family")
    n_reads = 0
    for f in sm.functions:
        if not f.module.name.startswith('musicxml'):
            continue
        ns = sm.namespace(f.module.name)
        if ns.get('containers', (None,))[0] != T.M_CONTAINERS:
            continue
        pm = ef._parent_map(f)
        for n in walk_local(f.node, include_root=False):
            if isinstance(n, ast.Name) and n.id == 'containers' and isinstance(n.ctx, ast.Load):
                n_reads += 1
                par = pm.get(n)
                ok = False
                if isinstance(par, ast.Subscript) and par.value is n:
                    gp = pm.get(par)
                    if isinstance(gp, ast.Call) and dotted(gp.func) in ('copy.copy', 'copy.deepcopy') and gp.args and gp.args[0] is par:
                        ok = True
                    if isinstance(gp, ast.Attribute) and gp.attr == '__copy__':
                        ok = True
                if isinstance(par, ast.Compare) and any(c is n for c in par.comparators) and all(isinstance(o, (ast.In, ast.NotIn)) for o in par.ops):
                    ok = True        # a membership test reads no template
                res.check(ok, 'R-COPY.template', f.fq, f"`{short(pm.get(n) if pm.get(n) is not None else n, 60)}`: the template is only ever copied, never used or stored directly",
                          key=f"R-COPY.template|read|{f.qualname}", line=n.lineno)
    res.floor('R-COPY.template reads', n_reads, 1)
    # the generator module reads containers too, but is outside the runtime closure
    cc = sm.func('XMLChildContainer', '__copy__', T.M_CONTAINER)
    rets = [r for r in ast.walk(cc.node) if isinstance(r, ast.Return)]
    g = cfg_of(cc.node)
    ok = False
    detail = ''
    if len(rets) == 1 and isinstance(rets[0].value, ast.Name):
        var = rets[0].value.id
        defs = [d for d in dom.assignments_to(g, var)]
        if len(defs) == 1 and isinstance(defs[0].ast.value, ast.Call) and unparse(defs[0].ast.value.func) in ('self.__class__', 'XMLChildContainer', 'type(self)'):
            kw = {k.arg: unparse(k.value) for k in defs[0].ast.value.keywords}
            ok = kw.get('content') in ('self.content.__copy__()', 'copy.copy(self.content)') and kw.get('populate_children') == 'False'
            detail = str(kw)
            loops = [n for n in g.stmt_nodes() if n.kind == 'for' and unparse(n.stmt.iter) == 'self.get_children()']
            ok = ok and len(loops) == 1 and len(loops[0].stmt.body) == 1 and \
                unparse(loops[0].stmt.body[0]) in (f"{var}.add_child({unparse(loops[0].stmt.target)}.__copy__())", f"{var}.add_child(copy.copy({unparse(loops[0].stmt.target)}))")
    res.check(ok, 'R-COPY.template', cc.fq, "the copy is a new container with a copied content and copied children (nothing of the template is attached to it)",
              fail_detail=detail, key='R-COPY.template|container-copy')
    for cname, mod, want in (('XSDElement', T.M_XSDELEMENT, 'leaf'), ('XSDSequence', T.M_IND, 'ind'), ('XSDChoice', T.M_IND, 'ind')):
        f = sm.func(cname, '__copy__', mod)
        rets = [r for r in ast.walk(f.node) if isinstance(r, ast.Return)]
        ok = len(rets) == 1 and isinstance(rets[0].value, ast.Call) and unparse(rets[0].value.func) in ('self.__class__', cname, 'type(self)')
        res.check(ok, 'R-COPY.template', f.fq, f"{cname}.__copy__ returns a constructor call (its mutable state is what __init__ creates)",
                  fail_detail='; '.join(short(r) for r in rets), key=f"R-COPY.template|{cname}.__copy__")
    init = sm.func('XSDElement', '__init__', T.M_XSDELEMENT)
    stores = [s for s in ast.walk(init.node) if isinstance(s, ast.Assign) and unparse(s.targets[0]) == 'self._xml_elements']
    res.check(len(stores) == 1 and isinstance(stores[0].value, ast.List) and not stores[0].value.elts, 'R-COPY.template', init.fq,
              "a leaf starts with its own empty element list", key='R-COPY.template|leaf-list')
    # XSDGroup.__copy__ shares only schema-family objects
    gc = sm.func('XSDGroup', '__copy__', T.M_IND)
    shared_fields = [unparse(s.targets[0]) + ' = ' + unparse(s.value) for s in ast.walk(gc.node) if isinstance(s, ast.Assign) and isinstance(s.targets[0], ast.Attribute)]
    ok = all(v.split(' = ')[1] in ('self.sequence', 'self.XSD_TREE', 'self._sequence') for v in shared_fields)
    res.check(ok, 'R-COPY.template', gc.fq, "a group copy shares only its (immutable) schema sequence and tree", fail_detail=str(shared_fields), key='R-COPY.template|group-copy')
    # the per-instance container is created from the template in _create_child_container_tree and bound to the element
    ct = sm.func('XMLElement', '_create_child_container_tree', T.M_XMLELEMENT)
    txt = unparse(ct.node)
    res.check('self._child_container_tree = copy.copy(containers[self.TYPE.__name__])' in txt and 'self._child_container_tree._parent_xml_element = self' in txt,
              'R-COPY.template', ct.fq, "each element gets its own copy of its type's template, linked back to itself", key='R-COPY.template|instance-copy')
