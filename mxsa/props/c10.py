"""C10 - a failed operation changes nothing (R-ATOM: no primary, non-fresh write before a raise that can still escape)."""
import ast
import json
import os

from ..astutil import unparse, short
from ..rules import tables as T
from ..rules.atom import Atom, ATOM_PRIMARY, STRUCTURE_FUNCS
from ..engine import get_cg, get_effects
from .. import report
from . import c04


def get_atom(ctx) -> Atom:
    return ctx.lazy('atom', lambda: Atom(get_effects(ctx)))


def known_raise_sets():
    """write-key -> {entry: allowed raise keys} from known_findings.json (section 'atom' of each finding)."""
    out = {}
    if os.path.isfile(report.KNOWN_FINDINGS):
        with open(report.KNOWN_FINDINGS, encoding='utf-8') as f:
            for e in json.load(f).get('findings', []):
                for k, sites in (e.get('atom') or {}).items():
                    out[k] = set(sites)
    return out


def run(ctx):
    sm, res = ctx.sm, ctx.res
    ef = get_effects(ctx)
    at = get_atom(ctx)
    res.rule('R-ATOM', "from every public mutator, on every path: no write to primary state of an object that existed before the call (insertion list, leaf lists, "
             "parent and leaf back-pointers, attributes, value, choice commitment, force-validate) is followed by a raise that can still escape the call, unless a "
             "handler restores it.  Writes through objects created during the call are local; a raise site is pruned only by a mechanical argument (literal-argument "
             "guard, single-writer invariant, parent/child premise, negated call-site guard)")
    res.assume("internal shape guards of the matcher/tree infrastructure (isinstance / tag tests on objects the library itself produced) cannot fire")
    res.assume("the Tree iterator caches, the rebuilt ElementTree element, requirements_fulfilled (recomputed by every final check) and the re-wiring done by "
               "duplicate()/_add_duplication_parent() (an empty duplicate branch holds no children and no flags) are derived state")
    res.assume("list.remove/index of an object on a list reached through that object's own back-pointer cannot fail while the pairing rules of C06 hold")
    res.assume("'same acceptance of every possible next child' compares matcher behaviours and is not decided")
    entries = [sm.func('XMLElement', 'add_child', T.M_XMLELEMENT), sm.func('XMLElement', 'remove', T.M_XMLELEMENT),
               sm.func('XMLElement', 'replace_child', T.M_XMLELEMENT), sm.func('XMLElement', '_set_attributes', T.M_XMLELEMENT),
               sm.func('XMLElement', 'value_', T.M_XMLELEMENT, setter=True), sm.func('XMLElement', 'to_string', T.M_XMLELEMENT),
               sm.func('XMLElement', '_convert_attribute_to_child', T.M_XMLELEMENT), sm.func('XMLElement', '__setattr__', T.M_XMLELEMENT),
               sm.func('XMLScorePartwise', 'write', T.M_XMLELEMENT)]
    known = known_raise_sets()
    seen_inner = set()
    n_pairs = 0
    n_hazards = 0
    for entry in entries:
        groups = at.grouped(entry)
        n_pairs += sum(len(v[1]) for v in groups.values())
        new_here = 0
        for wk, (w, rs, roots) in sorted(groups.items()):
            ident = (wk, frozenset(rs))
            if ident in seen_inner:
                continue          # the same hazard was reported at the inner public operation it belongs to
            seen_inner.add(ident)
            n_hazards += 1
            new_here += 1
            key = f"R-ATOM|{entry.qualname}|{wk}"
            # the None-pop of _set_attributes: discharged by the premises C04 establishes (one-entry dictionaries, None-valued keys only)
            if w.func.qualname == 'XMLElement._set_attributes' and 'pop(' in unparse(w.node):
                ok = _none_pop_premise(ctx)
                if ok:
                    res.ok('R-ATOM', entry.fq, f"`{short(w.node, 50)}` before validation: removal and validation never mix (every caller but __init__ passes a one-entry "
                           "dictionary; only None-valued keys are popped)", f"{len(rs)} raise site(s) after it are unreachable in the same call")
                    continue
            allowed = known.get(key)
            detail = f"then may raise: {sorted(rs)[:6]}{' ...' if len(rs) > 6 else ''}; object root(s): {sorted(roots)}"
            if allowed is not None and set(rs) <= allowed:
                res.finding('R-ATOM', entry.fq, f"`{wk.rsplit('|', 1)[0]}` is not followed by a raise that escapes {entry.name}", detail, key=key, line=getattr(w.node, 'lineno', None))
            elif allowed is not None:
                extra = sorted(set(rs) - allowed)
                res.finding('R-ATOM', entry.fq, f"`{wk.rsplit('|', 1)[0]}` is not followed by a raise that escapes {entry.name}",
                            f"NEW raise site(s) after a write that was already known to be unprotected: {extra[:4]}", key=key + '|new-raise-sites|' + extra[0],
                            line=getattr(w.node, 'lineno', None))
            else:
                res.finding('R-ATOM', entry.fq, f"`{wk.rsplit('|', 1)[0]}` is not followed by a raise that escapes {entry.name}", detail, key=key,
                            line=getattr(w.node, 'lineno', None))
        if not new_here:
            res.ok('R-ATOM', entry.fq, "no primary write of a pre-existing object can be followed by an escaping raise (or only hazards of an inner operation, reported there)")
    res.extra['write_raise_pairs_examined'] = n_pairs
    res.extra['hazards_grouped_by_first_write'] = n_hazards
    res.extra['raise_sites_pruned_mechanically'] = [f"{k[0]} / {k[1]}: {v}" for k, v in sorted(at.dead.items())][:40]
    res.extra['defensive_guards_assumed_dead'] = sorted(at.defensive)
    res.extra['primary_state'] = sorted(f"{a}.{b}" for a, b in ATOM_PRIMARY)
    res.floor('R-ATOM write/raise pairs', n_pairs, 10)
    # ordering facts the rule relies on, stated positively (each is an R-DOM obligation of its own)
    _raise_before_write(ctx)


def _none_pop_premise(ctx) -> bool:
    """Re-verify C04's premises silently (on a scratch result) and report whether they hold."""
    from ..report import Result
    saved = ctx.res
    tmp = Result(ctx.pid, ctx.tier, 'other')
    ctx.res = tmp
    try:
        c04.check_before_store(ctx)
    finally:
        ctx.res = saved
    bad = [o for o in tmp.violated() if 'in-place' in (o.key or '') or 'caller' in (o.key or '')]
    return not bad


def _raise_before_write(ctx):
    """value_ setter and replace_child: everything that can reject runs before the first mutation (positive statement of what R-ATOM found)."""
    from ..cfg import cfg_of
    from ..rules import dom
    sm, res = ctx.sm, ctx.res
    res.rule('R-DOM.reject-first', "in replace_child, remove and add_child every rejection that depends on the caller's arguments is evaluated before the first "
             "mutation of the insertion list")
    for name in ('replace_child', 'remove', 'add_child'):
        f = sm.func('XMLElement', name, T.M_XMLELEMENT)
        g = cfg_of(f.node)
        from ..rules.mustfx import MustFx
        mx = ctx.lazy('mustfx-checked', lambda: MustFx(get_cg(ctx), {'self.xsd_check': True, 'self._xsd_check': True}))
        muts = mx.nodes_with(f, lambda l: l[0] == 'write' and l[1] == 'self' and l[2] == '_unordered_children' and l[3] in ('remove', 'insert', 'append', 'pop', 'setitem'))
        first = [m for m in muts if not any(g.dominates(o, m) and o is not m for o in muts)]
        rejecting = [n for n in g.stmt_nodes() if (n.kind == 'stmt' and isinstance(n.ast, ast.Raise)) or
                     any(isinstance(c, ast.Call) and unparse(c.func) in ('self._check_child_to_be_added', 'self._child_container_tree.add_element') for e in n.exprs() for c in ast.walk(e)) or
                     any(isinstance(c, ast.Subscript) and isinstance(c.slice, ast.Name) and c.slice.id in f.params for e in n.exprs() for c in ast.walk(e))]
        late = [r for r in rejecting if any(g.path_avoiding(m, r) is not None and r is not m for m in first)]
        if name == 'remove':
            # remove's own first statement is the rejecting one (list.remove of a non-child)
            ok = bool(muts) and all(g.dominates(first[0], n) for n in g.stmt_nodes() if n.kind in ('stmt', 'test', 'for') and n is not first[0] and not isinstance(n.ast, ast.FunctionDef)
                                     and not (isinstance(n.ast, ast.Expr) and isinstance(n.ast.value, ast.Constant))) if first else False
            res.check(ok, 'R-DOM.reject-first', f.fq, "the membership-checking `self._unordered_children.remove(child)` is the first statement executed",
                      key='R-DOM.reject-first|remove')
            continue
        res.check(not late and bool(muts), 'R-DOM.reject-first', f.fq, "no argument-dependent rejection follows the first change of the insertion list",
                  fail_detail='; '.join(f"line {r.line}: {r.text()[:60]}" for r in late[:3]), key=f"R-DOM.reject-first|{name}")
