"""C11 - removing a child restores the behaviour the element had without it: R-PAIR (b) - every matcher flag written on the
insertion path has a reset on the removal path with the same traversal extent."""
import ast

from ..astutil import unparse, short, walk_local
from ..cfg import cfg_of
from ..srcmodel import AnalysisError
from ..rules import tables as T
from ..rules import dom
from .. import abseval
from ..engine import get_cg, get_effects
from . import c06

FLAGS = {
    'chosen_child': {'chosen_child', '_chosen_child'},
    'force_validate': {'_force_validate', 'force_validate'},
    'requirements_fulfilled': {'requirements_fulfilled', '_requirements_fulfilled'},
}


def _in_path_loop(f, node) -> bool:
    """Is the statement inside a loop that walks the path to the root (for .. in x.get_reversed_path_to_root() / choices_in_reversed_path / while up)?"""
    pm = {}
    for n in ast.walk(f.node):
        for c in ast.iter_child_nodes(n):
            pm[c] = n
    cur = node
    while cur is not None and cur is not f.node:
        cur = pm.get(cur)
        if isinstance(cur, (ast.For, ast.While)):
            txt = unparse(cur.iter) if isinstance(cur, ast.For) else unparse(cur.test)
            if 'get_reversed_path_to_root' in txt or 'choices_in_reversed_path' in txt or '.up' in txt or 'get_parent' in txt:
                return True
    return False


def run(ctx):
    sm, res = ctx.sm, ctx.res
    cg = get_cg(ctx)
    ef = get_effects(ctx)
    res.assume("observational equivalence with a rebuilt twin is run-time behaviour and is not decided; only the set/reset discipline of the matcher flags is")
    res.rule('R-PAIR.flags', "every matcher flag written while a child is inserted (choice commitment on every choice of the path, force-validate on ancestors and "
             "siblings' descendants, requirement flags, duplicated branches) has a reset in the call closure of remove() with the same traversal extent")
    from ..rules import memo, shared
    memo.check(ctx, cg, ef, res, shared.api_entries(sm))
    initialiser_keeps_decided_flags(ctx)
    add = sm.func('XMLElement', 'add_child', T.M_XMLELEMENT)
    rem = sm.func('XMLElement', 'remove', T.M_XMLELEMENT)
    ins_clo = cg.closure([add])
    rem_clo = cg.closure([rem])
    for flag, fields in FLAGS.items():
        sets = []
        for f in ins_clo:
            if getattr(f, 'ctx_family', None) or f.name == '__init__' or f.qualname in ('XMLChildContainer._add_duplication_parent', 'XMLChildContainer.duplicate'):
                continue
            for w in ef.local_writes.get(f, []):
                if w.field in fields and 'XMLChildContainer' in (w.owners or {'XMLChildContainer'}) and w.how in ('store',):
                    v = w.node.value if isinstance(w.node, ast.Assign) else None
                    if isinstance(v, ast.Constant) and v.value in (None, False) and flag != 'requirements_fulfilled':
                        continue
                    if f.is_setter:
                        continue
                    sets.append((f, w, _in_path_loop(f, w.node)))
        resets = []
        for f in rem_clo:
            if getattr(f, 'ctx_family', None) or f.is_setter:
                continue
            for w in ef.local_writes.get(f, []):
                if w.field in fields and w.how in ('store',) and isinstance(w.node, ast.Assign):
                    v = w.node.value
                    if isinstance(v, ast.Constant) and v.value in (None, False):
                        resets.append((f, w, _in_path_loop(f, w.node)))
        res.extra.setdefault('flags', {})[flag] = {'set_on_insertion': [f"{f.qualname}: {short(w.node, 60)}{' [path loop]' if lp else ''}" for f, w, lp in sets],
                                                    'reset_on_removal': [f"{f.qualname}: {short(w.node, 60)}{' [path loop]' if lp else ''}" for f, w, lp in resets]}
        if not sets:
            if flag != 'requirements_fulfilled':
                raise AnalysisError(f"no insertion-path writer of {flag} found (vanished anchor)")
            continue
        where = sets[0][0].fq
        if not res.check(bool(resets), 'R-PAIR.flags', where, f"{flag}: set on insertion by {sorted({f.qualname for f, _, _ in sets})} and reset by remove()",
                         fail_detail="no statement in the call closure of remove() resets it", key=f"R-PAIR.flags|{flag}|no-reset"):
            continue
        path_set = any(lp for _, _, lp in sets)
        path_reset = any(lp for _, _, lp in resets)
        if path_set and flag != 'requirements_fulfilled':      # requirement flags are recomputed by every final check (derived state)
            res.check(path_reset, 'R-PAIR.flags', resets[0][0].fq, f"{flag}: set for every node on the path to the root, and reset with the same extent",
                      fail_detail=f"set inside a path loop ({next(f.qualname for f, _, lp in sets if lp)}), reset only at {[short(w.node, 50) for _, w, _ in resets]} without a path loop",
                      key=f"R-PAIR.flags|{flag}|extent")
    # the reset that exists: its guard
    g = cfg_of(rem.node)
    resets = [n for n in g.stmt_nodes() if n.kind == 'stmt' and isinstance(n.ast, ast.Assign) and unparse(n.ast.targets[0]).endswith('.chosen_child') and unparse(n.ast.value) == 'None']
    child = rem.params[1]
    leaf_lists = (f"{child}.parent_xsd_element.xml_elements", f"{child}.parent_xsd_element._xml_elements")
    detach = dom.nodes_calling(g, lambda c: isinstance(c.func, ast.Attribute) and c.func.attr == 'remove' and unparse(c.func.value).endswith(('.xml_elements', '._xml_elements'))
                               and [unparse(a) for a in c.args] == [child])
    for r in resets:
        recv = unparse(r.ast.targets[0]).rsplit('.', 1)[0]
        extra = []
        have = False
        empties = []
        for t, lab in dom.guards_of(g, r):
            if t.kind != 'test':
                continue
            conj = t.ast.values if isinstance(t.ast, ast.BoolOp) and isinstance(t.ast.op, ast.And) else [t.ast]
            for c in conj:
                txt = unparse(c)
                if txt in ('self.xsd_check', 'self._xsd_check') and lab == 'T':
                    continue
                if txt.startswith(f"{recv}.chosen_child == ") and lab == 'T':
                    have = True
                    continue
                ex = dom.expand(g, c, t)
                lists = [x for x in leaf_lists if x in unparse(ex)]
                if lists:
                    empties.append((ex, lab, t, lists[0]))     # a test on the element count of the removed child's own leaf
                    continue
                extra.append(f"{txt} [{lab}]")
        # the commitment is dropped exactly when the leaf holds nothing else: a leaf with maxOccurs > 1 (segno+, rehearsal+, dynamics+ ...) may still hold
        # elements of the chosen alternative, and the choice must stay committed to it
        ok_empty = False
        detail = "the reset does not depend on what the leaf still holds"
        for ex, lab, t, lst in empties:
            after = any(g.dominates(d, t) for d in detach)
            cnt = f"len({lst})"
            cases = {0: {(cnt, '0'): '=', (cnt, '1'): '<'}, 1: {(cnt, '0'): '>', (cnt, '1'): '='}, 2: {(cnt, '0'): '>', (cnt, '1'): '>'}}
            verdicts = {}
            for k, order in cases.items():
                try:
                    v = abseval.eval_expr(ex, {'__order__': order, '__assume__': {}})
                except abseval.NotUnderstood:
                    v = None
                verdicts[k] = (v == ('const', lab == 'T')) if v is not None and v[0] == 'const' else None
            want = {0: True, 1: False, 2: False} if after else {1: True, 2: False}
            if all(verdicts.get(k) is want[k] for k in want):
                ok_empty = True
            else:
                detail = f"`{unparse(ex)}` [{lab}] {'after' if after else 'before'} the child is taken out of the leaf: taken for counts {sorted(k for k, v in verdicts.items() if v)}"
        res.check(ok_empty, 'R-PAIR.flags', rem.fq, "the commitment of the enclosing choice is dropped only when the removed child was the last element of its leaf",
                  fail_detail=detail + " - after removing one of two <segno> the choice accepts a <coda>: both alternatives are serialised", key='R-PAIR.flags|chosen_child|last-of-leaf',
                  line=r.line)
        res.check(have, 'R-PAIR.flags', rem.fq, "the commitment of the enclosing choice is dropped when the removed child's container was the chosen one",
                  key='R-PAIR.flags|chosen_child|guard')
        res.check(not extra, 'R-PAIR.flags', rem.fq, "no further condition keeps a stale commitment alive", fail_detail=str(extra), key='R-PAIR.flags|chosen_child|extra-guard',
                  line=r.line)
        # requirements are re-opened together with the commitment
        sib = [n for n in g.stmt_nodes() if n.kind == 'stmt' and isinstance(n.ast, ast.Assign) and unparse(n.ast.targets[0]) == f"{recv}.requirements_fulfilled"
               and unparse(n.ast.value) == 'False']
        res.check(bool(sib) and all(g.path_avoiding(r, g.exit, avoid=sib) is None or g.dominates(r, s) for s in sib), 'R-PAIR.flags', rem.fq,
                  "the choice is marked unfulfilled together with dropping its commitment", key='R-PAIR.flags|chosen_child|requirements')
    res.floor('R-PAIR.flags chosen_child resets in remove', len(resets), 1)
    # duplicated branches: pruned on removal (shared rule with C06) and the container root only written by its owners
    c06.prune_rules(ctx, rem)
    c06.ownership(ctx, ef)


def initialiser_keeps_decided_flags(ctx):
    """The lazy initialiser of the requirement flags runs whenever the root's own flag is None - also after add_element wrapped the root into
    a fresh duplication wrapper (whose flag is None) while the nodes below already carry decided flags.  It may therefore only fill flags
    that are still None; overwriting a False erases a requirement that remove() had re-opened."""
    sm, res = ctx.sm, ctx.res
    res.rule('R-INIT.flags', "_set_requirements_fulfilled() fills only flags that are still None: every `x._requirements_fulfilled = True` in it is dominated by a test "
             "`x._requirements_fulfilled is None` (the initialiser is re-run when the container root was replaced by a duplication wrapper)")
    f = sm.func('XMLChildContainer', '_set_requirements_fulfilled', T.M_CONTAINER)
    g = cfg_of(f.node)
    n = 0
    for node in g.stmt_nodes():
        st = node.ast if node.kind == 'stmt' else None
        if not (isinstance(st, ast.Assign) and len(st.targets) == 1 and isinstance(st.targets[0], ast.Attribute) and
                st.targets[0].attr in ('_requirements_fulfilled', 'requirements_fulfilled') and isinstance(st.value, ast.Constant) and st.value.value is True):
            continue
        n += 1
        recv = unparse(st.targets[0].value)
        guards = {(unparse(t.ast), lab) for t, lab in dom.guards_of(g, node) if t.kind == 'test'}
        ok = any(txt in (f"{recv}._requirements_fulfilled is None", f"{recv}.requirements_fulfilled is None") and lab == 'T' for txt, lab in guards) or \
            any(txt in (f"{recv}._requirements_fulfilled is not None", f"{recv}.requirements_fulfilled is not None") and lab == 'F' for txt, lab in guards)
        # a conjunct of the guarding test counts as well
        for t, lab in dom.guards_of(g, node):
            if t.kind == 'test' and lab == 'T' and isinstance(t.ast, ast.BoolOp) and isinstance(t.ast.op, ast.And):
                if any(unparse(v) in (f"{recv}._requirements_fulfilled is None", f"{recv}.requirements_fulfilled is None") for v in t.ast.values):
                    ok = True
        res.check(ok, 'R-INIT.flags', f.fq, f"`{short(st, 60)}` only fills a flag that is still None",
                  fail_detail="an already decided flag (False: a required particle that was emptied again) is overwritten with True when the initialiser runs on a tree "
                              "whose root was replaced by a duplication wrapper: the requirement is lost and an invalid element serialises",
                  key="R-INIT.flags|overwrite-without-none-test", line=node.line)
    res.floor('R-INIT.flags stores', n, 2)
