"""C01 - serialised child structure valid: structural necessary conditions (R-DOM, R-OWN, R-ORD)."""
import ast

from ..astutil import unparse, short, walk_local, dotted, const_value
from ..cfg import cfg_of
from ..srcmodel import AnalysisError
from ..rules import tables as T
from ..rules import dom
from ..rules import ordtab
from ..engine import get_cg, get_effects

CHECKED = {'self.xsd_check': True, 'self._xsd_check': True}


def run(ctx):
    sm, res = ctx.sm, ctx.res
    cg = get_cg(ctx)
    ef = get_effects(ctx)
    res.assume("decides necessary conditions only: that the matcher's leaf selection, choice commitment, duplication and re-homing yield "
               "a word of the content model for every history is run-time behaviour and is not decided (DESIGN.md C01 / C02)")
    res.assume("xml.etree.ElementTree serialises the element tree it is given in child order")
    validate_before_serialise(ctx, cg)
    ordered_view_feeds_serialiser(ctx, cg)
    leaf_name_ownership(ctx, cg, ef)
    attach_after_occurrence_check(ctx, cg)
    ordtab.check_occurrence_tables(ctx)
    from ..rules import reqtab
    reqtab.check_requirement_tables(ctx)
    from ..rules import memo, shared
    memo.check(ctx, cg, ef, res, shared.api_entries(sm))
    from . import c11
    c11.initialiser_keeps_decided_flags(ctx)


# ---------------------------------------------------------------------------------------------- a
def validate_before_serialise(ctx, cg):
    sm, res = ctx.sm, ctx.res
    res.rule('R-DOM.validate-before-serialise', "under xsd_check, every path of to_string() to the ElementTree serialisation passes the final "
             "checks; the required-children rejection depends only on the element's own container verdict; every child is checked")
    ts = sm.func('XMLElement', 'to_string', T.M_XMLELEMENT)
    g = cfg_of(ts.node)
    on = g.edge_filter_assuming(CHECKED)
    sinks = dom.nodes_calling(g, lambda c: dotted(c.func) == 'ET.tostring')
    if not sinks:
        raise AnalysisError("XMLElement.to_string: no ET.tostring call found (serialisation sink vanished)")
    from ..rules.mustfx import MustFx
    mx = ctx.lazy('mustfx-checked', lambda: MustFx(cg, CHECKED))
    gates = mx.nodes_with(ts, lambda l: l[0] == 'call' and l[1] == 'XMLElement._final_checks' and l[2] == 'self')
    for s in sinks:
        p = g.must_pass(s, gates, edge_ok=on)
        res.check(p is None, 'R-DOM.validate-before-serialise', ts.fq, "ET.tostring is dominated by self._final_checks(...) when xsd_check is on",
                  fail_detail='path without the check: ' + ' -> '.join(n.text() for n in (p or [])[:8]),
                  key='R-DOM.validate-before-serialise|to_string', line=s.line)
    direct = dom.nodes_calling(g, lambda c: unparse(c.func) == 'self._final_checks')
    for gt in direct:
        c = [x for e in gt.exprs() for x in walk_local(e) if isinstance(x, ast.Call) and unparse(x.func) == 'self._final_checks'][0]
        kw = {k.arg: unparse(k.value) for k in c.keywords}
        ok = kw.get('intelligent_choice') == 'intelligent_choice' or [unparse(a) for a in c.args] == ['intelligent_choice']
        res.check(ok, 'R-DOM.validate-before-serialise', ts.fq, "the caller's intelligent_choice is passed to the final checks", key='R-DOM.validate-before-serialise|arg')
    if not direct:
        # through a helper: the helper's call must receive our parameter
        lab_ok = bool(mx.nodes_with(ts, lambda l: l[0] == 'call' and l[1] == 'XMLElement._final_checks' and l[2] == 'self' and
                                    (('param', 1) in l[3] or l[3] == ())))
        res.check(lab_ok, 'R-DOM.validate-before-serialise', ts.fq, "the caller's intelligent_choice reaches the final checks", key='R-DOM.validate-before-serialise|arg')
    # the serialised object is the tree rebuilt *after* the checks
    builds = dom.nodes_with(g, lambda x: (isinstance(x, ast.Call) and unparse(x.func) == 'self._create_et_xml_element') or
                            (isinstance(x, ast.Attribute) and unparse(x) == 'self.et_xml_element'))
    for s in sinks:
        res.check(any(g.path_avoiding(gt, b) is not None for gt in gates for b in builds) if gates else False,
                  'R-DOM.validate-before-serialise', ts.fq, "the ElementTree element is (re)built after the final checks",
                  key='R-DOM.validate-before-serialise|rebuild-after-check')
    # _final_checks: the rejection
    fc = sm.func('XMLElement', '_final_checks', T.M_XMLELEMENT)
    g2 = cfg_of(fc.node)
    on2 = g2.edge_filter_assuming(CHECKED)
    raises = [n for n in g2.stmt_nodes() if n.kind == 'stmt' and isinstance(n.ast, ast.Raise) and 'XMLElementChildrenRequired' in unparse(n.ast)]
    if not res.check(len(raises) >= 1, 'R-DOM.validate-before-serialise', fc.fq, "the final check can reject missing children (raise XMLElementChildrenRequired)",
                     key='R-DOM.validate-before-serialise|no-rejection'):
        return
    # the verdict variable
    verdict_calls = dom.nodes_calling(g2, lambda c: isinstance(c.func, ast.Attribute) and c.func.attr == 'get_required_element_names')
    res.check(bool(verdict_calls), 'R-DOM.validate-before-serialise', fc.fq, "the verdict comes from the container's get_required_element_names",
              key='R-DOM.validate-before-serialise|no-verdict')
    for r in raises:
        guards = dom.guards_of(g2, r)
        allowed_atoms = {'self.xsd_check', 'self._xsd_check', 'self._child_container_tree', 'self.child_container_tree'}
        verdict_vars = set()
        for vc in verdict_calls:
            if isinstance(vc.ast, ast.Assign):
                call = vc.ast.value
                recv = unparse(call.func.value) if isinstance(call, ast.Call) and isinstance(call.func, ast.Attribute) else ''
                if recv in ('self._child_container_tree', 'self.child_container_tree'):
                    kw = {k.arg: unparse(k.value) for k in call.keywords}
                    if kw.get('intelligent_choice') == 'intelligent_choice' or [unparse(a) for a in call.args] == ['intelligent_choice']:
                        for t in vc.ast.targets:
                            if isinstance(t, ast.Name) and len(dom.assignments_to(g2, t.id)) == 1:
                                verdict_vars.add(t.id)
        res.check(bool(verdict_vars), 'R-DOM.validate-before-serialise', fc.fq,
                  "the verdict is self._child_container_tree.get_required_element_names(intelligent_choice=intelligent_choice), assigned once",
                  key='R-DOM.validate-before-serialise|verdict-source')
        extra = []
        has_verdict_guard = False
        for t, lab in guards:
            txt = unparse(t.ast) if t.kind == 'test' else t.text()
            if txt in allowed_atoms and lab == 'T':
                continue
            if txt in verdict_vars and lab == 'T':
                has_verdict_guard = True
                continue
            extra.append(f"{txt} [{lab}]")
        res.check(has_verdict_guard, 'R-DOM.validate-before-serialise', fc.fq, "the rejection is taken exactly when the verdict is non-empty",
                  fail_detail=f"guards: {[unparse(t.ast) for t, _ in guards if t.kind == 'test']}", key='R-DOM.validate-before-serialise|verdict-guard', line=r.line)
        res.check(not extra, 'R-DOM.validate-before-serialise', fc.fq, "the rejection is guarded by nothing but xsd_check, the container's existence and the verdict",
                  fail_detail=f"additional condition(s): {extra}", key='R-DOM.validate-before-serialise|extra-guard', line=r.line)
    # the verdict is computed on every path (checked element that has a container)
    assume = dict(CHECKED)
    assume.update({'self._child_container_tree': True, 'self.child_container_tree': True})
    okf = g2.edge_filter_assuming(assume)
    p = g2.path_avoiding(g2.entry, g2.exit, avoid=verdict_calls, edge_ok=okf)
    res.check(p is None and bool(verdict_calls), 'R-DOM.validate-before-serialise', fc.fq,
              "a checked element with a container cannot finish its final check without asking the container",
              fail_detail='path: ' + ' -> '.join(n.text() for n in (p or [])[:8]), key='R-DOM.validate-before-serialise|verdict-on-every-path')
    # every child is visited, unconditionally
    loops = [n for n in g2.stmt_nodes() if n.kind == 'for' and unparse(n.stmt.iter).startswith('self.get_children(')]
    good = [ln for ln in loops if any(isinstance(s, ast.Expr) and isinstance(s.value, ast.Call) and
                                      unparse(s.value.func) == f"{unparse(ln.stmt.target)}._final_checks" for s in ln.stmt.body)]
    ok = bool(good) and all(g2.path_avoiding(g2.entry, g2.exit, avoid=[ln]) is None for ln in good[:1])
    res.check(ok, 'R-DOM.validate-before-serialise', fc.fq, "every path to the normal exit recurses into all children",
              key='R-DOM.validate-before-serialise|recursion')
    for ln in good[:1]:
        it = ln.stmt.iter
        args_ok = isinstance(it, ast.Call) and not it.args and all(k.arg == 'ordered' for k in it.keywords)
        res.check(args_ok, 'R-DOM.validate-before-serialise', fc.fq, "the recursion iterates all children (no filter argument)",
                  key='R-DOM.validate-before-serialise|recursion-iter')
        direct = [s for s in ln.stmt.body if isinstance(s, ast.Expr)]
        res.check(len(ln.stmt.body) == len(direct), 'R-DOM.validate-before-serialise', fc.fq, "the per-child check is not under a condition",
                  fail_detail=short(ln.stmt.body), key='R-DOM.validate-before-serialise|recursion-unconditional')


# ---------------------------------------------------------------------------------------------- b
def ordered_view_feeds_serialiser(ctx, cg):
    sm, res = ctx.sm, ctx.res
    res.rule('R-DOM.ordered-view', "the serialiser iterates get_children() in ordered mode; the ordered view is derived from the container's "
             "leaves in leaf order (no re-ordering, no filter that can drop a child)")
    ce = sm.func('XMLElement', '_create_et_xml_element', T.M_XMLELEMENT)
    g = cfg_of(ce.node)
    loops = [n for n in g.stmt_nodes() if n.kind == 'for']
    hit = None
    for ln in loops:
        it = ln.stmt.iter
        if isinstance(it, ast.Call) and unparse(it.func) == 'self.get_children':
            hit = ln
    if not res.check(hit is not None, 'R-DOM.ordered-view', ce.fq, "the serialiser iterates self.get_children(...) directly",
                     fail_detail='; '.join(unparse(ln.stmt.iter) for ln in loops), key='R-DOM.ordered-view|serialiser-iter'):
        return
    it = hit.stmt.iter
    ordered_arg = [unparse(k.value) for k in it.keywords if k.arg == 'ordered'] + [unparse(a) for a in it.args[:1]]
    if not ordered_arg:
        # no argument at the call: the parameter's default decides
        gcn = sm.func('XMLElement', 'get_children', T.M_XMLELEMENT).node
        pos = [a.arg for a in gcn.args.posonlyargs + gcn.args.args]
        dflt = dict(zip(pos[len(pos) - len(gcn.args.defaults):], gcn.args.defaults))
        dflt.update({a.arg: d for a, d in zip(gcn.args.kwonlyargs, gcn.args.kw_defaults) if d is not None})
        ordered_arg = [unparse(dflt['ordered'])] if 'ordered' in dflt else ['<no default>']
    res.check(all(a == 'True' for a in ordered_arg), 'R-DOM.ordered-view', ce.fq, "get_children is used in its ordered mode (explicitly or through the parameter's default)",
              fail_detail=f"ordered={ordered_arg}", key='R-DOM.ordered-view|ordered-arg', line=hit.line)
    tgt = unparse(hit.stmt.target)
    appends = [s for s in hit.stmt.body if isinstance(s, ast.Expr) and isinstance(s.value, ast.Call) and
               isinstance(s.value.func, ast.Attribute) and s.value.func.attr == 'append' and s.value.args and
               unparse(s.value.args[0]) in (f"{tgt}.et_xml_element",)]
    res.check(len(appends) == 1 and len(hit.stmt.body) == 1, 'R-DOM.ordered-view', ce.fq,
              "each child's element is appended once, unconditionally, in iteration order", fail_detail=short(hit.stmt.body),
              key='R-DOM.ordered-view|append')
    res.check(g.path_avoiding(g.entry, g.exit, avoid=[hit]) is None, 'R-DOM.ordered-view', ce.fq, "the child loop runs on every path",
              key='R-DOM.ordered-view|loop-on-every-path')
    gc = sm.func('XMLElement', 'get_children', T.M_XMLELEMENT)
    g2 = cfg_of(gc.node)
    assume = dict(CHECKED)
    assume.update({'ordered is False': False, 'ordered': True, 'self.xsd_check is False': False, 'self._child_container_tree': True})
    ok = g2.edge_filter_assuming(assume)
    rets = [n for n in g2.reachable(g2.entry, edge_ok=ok) if n.kind == 'return']
    if not res.check(len(rets) == 1, 'R-DOM.ordered-view', gc.fq, "exactly one return is reachable for a checked element with a container in ordered mode",
                     fail_detail='; '.join(short(r.ast) for r in rets), key='R-DOM.ordered-view|single-return'):
        return
    v = rets[0].ast.value
    shape_ok, detail, bad_filters = _view_shape(ctx, cg, gc, v, rets[0], 'self._child_container_tree')
    res.check(not bad_filters, 'R-DOM.ordered-view', gc.fq, "no filter of the ordered view can drop an attached child",
              fail_detail=str(bad_filters), key='R-DOM.ordered-view|filter', line=rets[0].line)
    res.check(shape_ok, 'R-DOM.ordered-view', gc.fq,
              "the ordered view is [element for leaf in container.iterate_leaves() for element in leaf.content.xml_elements] (leaf order kept), directly, "
              "through a local list filled in that order, a memo field filled with it (coherence: R-MEMO) or a container method that returns it",
              fail_detail=detail, key='R-DOM.ordered-view|shape', line=rets[0].line)


def _leaf_lists(leafvar):
    return (f"{leafvar}.content.xml_elements", f"{leafvar}.content._xml_elements")


def _view_shape(ctx, cg, f, v, at_node, container, depth=0):
    """Is expression v (evaluated at CFG node at_node of function f) the concatenation of the leaves' element lists of
    `container`, in leaf order?  -> (ok, detail, filters that could drop a child)"""
    g = cfg_of(f.node)
    detail = short(v)
    if depth > 3:
        return False, detail, []
    if isinstance(v, ast.ListComp) and len(v.generators) == 2:
        g0, g1 = v.generators
        leafvar = unparse(g0.target)
        ok = (unparse(g0.iter) == f"{container}.iterate_leaves()" and unparse(g1.iter) in _leaf_lists(leafvar) and unparse(v.elt) == unparse(g1.target))
        filters = [unparse(c) for c in g0.ifs + g1.ifs]
        return ok, detail, [x for x in filters if x not in _leaf_lists(leafvar)]
    if isinstance(v, ast.Call) and isinstance(v.func, ast.Name) and v.func.id in ('list', 'tuple') and len(v.args) == 1 and not v.keywords:
        return _view_shape(ctx, cg, f, v.args[0], at_node, container, depth + 1)
    if isinstance(v, ast.Call) and isinstance(v.func, ast.Attribute) and v.func.attr == 'copy' and not v.args:
        return _view_shape(ctx, cg, f, v.func.value, at_node, container, depth + 1)
    if isinstance(v, ast.Subscript) and isinstance(v.slice, ast.Slice) and v.slice.lower is None and v.slice.upper is None and v.slice.step is None:
        return _view_shape(ctx, cg, f, v.value, at_node, container, depth + 1)
    self_name = f.params[0] if f.params else 'self'
    if isinstance(v, ast.Attribute) and isinstance(v.value, ast.Name) and v.value.id == self_name:
        # a memo field filled in this function
        stores = [n for n in g.stmt_nodes() if n.kind == 'stmt' and isinstance(n.ast, ast.Assign) and any(unparse(t) == unparse(v) for t in n.ast.targets)]
        fills = [n for n in stores if not (isinstance(n.ast.value, ast.Constant) and n.ast.value.value is None)]
        if not fills:
            return False, f"{detail}: an instance field that this function does not fill", []
        bad = []
        for n in fills:
            ok, d, fl = _view_shape(ctx, cg, f, n.ast.value, n, container, depth + 1)
            if not ok:
                return False, d, fl
            bad += fl
        return True, detail, bad
    if isinstance(v, ast.Name):
        defs = dom.reaching_defs(g, v.id, at_node)
        if not defs:
            return False, f"{detail}: no reaching definition", []
        bad = []
        for d in defs:
            val = d.ast.value if isinstance(d.ast, ast.Assign) else None
            if isinstance(val, ast.List) and not val.elts:
                ok, dd = _filled_in_leaf_order(f, v.id, container)
                if not ok:
                    return False, dd, []
                continue
            if val is None:
                return False, f"{detail}: defined by `{short(d.ast)}`", []
            ok, dd, fl = _view_shape(ctx, cg, f, val, d, container, depth + 1)
            if not ok:
                return False, dd, fl
            bad += fl
        return True, detail, bad
    if isinstance(v, ast.Call) and isinstance(v.func, ast.Attribute) and unparse(v.func.value) == container and not v.args and not v.keywords:
        callees = {e.callee for e in cg.by_node.get(v, []) if e.kind in ('call', 'super')}
        if len(callees) == 1:
            m = next(iter(callees))
            if m.cls is not None and m.parent is None and m.params:
                mg = cfg_of(m.node)
                rets = [n for n in mg.reachable(mg.entry) if n.kind == 'return' and n.ast.value is not None]
                if rets:
                    bad = []
                    for r in rets:
                        ok, dd, fl = _view_shape(ctx, cg, m, r.ast.value, r, m.params[0], depth + 1)
                        if not ok:
                            return False, f"{m.qualname}: {dd}", fl
                        bad += fl
                    return True, detail, bad
    return False, detail, []


def _filled_in_leaf_order(f, name, container):
    """`name = []` followed only by `for leaf in container.iterate_leaves(): name.extend(leaf.content.xml_elements)` (or the
    nested append loop): every mutation of the list is of that form."""
    ok_sites = set()
    for n in walk_local(f.node, include_root=False):
        if isinstance(n, ast.For) and unparse(n.iter) == f"{container}.iterate_leaves()" and isinstance(n.target, ast.Name) and len(n.body) == 1 and not n.orelse:
            leafvar = n.target.id
            st = n.body[0]
            if isinstance(st, ast.Expr) and isinstance(st.value, ast.Call) and unparse(st.value.func) == f"{name}.extend" and len(st.value.args) == 1 \
                    and unparse(st.value.args[0]) in _leaf_lists(leafvar):
                ok_sites.add(st.value)
            elif isinstance(st, ast.AugAssign) and isinstance(st.op, ast.Add) and unparse(st.target) == name and unparse(st.value) in _leaf_lists(leafvar):
                ok_sites.add(st)
            elif isinstance(st, ast.For) and unparse(st.iter) in _leaf_lists(leafvar) and len(st.body) == 1 and isinstance(st.body[0], ast.Expr) \
                    and isinstance(st.body[0].value, ast.Call) and unparse(st.body[0].value.func) == f"{name}.append" \
                    and [unparse(a) for a in st.body[0].value.args] == [unparse(st.target)]:
                ok_sites.add(st.body[0].value)
    if not ok_sites:
        return False, f"{name} = [] is not filled by a loop over {container}.iterate_leaves() in leaf order"
    for n in walk_local(f.node, include_root=False):
        if isinstance(n, ast.Call) and isinstance(n.func, ast.Attribute) and unparse(n.func.value) == name and \
                n.func.attr in ('append', 'extend', 'insert', 'remove', 'pop', 'sort', 'reverse', 'clear') and n not in ok_sites:
            return False, f"`{short(n)}` edits the list outside the leaf-order fill"
        if isinstance(n, ast.AugAssign) and unparse(n.target) == name and n not in ok_sites:
            return False, f"`{short(n)}` edits the list outside the leaf-order fill"
    return True, ''


# ---------------------------------------------------------------------------------------------- c
LEAF_FIELDS = {'_xml_elements', 'xml_elements'}
LEAF_OWNERS = {'XSDElement.__init__', 'XSDElement.add_xml_element', 'XMLElement.remove', 'XMLElement.replace_child'}


def _name_gate(g, node, edge_ok=None):
    """A test comparing two `.name`s (== / !=) that every path to node passes on its 'names equal' edge while the other edge raises."""
    for t, lab in dom.guards_of(g, node, edge_ok=edge_ok):
        if t.kind != 'test':
            continue
        for c in ast.walk(t.ast):
            if isinstance(c, ast.Compare) and len(c.ops) == 1 and isinstance(c.ops[0], (ast.Eq, ast.NotEq)):
                l, r = c.left, c.comparators[0]
                if isinstance(l, ast.Attribute) and isinstance(r, ast.Attribute) and l.attr == 'name' and r.attr == 'name':
                    equal_edge = 'F' if isinstance(c.ops[0], ast.NotEq) else 'T'
                    other = 'T' if equal_edge == 'F' else 'F'
                    # conjunctions: `a and names_differ` raising is still a rejection only if names differ -> require the
                    # comparison to be the whole test or a conjunct together with the xsd_check flag
                    conj = [unparse(x) for x in (t.ast.values if isinstance(t.ast, ast.BoolOp) and isinstance(t.ast.op, ast.And) else [t.ast])]
                    rest = [x for x in conj if x != unparse(c)]
                    if all(x in ('self.xsd_check', 'self._xsd_check') for x in rest) and lab == equal_edge and dom.branch_raises(g, t, other):
                        return t, (unparse(l.value), unparse(r.value))
    return None, None


def leaf_name_ownership(ctx, cg, ef):
    sm, res = ctx.sm, ctx.res
    res.rule('R-OWN.leaf', "only the owner functions store into a leaf's element list, and every store of an element is dominated by an "
             "equality test between the element's name and the leaf's / replaced element's name whose failing edge raises")
    writers = {}
    for f, ws in ef.local_writes.items():
        for w in ws:
            if w.field in LEAF_FIELDS:
                writers.setdefault(f, []).append(w)
    for f, ws in writers.items():
        res.check(dom.owner_or_helper(cg, f, LEAF_OWNERS), 'R-OWN.leaf', f.fq, "writer of XSDElement._xml_elements is one of the owner functions",
                  fail_detail=f"{short(ws[0].node, 80)}; owners: {sorted(LEAF_OWNERS)}", key=f"R-OWN.leaf|writer|{f.qualname}", line=ws[0].node.lineno)
    res.floor('R-OWN.leaf writers', len(writers), 4)
    # add_xml_element: append after the name test
    ax = sm.func('XSDElement', 'add_xml_element', T.M_XSDELEMENT)
    g = cfg_of(ax.node)
    stores = [n for n in g.stmt_nodes() if any(isinstance(c, ast.Call) and isinstance(c.func, ast.Attribute) and c.func.attr in ('append', 'insert', 'extend')
                                                and unparse(c.func.value) in ('self._xml_elements', 'self.xml_elements') for e in n.exprs() for c in walk_local(e))]
    res.check(bool(stores), 'R-OWN.leaf', ax.fq, "add_xml_element stores the element into the leaf's list", key='R-OWN.leaf|add_xml_element|store')
    p0 = ax.params[1] if len(ax.params) > 1 else 'el'
    for s in stores:
        t, pair = _name_gate(g, s)
        ok = t is not None and set(pair) == {p0, 'self'}
        res.check(ok, 'R-OWN.leaf', ax.fq, f"the store is dominated by `{p0}.name != self.name -> raise`",
                  fail_detail=f"gate: {unparse(t.ast) if t else None}", key='R-OWN.leaf|add_xml_element|name-gate', line=s.line)
    # replace_child: the rebinding is dominated by new.name == old_child.name
    rc = sm.func('XMLElement', 'replace_child', T.M_XMLELEMENT)
    g = cfg_of(rc.node)
    on = g.edge_filter_assuming(CHECKED)
    rws = [w for w in ef.local_writes[rc] if w.field in LEAF_FIELDS]
    for w in rws:
        pm = ef._parent_map(rc)
        st = w.node
        while st is not None and st not in g.node_of_stmt:
            st = pm.get(st)
        node = g.node_of_stmt.get(st)
        if node is None:
            raise AnalysisError("replace_child: cannot locate the leaf store in the CFG")
        t, pair = _name_gate(g, node, edge_ok=on)
        new_p = rc.params[2] if len(rc.params) > 2 else 'new'
        ok = t is not None and new_p in pair
        res.check(ok, 'R-OWN.leaf', rc.fq, "the slot swap is dominated by a test that the replacement has the replaced child's element name (failing edge raises)",
                  fail_detail=f"store {short(w.node, 70)}; gate: {unparse(t.ast) if t else None}", key='R-OWN.leaf|replace_child|name-gate', line=node.line)
        if ok:
            # the gate precedes every mutation of the insertion list
            muts = dom.list_mutation_nodes(g, 'self._unordered_children')
            res.check(all(g.path_avoiding(g.entry, m, avoid=[t], edge_ok=on) is None for m in muts), 'R-OWN.leaf', rc.fq, "the name test precedes every change of the insertion list",
                      key='R-OWN.leaf|replace_child|gate-first')


# ---------------------------------------------------------------------------------------------- d
def attach_after_occurrence_check(ctx, cg):
    sm, res = ctx.sm, ctx.res
    res.rule('R-DOM.attach-max', "the leaf that receives the new element in add_element comes, on every reaching definition, from a collection "
             "filtered by `not leaf.max_is_reached` (or is tested directly)")
    global _SM
    _SM = sm
    ae = sm.func('XMLChildContainer', 'add_element', T.M_CONTAINER)
    g = cfg_of(ae.node)
    attaches = dom.nodes_calling(g, lambda c: isinstance(c.func, ast.Attribute) and c.func.attr == 'add_xml_element')
    if not attaches:
        raise AnalysisError("XMLChildContainer.add_element: the attach site (…add_xml_element(…)) vanished")
    n_defs = 0
    for a in attaches:
        call = [c for e in a.exprs() for c in walk_local(e) if isinstance(c, ast.Call) and isinstance(c.func, ast.Attribute) and c.func.attr == 'add_xml_element'][0]
        base = call.func.value
        while isinstance(base, ast.Attribute):
            base = base.value
        if not isinstance(base, ast.Name):
            raise AnalysisError(f"add_element: receiver of the attach `{short(call)}` is not a variable (idiom not understood)")
        var = base.id
        for d in dom.reaching_defs(g, var, a):
            n_defs += 1
            ok, why = _def_is_max_filtered(g, d, var, a)
            res.check(ok, 'R-DOM.attach-max', ae.fq, f"definition `{short(d.ast, 70)}` of the attach target is max-filtered",
                      fail_detail=why, key=f"R-DOM.attach-max|{_def_kind(d, ae)}", line=d.line)
    res.floor('R-DOM.attach-max reaching definitions', n_defs, 2)


def _def_kind(d, ae) -> str:
    """Rename-stable description of a definition of the attach target: which kind of collection, indexed by what."""
    v = d.ast.value if isinstance(d.ast, ast.Assign) else None
    if isinstance(v, ast.Subscript):
        idx = unparse(v.slice)
        kind = 'parameter' if isinstance(v.slice, ast.Name) and v.slice.id in ae.params else 'constant' if isinstance(v.slice, (ast.Constant, ast.UnaryOp)) else 'expression'
        return f"candidate-leaves[{idx if kind != 'expression' else kind}] ({kind} index)"
    return 'other'


def _is_max_filter(cond, var) -> bool:
    txt = unparse(cond)
    return txt in (f"not {var}.max_is_reached", f"{var}.max_is_reached is False", f"{var}.max_is_reached == False")


def _is_filtered_comp(v) -> bool:
    if isinstance(v, ast.ListComp) and len(v.generators) == 1:
        gen = v.generators[0]
        tv = unparse(gen.target)
        conds = []
        for c in gen.ifs:
            conds += c.values if isinstance(c, ast.BoolOp) and isinstance(c.op, ast.And) else [c]
        return any(_is_max_filter(c, tv) for c in conds) and unparse(v.elt) == tv
    return False


_SM = None


def _helper_returns_filtered(owner_fn, call) -> bool:
    """`name(...)` where name is a function nested in owner_fn, or `self.name(...)` where name is a method of the container
    class, whose every non-None return value is a max-filtered comprehension (an extracted helper).  A None return cannot
    become an attach target (subscripting it fails before the attach)."""
    if not isinstance(call, ast.Call):
        return False
    target = None
    if isinstance(call.func, ast.Name):
        for n in ast.walk(owner_fn):
            if isinstance(n, ast.FunctionDef) and n.name == call.func.id and n is not owner_fn:
                target = n
    elif isinstance(call.func, ast.Attribute) and isinstance(call.func.value, ast.Name) and call.func.value.id == 'self' and _SM is not None:
        fi = _SM.func('XMLChildContainer', call.func.attr, T.M_CONTAINER, required=False)
        target = fi.node if fi is not None else None
    if target is None:
        return False
    rets = [r for r in walk_local(target) if isinstance(r, ast.Return)]
    vals = [r.value for r in rets if r.value is not None and not (isinstance(r.value, ast.Constant) and r.value.value is None)]
    if not vals:
        return False
    hg = cfg_of(target)
    for v in vals:
        if _is_filtered_comp(v):
            continue
        if isinstance(v, ast.Name):
            ds = dom.assignments_to(hg, v.id)
            if ds and all(isinstance(d.ast, ast.Assign) and _is_filtered_comp(d.ast.value) for d in ds):
                continue
        return False
    return True


def _collection_filtered(g, name, use, depth=0) -> (bool, str):
    """Every definition of collection `name` reaching `use` is a comprehension whose filter includes `not x.max_is_reached`
    (directly or through a local helper that returns such a comprehension)."""
    defs = dom.reaching_defs(g, name, use)
    if not defs:
        return False, f"{name} has no reaching definition"
    for d in defs:
        v = d.ast.value if isinstance(d.ast, ast.Assign) else None
        if _is_filtered_comp(v) or _helper_returns_filtered(g.fn, v):
            continue
        if isinstance(v, ast.Constant) and v.value is None:
            continue        # None cannot yield an attach target: subscripting it fails before the attach
        return False, f"`{short(d.ast, 90)}` is not a max-filtered comprehension"
    return True, ''


def _def_is_max_filtered(g, d, var, attach) -> (bool, str):
    v = d.ast.value if isinstance(d.ast, ast.Assign) else None
    if isinstance(v, ast.Subscript) and isinstance(v.value, ast.Name):
        ok, why = _collection_filtered(g, v.value.id, d)
        if ok:
            return True, ''
        # direct test between the definition and the attach: every path from this definition to the attach passes a test of
        # `<var>.max_is_reached` whose true edge rejects
        tests = [t for t in g.stmt_nodes() if t.kind == 'test' and unparse(t.ast) == f"{var}.max_is_reached" and dom.branch_raises(g, t, 'T')]
        tests += [t for t in g.stmt_nodes() if t.kind == 'test' and unparse(t.ast) in (f"{var}.max_is_reached is False", f"{var}.max_is_reached == False")
                  and dom.branch_raises(g, t, 'F')]
        if tests and g.path_avoiding(d, attach, avoid=tests) is None:
            return True, ''
        return False, why + "; and the selected leaf is not tested before the attach"
    return False, "the attach target is not taken from a collection of candidate leaves"
