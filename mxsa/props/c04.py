"""C04 - the attribute interface of each element is exactly the schema's (R-DOM check-before-store, R-TAB)."""
import ast

from ..astutil import unparse, short, walk_local, dotted, const_value
from ..cfg import cfg_of
from ..srcmodel import AnalysisError
from ..rules import tables as T
from ..rules import dom
from .. import abseval
from . import c03

ATTR_OBJ = ('self._attributes', 'self.attributes')
MUTATING = {'pop', 'popitem', 'clear', 'update', 'setdefault', '__setitem__', '__delitem__'}


def run(ctx):
    sm, sc, res = ctx.sm, ctx.schema, ctx.res
    res.assume("the value half of the 'iff' (which values a simple type accepts) is decided under C05")
    el_classes, names, decl_type, anon_expected = c03.run_attribute_part(ctx)
    check_before_store(ctx)
    check_attribute_gate(ctx)
    required_attributes(ctx)
    verbatim_serialisation(ctx)
    routing(ctx, el_classes)


# ---------------------------------------------------------------------------------------------- A1
def check_before_store(ctx):
    sm, res = ctx.sm, ctx.res
    res.rule('R-DOM.check-before-store', "every key stored into the attribute dictionary has passed _check_attribute; the store is one rebinding after "
             "all checks; in-place edits of the dictionary concern None-valued keys only (removal)")
    f = sm.func('XMLElement', '_set_attributes', T.M_XMLELEMENT)
    g = cfg_of(f.node)
    stores = [n for n in g.stmt_nodes() if n.kind == 'stmt' and isinstance(n.ast, (ast.Assign, ast.AugAssign)) and
              any(unparse(t) in ATTR_OBJ for t in (n.ast.targets if isinstance(n.ast, ast.Assign) else [n.ast.target]))]
    swap = _working_copy(g, stores)
    _in_place_edits(ctx, f, g, extra_holders={swap} if swap else set())
    rejects_non_attributes(ctx)
    if swap:
        _copy_and_swap(ctx, f, g, stores[0], swap)
        return
    if len(stores) == 0:
        # per-key form: every `self._attributes[k] = v` must be dominated by `self._check_attribute(k, v)`
        sub = []
        for n in g.stmt_nodes():
            if n.kind == 'stmt' and isinstance(n.ast, ast.Assign):
                for t in n.ast.targets:
                    if isinstance(t, ast.Subscript) and unparse(t.value) in ATTR_OBJ:
                        sub.append((n, unparse(t.slice), unparse(n.ast.value)))
        res.check(bool(sub), 'R-DOM.check-before-store', f.fq, "the attribute dictionary is written somewhere in _set_attributes", key='R-DOM.check-before-store|no-store')
        for n, k, v in sub:
            gates = dom.nodes_calling(g, lambda c: unparse(c.func) == 'self._check_attribute' and [unparse(a) for a in c.args] == [k, v])
            res.check(bool(gates) and g.path_avoiding(g.entry, n, avoid=gates) is None, 'R-DOM.check-before-store', f.fq,
                      f"`{short(n.ast)}` is dominated by self._check_attribute({k}, {v})", key=f"R-DOM.check-before-store|item-store|{k}", line=n.line)
        return
    if not res.check(len(stores) == 1, 'R-DOM.check-before-store', f.fq, "one statement rebinds the attribute dictionary",
                     fail_detail=f"{len(stores)} store(s)", key='R-DOM.check-before-store|single-store'):
        return
    st = stores[0]
    v = st.ast.value
    merged = None
    if isinstance(v, ast.Dict) and all(k is None for k in v.keys) and len(v.values) == 2 and unparse(v.values[0]) in ATTR_OBJ and isinstance(v.values[1], ast.Name):
        merged = v.values[1].id
    elif isinstance(v, ast.BinOp) and isinstance(v.op, ast.BitOr) and unparse(v.left) in ATTR_OBJ and isinstance(v.right, ast.Name):
        merged = v.right.id
    if not res.check(merged is not None, 'R-DOM.check-before-store', f.fq, "the store merges the old dictionary with one dictionary of new entries",
                     fail_detail=short(st.ast), key='R-DOM.check-before-store|merge-shape', line=st.line):
        return
    # the checking loop over the merged dictionary
    loops = []
    for n in g.stmt_nodes():
        if n.kind == 'for' and unparse(n.stmt.iter) in (merged, f"{merged}.items()", f"{merged}.keys()", f"list({merged})"):
            calls = [c for s in n.stmt.body for c in ast.walk(s) if isinstance(c, ast.Call) and unparse(c.func) == 'self._check_attribute']
            direct = [s for s in n.stmt.body if isinstance(s, ast.Expr) and isinstance(s.value, ast.Call) and unparse(s.value.func) == 'self._check_attribute']
            if direct:
                loops.append((n, direct[0].value))
    if not res.check(len(loops) >= 1, 'R-DOM.check-before-store', f.fq, f"a loop checks every entry of `{merged}` with self._check_attribute, unconditionally",
                     key='R-DOM.check-before-store|check-loop'):
        return
    ln, call = loops[0]
    tgt = unparse(ln.stmt.target)
    a = [unparse(x) for x in call.args]
    ok_args = (a == [tgt, f"{merged}[{tgt}]"]) or (isinstance(ln.stmt.target, ast.Tuple) and a == [unparse(e) for e in ln.stmt.target.elts])
    res.check(ok_args, 'R-DOM.check-before-store', f.fq, "the check receives the key and the value that will be stored", fail_detail=f"_check_attribute({', '.join(a)})",
              key='R-DOM.check-before-store|check-args', line=ln.line)
    gate_nodes = dom.nodes_calling(g, lambda c: unparse(c.func) == 'self._check_attribute')
    body_starts = [m for m, lab in g.succ[ln] if lab == 'loop']
    around = any(g.path_avoiding(b, ln, avoid=gate_nodes) is not None for b in body_starts if b not in gate_nodes)
    res.check(not around, 'R-DOM.check-before-store', f.fq, "inside the loop no path skips the check for an entry (no `continue` / condition around it)",
              fail_detail="an iteration can complete without calling _check_attribute: the entry is merged unvalidated", key='R-DOM.check-before-store|check-every-entry', line=ln.line)
    res.check(g.path_avoiding(g.entry, st, avoid=[ln]) is None, 'R-DOM.check-before-store', f.fq, "the checking loop dominates the store",
              key='R-DOM.check-before-store|dominates', line=st.line)
    # nothing re-defines / extends the merged dict between the loop and the store
    redefs = [d for d in dom.assignments_to(g, merged) if g.path_avoiding(ln, d) is not None and d is not ln and g.path_avoiding(d, st) is not None and
              g.dominates(ln, d)]
    muts_after = []
    for n in g.reachable(ln) - {ln}:
        if n in g.reachable(st) and n is not st:
            continue
        for e in n.exprs():
            for c in walk_local(e):
                if isinstance(c, ast.Call) and isinstance(c.func, ast.Attribute) and unparse(c.func.value) == merged and c.func.attr in MUTATING | {'update'}:
                    if n not in [x for x in ln.stmt.body]:
                        muts_after.append(n)
    res.check(not redefs, 'R-DOM.check-before-store', f.fq, f"`{merged}` is not re-bound between its check and the store",
              fail_detail='; '.join(short(d.ast) for d in redefs), key='R-DOM.check-before-store|redefined')
    # the merged dict comes from the caller's dict through the key normaliser only
    defs = dom.assignments_to(g, merged)
    srcs = [unparse(d.ast.value) for d in defs if isinstance(d.ast, ast.Assign)]
    p = f.params[1] if len(f.params) > 1 else 'val'
    from_normaliser = any(s.startswith('replace_key_underline_with_hyphen(') and p in s for s in srcs)
    if not from_normaliser and srcs in (['{}'], ['dict()']):
        # an empty dictionary filled entry by entry from the normalised input: `for k, v in replace_key_underline_with_hyphen(val).items(): ... merged[k] = v`
        fills = [n for n in g.stmt_nodes() if n.kind == 'stmt' and isinstance(n.ast, ast.Assign) and len(n.ast.targets) == 1 and isinstance(n.ast.targets[0], ast.Subscript)
                 and unparse(n.ast.targets[0].value) == merged]
        ok_fill = bool(fills)
        for n in fills:
            k_, v_ = unparse(n.ast.targets[0].slice), unparse(n.ast.value)
            lps = [t for t, lab in dom.guards_of(g, n) if t.kind == 'for' and lab == 'loop' and isinstance(t.stmt.target, ast.Tuple) and
                   [unparse(e_) for e_ in t.stmt.target.elts] == [k_, v_]]
            src_ = unparse(dom.expand(g, lps[0].stmt.iter, lps[0])) if lps else ''
            ok_fill = ok_fill and bool(lps) and src_.startswith('replace_key_underline_with_hyphen(') and src_.endswith('.items()') and p in src_
        from_normaliser = ok_fill
    res.check(from_normaliser, 'R-DOM.check-before-store', f.fq,
              "the new entries are the caller's dictionary with `_` mapped to `-` in the keys", fail_detail=str(srcs), key='R-DOM.check-before-store|source')
    # callers other than __init__ pass a one-entry dict display (premise for accepting the removal before the checks)
    from ..engine import get_cg
    cg = get_cg(ctx)
    for e in cg.inn.get(f, []):
        if e.caller.name == '__init__':
            continue
        arg = e.node.args[0] if isinstance(e.node, ast.Call) and e.node.args else None
        ok = isinstance(arg, ast.Dict) and len(arg.keys) == 1
        res.check(ok, 'R-DOM.check-before-store', e.caller.fq, "_set_attributes is called with a one-entry dictionary (premise: removal and validation never mix)",
                  fail_detail=short(e.node), key=f"R-DOM.check-before-store|caller|{e.caller.qualname}")


def _working_copy(g, stores):
    """`self._attributes = W` where W is a local bound once to a fresh copy of the stored dictionary: the copy-and-swap form"""
    if len(stores) != 1 or not isinstance(stores[0].ast, ast.Assign) or not isinstance(stores[0].ast.value, ast.Name):
        return None
    w = stores[0].ast.value.id
    defs = dom.assignments_to(g, w)
    if len(defs) != 1 or not isinstance(defs[0].ast, ast.Assign):
        return None
    v = unparse(defs[0].ast.value)
    copies = {f"dict({o})" for o in ATTR_OBJ} | {f"{o}.copy()" for o in ATTR_OBJ} | {'{**' + o + '}' for o in ATTR_OBJ} | {f"copy.copy({o})" for o in ATTR_OBJ}
    return w if v in copies else None


def _copy_and_swap(ctx, f, g, st, w):
    """All edits go to a private copy that replaces the stored dictionary at the end: every entry written into the copy has passed the gate in the
    same iteration, every entry of the caller's dictionary is either removed (None) or checked, and the swap happens only after the loop has run
    to its end."""
    res = ctx.res
    p = f.params[1] if len(f.params) > 1 else 'val'
    item_stores = []
    for n in g.stmt_nodes():
        if n.kind == 'stmt' and isinstance(n.ast, ast.Assign):
            for t in n.ast.targets:
                if isinstance(t, ast.Subscript) and unparse(t.value) == w:
                    item_stores.append((n, unparse(t.slice), unparse(n.ast.value)))
        for e in n.exprs():
            for c in walk_local(e):
                if isinstance(c, ast.Call) and isinstance(c.func, ast.Attribute) and unparse(c.func.value) == w and c.func.attr in ('update', 'setdefault', '__setitem__'):
                    item_stores.append((n, '<' + c.func.attr + '>', unparse(c)))
    res.check(bool(item_stores), 'R-DOM.check-before-store', f.fq, f"new entries are written into the working copy `{w}`", key='R-DOM.check-before-store|no-store')
    loops = [n for n in g.stmt_nodes() if n.kind == 'for']
    covered = None
    for n, k, v in item_stores:
        gates = dom.nodes_calling(g, lambda c: unparse(c.func) == 'self._check_attribute' and [unparse(a) for a in c.args] == [k, v])
        # the loop that binds key and value
        ln = next((l for l in loops if any(t is l and lab == 'loop' for t, lab in dom.guards_of(g, n)) and
                   isinstance(l.stmt.target, ast.Tuple) and [unparse(e) for e in l.stmt.target.elts] == [k, v]), None)
        ok = bool(gates) and ln is not None and all(g.path_avoiding(b, n, avoid=gates) is None for b, lab in g.succ[ln] if lab == 'loop')
        rebound = ln is not None and any(d is not ln and any(t is ln for t, _ in dom.guards_of(g, d)) for nm in (k, v) for d in dom.assignments_to(g, nm))
        res.check(ok and not rebound, 'R-DOM.check-before-store', f.fq, f"`{short(n.ast)}` is preceded in the same iteration by self._check_attribute({k}, {v})",
                  fail_detail="the entry can reach the copy unvalidated" if not ok else "key or value is re-bound inside the loop", key=f"R-DOM.check-before-store|item-store|{k}",
                  line=n.line)
        covered = covered or ln
    if covered is None:
        return
    ln = covered
    it = ln.stmt.iter
    src = unparse(it)
    if isinstance(it, ast.Call) and isinstance(it.func, ast.Attribute) and it.func.attr == 'items' and isinstance(it.func.value, ast.Name):
        ds = dom.assignments_to(g, it.func.value.id)
        src = ' '.join(unparse(d.ast.value) for d in ds if isinstance(d.ast, ast.Assign))
    res.check(src.startswith('replace_key_underline_with_hyphen(') and p in src, 'R-DOM.check-before-store', f.fq,
              "the loop runs over the caller's dictionary with `_` mapped to `-` in the keys", fail_detail=src, key='R-DOM.check-before-store|source')
    k, v = [unparse(e) for e in ln.stmt.target.elts]
    gate_nodes = dom.nodes_calling(g, lambda c: unparse(c.func) == 'self._check_attribute' and [unparse(a) for a in c.args] == [k, v])
    not_none = g.edge_filter_assuming({f"{v} is None": False})
    around = any(g.path_avoiding(b, ln, avoid=gate_nodes, edge_ok=not_none) is not None for b, lab in g.succ[ln] if lab == 'loop' and b not in gate_nodes)
    res.check(not around, 'R-DOM.check-before-store', f.fq, "inside the loop no path skips the check for an entry whose value is not None",
              fail_detail="an iteration can complete without calling _check_attribute", key='R-DOM.check-before-store|check-every-entry', line=ln.line)
    has_break = any(isinstance(x, ast.Break) for s in ln.stmt.body for x in ast.walk(s))
    res.check(g.path_avoiding(g.entry, st, avoid=[ln]) is None and not has_break, 'R-DOM.check-before-store', f.fq,
              "the swap follows the complete loop (no break): a rejected value leaves the stored dictionary as it was", key='R-DOM.check-before-store|dominates', line=st.line)


def removal_is_total(ctx, ef):
    """C19: removing an attribute that is not set is not an error (`el.a = None` twice, `XMLNote(default_x=None)`): the removal of a key from the
    attribute dictionary (or its working copy) cannot raise KeyError."""
    sm, res = ctx.sm, ctx.res
    f = sm.func('XMLElement', '_set_attributes', T.M_XMLELEMENT)
    g = cfg_of(f.node)
    stores = [n for n in g.stmt_nodes() if n.kind == 'stmt' and isinstance(n.ast, (ast.Assign, ast.AugAssign)) and
              any(unparse(t) in ATTR_OBJ for t in (n.ast.targets if isinstance(n.ast, ast.Assign) else [n.ast.target]))]
    swap = _working_copy(g, stores)
    holders = set(ATTR_OBJ) | ({swap} if swap else set())
    n_rm = 0
    for n in g.stmt_nodes():
        for e in n.exprs():
            for c in walk_local(e):
                key = None
                if isinstance(c, ast.Call) and isinstance(c.func, ast.Attribute) and unparse(c.func.value) in holders and c.func.attr == 'pop' and len(c.args) == 1 and not c.keywords:
                    key, holder = unparse(c.args[0]), unparse(c.func.value)
                elif isinstance(c, ast.Subscript) and unparse(c.value) in holders and isinstance(c.ctx, ast.Del):
                    key, holder = unparse(c.slice), unparse(c.value)
                if key is None:
                    continue
                n_rm += 1
                guarded = any(t.kind == 'test' and lab == 'T' and isinstance(t.ast, ast.Compare) and isinstance(t.ast.ops[0], ast.In) and unparse(t.ast.left) == key and
                              unparse(t.ast.comparators[0]) in holders for t, lab in dom.guards_of(g, n))
                ok = guarded or ef.caught(f, n.ast if n.kind == 'stmt' else c, 'KeyError')
                res.check(ok, 'R-TAINT.subscript', f.fq, f"`{short(c, 50)}` cannot raise for a key that is not set (inside `except KeyError`, or under `{key} in {holder}`)",
                          fail_detail="assigning None to an attribute that is not set leaves __setattr__ / the constructor with an internal KeyError",
                          key=f"R-TAINT.subscript|attribute-removal|{'pop' if isinstance(c, ast.Call) else 'del'}", line=n.line)
    return n_rm


def rejects_non_attributes(ctx):
    """Elements of a simple type have no attributes; a non-dictionary is not an attribute set."""
    sm, res = ctx.sm, ctx.res
    f = sm.func('XMLElement', '_set_attributes', T.M_XMLELEMENT)
    g = cfg_of(f.node)
    p = f.params[1]
    r1 = r2 = False
    for n in g.stmt_nodes():
        if n.kind == 'stmt' and isinstance(n.ast, ast.Raise):
            guards = [(unparse(t.ast), lab) for t, lab in dom.guards_of(g, n) if t.kind == 'test']
            txt = unparse(n.ast)
            if 'XSDWrongAttribute' in txt and ('self.TYPE.get_xsd_tree().is_simple_type', 'T') in guards and (p, 'T') in guards:
                r1 = True
            if 'TypeError' in txt and any(gt == f"isinstance({p}, dict)" and lab == 'F' for gt, lab in guards):
                r2 = True
    res.check(r1, 'R-DOM.check-before-store', f.fq, "an element of a simple type rejects any attribute with XSDWrongAttribute", key='R-DOM.check-before-store|simple-type-no-attributes')
    res.check(r2, 'R-DOM.check-before-store', f.fq, "a non-dictionary is rejected with TypeError before anything is read from it", key='R-DOM.check-before-store|non-dict')


def _in_place_edits(ctx, f, g, extra_holders=frozenset()):
    res = ctx.res
    holders = set(ATTR_OBJ) | set(extra_holders)
    # in-place edits of the attribute dict: None-valued keys only
    n_pop = 0
    for n in g.stmt_nodes():
        for e in n.exprs():
            for c in walk_local(e):
                hit = None
                if isinstance(c, ast.Call) and isinstance(c.func, ast.Attribute) and unparse(c.func.value) in holders and c.func.attr in MUTATING:
                    hit = c
                if isinstance(c, (ast.Subscript,)) and unparse(c.value) in holders and isinstance(c.ctx, ast.Del):
                    hit = c
                if hit is None:
                    continue
                n_pop += 1
                ok = _only_for_none_values(g, n, hit)
                res.check(ok, 'R-DOM.check-before-store', f.fq, f"`{short(hit)}` edits the stored attributes only for keys whose new value is None",
                          fail_detail="an existing value can be dropped before (or without) its replacement passing the check",
                          key=f"R-DOM.check-before-store|in-place|{short(hit, 50)}", line=n.line)
    res.check(n_pop >= 1, 'R-DOM.check-before-store', f.fq, "assigning None removes the attribute (a removal of None-valued keys exists)",
              key='R-DOM.check-before-store|none-removes')


def _only_for_none_values(g, node, hit) -> bool:
    """The edit happens inside a loop over a collection built with an `is None` filter, or under an `is None` test."""
    for t, lab in dom.guards_of(g, node):
        if t.kind == 'test' and lab == 'T' and isinstance(t.ast, ast.Compare) and isinstance(t.ast.ops[0], ast.Is) and const_value(t.ast.comparators[0], 0) is None:
            return True
        if t.kind == 'for' and lab == 'loop':
            it = t.stmt.iter
            if isinstance(it, (ast.DictComp, ast.ListComp, ast.SetComp, ast.GeneratorExp)) and \
                    any(isinstance(c, ast.Compare) and isinstance(c.ops[0], ast.Is) and const_value(c.comparators[0], 0) is None for gen in it.generators for c in gen.ifs):
                return True          # the comprehension with the `is None` filter written in the loop header
            name = it.id if isinstance(it, ast.Name) else (it.func.value.id if isinstance(it, ast.Call) and isinstance(it.func, ast.Attribute) and isinstance(it.func.value, ast.Name) else None)
            if name:
                defs = dom.assignments_to(g, name)
                if defs and all(isinstance(d.ast, ast.Assign) and isinstance(d.ast.value, (ast.DictComp, ast.ListComp, ast.SetComp)) and
                                any(isinstance(c, ast.Compare) and isinstance(c.ops[0], ast.Is) and const_value(c.comparators[0], 0) is None
                                    for gen in d.ast.value.generators for c in gen.ifs) for d in defs):
                    return True
    return False


def _is_name_table(g, fnode, name: str, at, depth=0) -> bool:
    """the local `name` holds, at node `at`, a dictionary {a.name: a for a in self.TYPE.get_xsd_attributes()}: built by such a comprehension, or from `{}` by
    an unconditional loop over the attribute table that stores each attribute under its name and nothing else, or read from a class-level registry
    (`Cls.T.get(k)` / `Cls.T[k]`) every store into which, in this function, is such a dictionary under the same key"""
    ATTRS = 'self.TYPE.get_xsd_attributes()'
    ds = dom.reaching_defs(g, name, at)
    if not ds or depth > 1:
        return False
    for d in ds:
        v = d.ast.value if isinstance(d.ast, ast.Assign) and len(d.ast.targets) == 1 else None
        if isinstance(v, ast.DictComp) and len(v.generators) == 1 and not v.generators[0].ifs and unparse(v.generators[0].iter) == ATTRS and \
                unparse(v.key) == f"{unparse(v.generators[0].target)}.name" and unparse(v.value) == unparse(v.generators[0].target):
            continue
        if isinstance(v, ast.Dict) and not v.keys:
            fills = [n for n in g.stmt_nodes() if n.kind == 'stmt' and isinstance(n.ast, ast.Assign) and len(n.ast.targets) == 1 and isinstance(n.ast.targets[0], ast.Subscript)
                     and unparse(n.ast.targets[0].value) == name]
            others = [n for n in dom.list_mutation_nodes(g, name) if n not in fills]
            good = bool(fills) and not others
            for n in fills:
                val = unparse(n.ast.value)
                gs = dom.guards_of(g, n)
                lp = [t for t, lab in gs if t.kind == 'for' and lab == 'loop' and unparse(t.stmt.target) == val and unparse(dom.expand(g, t.stmt.iter, t)) == ATTRS]
                tests = [t for t, lab in gs if t.kind == 'test' and not any(t is x for x, _ in dom.guards_of(g, d))]
                good = good and bool(lp) and unparse(n.ast.targets[0].slice) == f"{val}.name" and not tests
            if good:
                continue
            return False
        reg = key = None
        if isinstance(v, ast.Call) and isinstance(v.func, ast.Attribute) and v.func.attr == 'get' and len(v.args) == 1 and isinstance(v.func.value, ast.Attribute):
            reg, key = unparse(v.func.value), unparse(v.args[0])
        elif isinstance(v, ast.Subscript) and isinstance(v.value, ast.Attribute):
            reg, key = unparse(v.value), unparse(v.slice)
        if reg is not None:
            stores = [n for n in g.stmt_nodes() if n.kind == 'stmt' and isinstance(n.ast, ast.Assign) and len(n.ast.targets) == 1 and isinstance(n.ast.targets[0], ast.Subscript)
                      and unparse(n.ast.targets[0].value) == reg]
            if stores and all(unparse(n.ast.targets[0].slice) == key and isinstance(n.ast.value, ast.Name) and _is_name_table(g, fnode, n.ast.value.id, n, depth + 1)
                              for n in stores):
                continue
        return False
    return True


CACHE_DECORATORS = {'lru_cache', 'cache', 'functools.lru_cache', 'functools.cache', 'cached', 'memoize', 'memoized'}
PLAIN_DECORATORS = {'property', 'staticmethod', 'classmethod', 'abstractmethod', 'abc.abstractmethod'}


def no_value_keyed_cache(ctx):
    """the validation path is not memoised by argument value"""
    sm, res = ctx.sm, ctx.res
    res.rule('R-MEMO.value-keyed', "no function on the validation path (value and attribute gates and everything they call) is wrapped in a cache keyed by its "
             "arguments (functools.lru_cache / cache): such a key is equality, and 2 == 2.0 == True, 0 == 0.0 == False, so a verdict reached for one Python type is "
             "handed out for another, while every gate decides by type first")
    from ..engine import get_cg
    cg = get_cg(ctx)
    roots = [sm.func('XMLElement', 'value_', T.M_XMLELEMENT, setter=True), sm.func('XMLElement', '_set_attributes', T.M_XMLELEMENT),
             sm.func('XMLElement', '_check_attribute', T.M_XMLELEMENT), sm.func('XSDAttribute', '__call__', T.M_ATTR),
             sm.func('XSDSimpleType', '__init__', T.M_SIMPLE), sm.func('XSDComplexType', '__init__', T.M_COMPLEX)]
    closure = cg.closure(roots)
    n = 0
    for f in sorted(closure, key=lambda x: x.fq):
        if not f.module.name.startswith('musicxml'):
            continue
        n += 1
        keyed = None
        for d in f.decorators:
            base = d.split('(')[0]
            if base in PLAIN_DECORATORS or base.endswith(('.setter', '.getter', '.deleter')):
                continue
            if base in CACHE_DECORATORS:
                if [p for p in f.params if p not in ('self', 'cls')] and 'typed=True' not in d.replace(' ', ''):      # typed=True keys by (type, value)
                    keyed = d
                continue
            raise AnalysisError(f"{f.fq}: decorator `@{d}` on a function of the validation path is not understood (the analysed body may not be what is called)")
        res.check(keyed is None, 'R-MEMO.value-keyed', f.fq, "not wrapped in a cache keyed by argument values",
                  fail_detail=f"`@{keyed}`: equal values of different Python types (2 / 2.0 / True) share one cache entry: the float is accepted where only the int is valid "
                              "and is serialised in a lexical form outside the type", key=f"R-MEMO.value-keyed|{f.qualname}", line=f.node.lineno)
    res.floor('R-MEMO.value-keyed functions of the validation path', n, 12)


# ---------------------------------------------------------------------------------------------- the gate itself
def check_attribute_gate(ctx):
    sm, res = ctx.sm, ctx.res
    no_value_keyed_cache(ctx)
    res.rule('R-DOM.attribute-gate', "_check_attribute raises for a name outside the type's attribute table and otherwise applies the attribute's type to the value")
    f = sm.func('XMLElement', '_check_attribute', T.M_XMLELEMENT)
    g = cfg_of(f.node)
    name_p, value_p = (f.params + ['name', 'value'])[1:3]
    raises = [n for n in g.stmt_nodes() if n.kind == 'stmt' and isinstance(n.ast, ast.Raise) and 'XSDWrongAttribute' in unparse(n.ast)]
    ok = False
    for r in raises:
        for t, e_, _txt, lab in dom.guard_views(g, r):
            if lab == 'T' and isinstance(e_, ast.Compare) and isinstance(e_.ops[0], ast.NotIn) and unparse(e_.left) == name_p:
                right = e_.comparators[0]
                src = unparse(right)
                if isinstance(right, ast.Name):
                    ds = dom.assignments_to(g, right.id)
                    src = ' '.join(unparse(d.ast.value) for d in ds if isinstance(d.ast, ast.Assign))
                    # follow one more level (attributes = self.TYPE.get_xsd_attributes())
                    for nm in [x.id for d in ds if isinstance(d.ast, ast.Assign) for x in ast.walk(d.ast.value) if isinstance(x, ast.Name)]:
                        src += ' ' + ' '.join(unparse(d.ast.value) for d in dom.assignments_to(g, nm) if isinstance(d.ast, ast.Assign))
                if '.name' in src and 'self.TYPE.get_xsd_attributes()' in src:
                    ok = len(dom.guards_of(g, r)) == 1
    # the same gate over a dictionary {attribute name: attribute} of the type's attribute table (built in place or taken from a class-level registry that
    # only ever receives such dictionaries)
    table_gate = None
    for r in raises:
        for t, e_, _txt, lab in dom.guard_views(g, r):
            if lab == 'T' and isinstance(e_, ast.Compare) and isinstance(e_.ops[0], ast.NotIn) and unparse(e_.left) == name_p and isinstance(e_.comparators[0], ast.Name) \
                    and _is_name_table(g, f.node, e_.comparators[0].id, t) and len(dom.guards_of(g, r)) == 1:
                ok = True
                table_gate = (e_.comparators[0].id, t)
    res.check(ok, 'R-DOM.attribute-gate', f.fq, "an undeclared name is rejected: `name not in [a.name for a in self.TYPE.get_xsd_attributes()] -> raise XSDWrongAttribute` under no other condition",
              key='R-DOM.attribute-gate|unknown-name')
    gates = [n for n in g.stmt_nodes() if n.kind == 'return' and isinstance(n.ast.value, ast.Call) and [unparse(a) for a in n.ast.value.args] == [value_p]]
    good = False
    for r in gates:
        fn = n_fn = unparse(r.ast.value.func)
        for t, lab in dom.guards_of(g, r):
            if t.kind == 'test' and lab == 'T' and unparse(t.ast) in (f"{fn}.name == {name_p}", f"{name_p} == {fn}.name"):
                good = True
    # the same selection written as an index lookup: ATTRS[[a.name for a in ATTRS].index(name)](value)
    for r in gates:
        fexpr = r.ast.value.func
        if isinstance(fexpr, ast.Subscript) and isinstance(fexpr.slice, ast.Call) and isinstance(fexpr.slice.func, ast.Attribute) and fexpr.slice.func.attr == 'index' \
                and [unparse(a) for a in fexpr.slice.args] == [name_p]:
            names_expr = fexpr.slice.func.value
            if isinstance(names_expr, ast.Name):
                ds = dom.reaching_defs(g, names_expr.id, r)
                names_expr = ds[0].ast.value if len(ds) == 1 and isinstance(ds[0].ast, ast.Assign) else names_expr
            if isinstance(names_expr, ast.ListComp) and len(names_expr.generators) == 1 and not names_expr.generators[0].ifs and \
                    unparse(names_expr.elt) == f"{unparse(names_expr.generators[0].target)}.name" and unparse(names_expr.generators[0].iter) == unparse(fexpr.value):
                good = True
    if table_gate is not None:
        for r in gates:
            fexpr = r.ast.value.func
            if isinstance(fexpr, ast.Subscript) and unparse(fexpr.value) == table_gate[0] and unparse(fexpr.slice) == name_p and \
                    g.path_avoiding(g.entry, r, avoid=[table_gate[1]]) is None and _is_name_table(g, f.node, table_gate[0], r):
                good = True
    res.check(good, 'R-DOM.attribute-gate', f.fq, "a declared name is validated by calling the matching attribute (its simple type) on the value",
              key='R-DOM.attribute-gate|value-check')
    others = [n for n in g.stmt_nodes() if n.kind == 'return' and n not in gates]
    res.check(not others, 'R-DOM.attribute-gate', f.fq, "no other return lets a value through unvalidated", fail_detail='; '.join(short(n.ast) for n in others),
              key='R-DOM.attribute-gate|other-return')
    # XSDAttribute.__call__ applies type_; type_ evaluates the declared type name
    call = sm.func('XSDAttribute', '__call__', T.M_ATTR)
    def applies_type(fn, vparam, depth=0) -> bool:
        """every normal exit of fn returns self.type_(v), directly or through a helper of the same class that does (e.g. a typed cache in front of it)"""
        gg = cfg_of(fn.node)
        if not all(pn.kind == 'return' for pn, _ in gg.pred[gg.exit]):
            return False
        for r_ in [n for n in ast.walk(fn.node) if isinstance(n, ast.Return)]:
            v_ = r_.value
            if v_ is not None and unparse(v_) == f"self.type_({vparam})":
                continue
            if isinstance(v_, ast.Call) and isinstance(v_.func, ast.Attribute) and unparse(v_.func.value) == 'self' and [unparse(a) for a in v_.args] == [vparam] and \
                    not v_.keywords and depth < 2 and fn.cls is not None and v_.func.attr in fn.cls.methods and fn.cls.methods[v_.func.attr] is not fn:
                h_ = fn.cls.methods[v_.func.attr]
                if len(h_.params) == 2 and applies_type(h_, h_.params[1], depth + 1):
                    continue
            return False
        return True
    res.check(applies_type(call, call.params[1]), 'R-DOM.attribute-gate', call.fq,
              "calling an attribute applies its declared simple type to the value", key='R-DOM.attribute-gate|call')
    ty = sm.func('XSDAttribute', 'type_', T.M_ATTR)
    txt = unparse(ty.node)
    res.check("convert_to_xsd_class_name(self.xsd_tree.get_attributes()['type']" in txt and 'eval(' in txt, 'R-DOM.attribute-gate', ty.fq,
              "the attribute's type is the class named by the declaration's type=", key='R-DOM.attribute-gate|type')


def _is_required_names_getter_call(sm, f, it) -> bool:
    """`self.G()` / `cls.G()` / `type(self).G()` where G is a classmethod of the same class that is a per-class lazy table of the NAMES of the type's
    required attributes: every return hands out `cls.F`; every store of F in the whole program is in G and stores either
    `[a.name for a in cls.TYPE.get_xsd_attributes() if a.is_required]` or, when the type is not complex (guard `cls.TYPE.get_xsd_tree().is_complex_type` [F]),
    an empty list - which is what the unchanged check examines (non-complex types: nothing).  That the table is per class (own dictionary) and not edited after
    the store is R-SHARED's obligation (C13 / C20), not repeated here."""
    if not (isinstance(it, ast.Call) and not it.args and not it.keywords and isinstance(it.func, ast.Attribute)
            and unparse(it.func.value) in ('self', 'cls', 'type(self)', 'self.__class__')) or f.cls is None:
        return False
    gf = f.cls.lookup(it.func.attr)
    if gf is None or not gf.is_classmethod or len(gf.params) != 1:
        return False
    me = gf.params[0]
    rets = [n for n in walk_local(gf.node) if isinstance(n, ast.Return)]
    if not rets or not all(isinstance(r.value, ast.Attribute) and unparse(r.value.value) == me for r in rets):
        return False
    flds = {r.value.attr for r in rets}
    if len(flds) != 1:
        return False
    fld = flds.pop()
    gg = cfg_of(gf.node)
    stores = []
    for m in sm.modules.values():
        if not m.name.startswith('musicxml') or '.tests' in m.name:
            continue
        for n in ast.walk(m.tree):
            if isinstance(n, ast.Attribute) and n.attr == fld and isinstance(n.ctx, (ast.Store, ast.Del)):
                stores.append(n)
            if isinstance(n, ast.Call) and (dotted(n.func) or '') in ('setattr', 'delattr') and len(n.args) >= 2 and const_value(n.args[1]) == fld:
                return False
    own = [n for n in gg.stmt_nodes() if n.kind == 'stmt' and isinstance(n.ast, ast.Assign) and len(n.ast.targets) == 1
           and isinstance(n.ast.targets[0], ast.Attribute) and n.ast.targets[0].attr == fld and unparse(n.ast.targets[0].value) == me]
    if not own or len(own) != len(stores):
        return False
    full = False
    for n in own:
        v = n.ast.value
        if isinstance(v, ast.ListComp) and len(v.generators) == 1 and not v.generators[0].is_async:
            gen = v.generators[0]
            tv = unparse(gen.target)
            if unparse(gen.iter) == f"{me}.TYPE.get_xsd_attributes()" and unparse(v.elt) == f"{tv}.name" and [unparse(c) for c in gen.ifs] == [f"{tv}.is_required"]:
                full = True
                continue
            return False
        if isinstance(v, ast.List) and not v.elts:
            if any(t.kind == 'test' and lab == 'F' and unparse(dom.expand(gg, t.ast, t)) == f"{me}.TYPE.get_xsd_tree().is_complex_type" for t, lab in dom.guards_of(gg, n)):
                continue
        return False
    return full


# ---------------------------------------------------------------------------------------------- A2
def required_attributes(ctx):
    sm, res = ctx.sm, ctx.res
    res.rule('R-DOM.required-attributes', "the required-attribute check raises exactly for a use=\"required\" attribute that is not currently set, for every complex-typed element")
    # the final check of a checked element runs it on every path that goes on to serialise (whatever the element's content model is)
    from ..engine import get_cg
    from ..rules.mustfx import MustFx
    checked = {'self.xsd_check': True, 'self._xsd_check': True}
    mx = ctx.lazy('mustfx-checked', lambda: MustFx(get_cg(ctx), checked))
    fc = sm.func('XMLElement', '_final_checks', T.M_XMLELEMENT)
    for want, what in (('XMLElement._check_required_attributes', 'required attributes'), ('XMLElement._check_required_value', 'required value')):
        res.check(mx.performed_on_every_path(fc, lambda l, _w=want: l[0] == 'call' and l[1] == _w and l[2] == 'self', checked), 'R-DOM.required-attributes', fc.fq,
                  f"with xsd_check on, every normal path of _final_checks checks the element's {what} (elements without a content model included)",
                  key=f"R-DOM.required-attributes|final-check-every-path|{want.split('.')[-1]}")
    f = sm.func('XMLElement', '_check_required_attributes', T.M_XMLELEMENT)
    g = cfg_of(f.node)
    raises = [n for n in g.stmt_nodes() if n.kind == 'stmt' and isinstance(n.ast, ast.Raise) and 'XSDAttributeRequiredException' in unparse(n.ast)]
    if not res.check(bool(raises), 'R-DOM.required-attributes', f.fq, "a missing required attribute is rejected", key='R-DOM.required-attributes|raise'):
        return
    for r in raises:
        guards = dom.guards_of(g, r)
        extra, have_missing, have_loop = [], False, False
        # the missing attributes collected first: `missing = [a.name for a in <attributes> if a.is_required and a.name not in self.attributes]`, then
        # `if missing: raise` - the comprehension's filters are exactly "required" and "not set", nothing else
        collected = None
        for t, lab in guards:
            if t.kind == 'test' and lab == 'T' and isinstance(t.ast, ast.Name):
                ds_ = dom.reaching_defs(g, t.ast.id, t)
                v_ = ds_[0].ast.value if len(ds_) == 1 and isinstance(ds_[0].ast, ast.Assign) else None
                if isinstance(v_, (ast.ListComp, ast.GeneratorExp)) and len(v_.generators) == 1 and unparse(v_.generators[0].iter) == 'self.TYPE.get_xsd_attributes()':
                    tv_ = unparse(v_.generators[0].target)
                    conds = []
                    for c_ in v_.generators[0].ifs:
                        conds += c_.values if isinstance(c_, ast.BoolOp) and isinstance(c_.op, ast.And) else [c_]
                    texts = sorted(unparse(c_) for c_ in conds)
                    want = sorted([f"{tv_}.is_required"] + [f"{tv_}.name not in {o}" for o in ATTR_OBJ][:1])
                    alt = sorted([f"{tv_}.is_required", f"{tv_}.name not in {ATTR_OBJ[1]}"])
                    if texts in (want, alt) and unparse(v_.elt) in (f"{tv_}.name", tv_):
                        collected = t
        if collected is not None:
            others = [(t, lab) for t, lab in guards if t is not collected and not (t.kind == 'test' and unparse(t.ast) == 'self.TYPE.get_xsd_tree().is_complex_type' and lab == 'T')]
            res.check(True, 'R-DOM.required-attributes', f.fq, "all required attributes of the element's type are examined", key='R-DOM.required-attributes|loop')
            res.check(True, 'R-DOM.required-attributes', f.fq, "the rejection is taken when the attribute's name is not among the current attributes",
                      key='R-DOM.required-attributes|missing-test')
            res.check(not others, 'R-DOM.required-attributes', f.fq, "no further condition narrows the check",
                      fail_detail=str([f"{unparse(t.ast) if t.kind == 'test' else t.kind} [{lab}]" for t, lab in others]), key='R-DOM.required-attributes|extra-guard', line=r.line)
            continue
        # loops over `[a.name for a in <attributes> if a.is_required]`: their variable is a required attribute's name
        names_loop_vars = set()
        names_getters = set()
        for t, lab in guards:
            if t.kind == 'for' and lab == 'loop' and isinstance(t.stmt.target, ast.Name):
                it = t.stmt.iter
                if _is_required_names_getter_call(sm, f, it):
                    names_loop_vars.add(t.stmt.target.id)
                    names_getters.add(unparse(it))
                    continue
                if isinstance(it, ast.Name):
                    ds_ = [d.ast.value for d in dom.assignments_to(g, it.id) if isinstance(d.ast, ast.Assign)]
                    it = ds_[0] if len(ds_) == 1 else it
                if isinstance(it, (ast.ListComp, ast.GeneratorExp)) and len(it.generators) == 1 and unparse(it.elt) == f"{unparse(it.generators[0].target)}.name":
                    names_loop_vars.add(t.stmt.target.id)
        for t, lab in guards:
            if t.kind == 'for' and lab == 'loop':
                it = t.stmt.iter
                src = unparse(it)
                if isinstance(it, ast.Name):
                    src = ' '.join(unparse(d.ast.value) for d in dom.assignments_to(g, it.id) if isinstance(d.ast, ast.Assign))
                tv = unparse(t.stmt.target)
                filtered_in_guard = any(t2.kind == 'test' and unparse(t2.ast) == f"{tv}.is_required" and lab2 == 'T' for t2, lab2 in guards)
                if 'self.TYPE.get_xsd_attributes()' in src and ('.is_required' in src or filtered_in_guard) or src in names_getters:
                    have_loop = True
                else:
                    extra.append(f"for .. in {src}")
                continue
            txt = unparse(t.ast)
            if txt == 'self.TYPE.get_xsd_tree().is_complex_type' and lab == 'T':
                continue
            if isinstance(t.ast, ast.Compare) and isinstance(t.ast.ops[0], ast.In) and unparse(t.ast.comparators[0]) in ATTR_OBJ and \
                    unparse(t.ast.left).endswith('.name') and lab == 'F':
                have_missing = True          # canonical form of `name not in self.attributes` [T]
                continue
            if isinstance(t.ast, ast.Compare) and isinstance(t.ast.ops[0], ast.In) and unparse(t.ast.comparators[0]) in ATTR_OBJ and lab == 'F' and \
                    isinstance(t.ast.left, ast.Name) and t.ast.left.id in names_loop_vars:
                have_missing = True          # the loop runs over the *names* of the required attributes
                continue
            if txt.endswith('.is_required') and lab == 'T':
                continue
            extra.append(f"{txt} [{lab}]")
        res.check(have_loop, 'R-DOM.required-attributes', f.fq, "all required attributes of the element's type are examined", key='R-DOM.required-attributes|loop')
        res.check(have_missing, 'R-DOM.required-attributes', f.fq, "the rejection is taken when the attribute's name is not among the current attributes",
                  key='R-DOM.required-attributes|missing-test')
        res.check(not extra, 'R-DOM.required-attributes', f.fq, "no further condition narrows the check", fail_detail=str(extra),
                  key='R-DOM.required-attributes|extra-guard', line=r.line)
    # is_required <=> use == 'required'
    ir = sm.func('XSDAttribute', 'is_required', T.M_ATTR)
    uses = [n for n in ast.walk(ir.node) if isinstance(n, ast.Compare) and "get('use')" in unparse(n.left)]
    ok = False
    if len(uses) == 1 and isinstance(uses[0].ops[0], (ast.Eq, ast.NotEq)) and const_value(uses[0].comparators[0]) == 'required':
        positive = isinstance(uses[0].ops[0], ast.Eq)
        for n in ast.walk(ir.node):
            # canonical form (mxsa/normalise.py): `x = <comparison>`; an if/else storing other things is examined branch by branch
            if isinstance(n, (ast.Assign, ast.Return)) and n.value is not None:
                v = n.value
                neg = False
                while isinstance(v, ast.UnaryOp) and isinstance(v.op, ast.Not):
                    v, neg = v.operand, not neg
                if v is uses[0]:
                    ok = (positive != neg)
            if isinstance(n, ast.If) and n.test is uses[0]:
                tv = [unparse(s.value) for s in n.body if isinstance(s, (ast.Assign, ast.Return))]
                fv = [unparse(s.value) for s in n.orelse if isinstance(s, (ast.Assign, ast.Return))]
                ok = (tv == ['True'] and fv == ['False']) if positive else (tv == ['False'] and fv == ['True'])
    res.check(ok, 'R-DOM.required-attributes', ir.fq, "is_required is True exactly for use == 'required'", key='R-DOM.required-attributes|is_required')


# ---------------------------------------------------------------------------------------------- A3
def verbatim_serialisation(ctx):
    sm, res = ctx.sm, ctx.res
    res.rule('R-DOM.attributes-verbatim', "the ElementTree element receives exactly the current attributes: keys unchanged, values through str()")
    f = sm.func('XMLElement', '_create_et_xml_element', T.M_XMLELEMENT)
    ctors = [c for c in ast.walk(f.node) if isinstance(c, ast.Call) and dotted(c.func) == 'ET.Element']
    if not res.check(len(ctors) == 1, 'R-DOM.attributes-verbatim', f.fq, "one ET.Element(...) construction", key='R-DOM.attributes-verbatim|ctor'):
        return
    c = ctors[0]
    res.check(bool(c.args) and unparse(c.args[0]) in ('self.name', 'self.XSD_TREE.name'), 'R-DOM.attributes-verbatim', f.fq, "the tag is the element's schema name",
              fail_detail=short(c), key='R-DOM.attributes-verbatim|tag')
    d = c.args[1] if len(c.args) > 1 else next((k.value for k in c.keywords if k.arg == 'attrib'), None)
    ok = False
    if isinstance(d, ast.Name):
        # a local: one definition is followed; a local that is the stored dictionary on one path and its str()-converted copy on another (conversion only
        # when some value is not a str) is an optimisation whose equivalence depends on the values - not decided here
        g_ = cfg_of(f.node)
        at = next((n for n in g_.stmt_nodes() if any(x is c for e in n.exprs() for x in ast.walk(e))), None)
        ds = dom.reaching_defs(g_, d.id, at) if at is not None else []
        vals = [x.ast.value for x in ds if isinstance(x.ast, ast.Assign)]
        if len(vals) == 1:
            d = vals[0]
        elif len(vals) > 1 and len(vals) == len(ds) and all(unparse(v_) in ('self.attributes', 'self._attributes') or isinstance(v_, ast.DictComp) for v_ in vals) and \
                not any(isinstance(x, (ast.Subscript, ast.Attribute)) and isinstance(getattr(x, 'ctx', None), (ast.Store, ast.Del)) and
                        unparse(getattr(x, 'value', x)) in (d.id, 'self.attributes', 'self._attributes') for x in ast.walk(f.node)):
            raise AnalysisError(f"{f.fq}: the attribute dictionary handed to ET.Element is `{d.id}`, which is the stored dictionary on one path and a converted copy on "
                                "another; whether both agree depends on the values (idiom not understood)")
    if isinstance(d, ast.DictComp) and len(d.generators) == 1:
        gen = d.generators[0]
        if isinstance(gen.target, ast.Tuple) and len(gen.target.elts) == 2 and not gen.ifs:
            k, v = [unparse(x) for x in gen.target.elts]
            ok = unparse(gen.iter) in ('self.attributes.items()', 'self._attributes.items()') and unparse(d.key) == k and unparse(d.value) == f"str({v})"
    res.check(ok, 'R-DOM.attributes-verbatim', f.fq, "attrib = {k: str(v) for k, v in self.attributes.items()} (no filter, no key rewriting)",
              fail_detail=short(d) if d is not None else 'no attribute dictionary', key='R-DOM.attributes-verbatim|dict')
    res.check(not c.keywords or all(k.arg == 'attrib' for k in c.keywords), 'R-DOM.attributes-verbatim', f.fq, "no extra attributes are injected", key='R-DOM.attributes-verbatim|extra')


# ---------------------------------------------------------------------------------------------- A4
def routing(ctx, el_classes):
    sm, sc, res = ctx.sm, ctx.schema, ctx.res
    res.rule('R-TAB.routing', "a dot assignment of a schema attribute name reaches _set_attributes: the names (in `_` form) are disjoint from _PROPERTIES, "
             "from `_`/`xml_` prefixed names and from every name ordinary lookup resolves on an element instance")
    f = sm.func('XMLElement', '__setattr__', T.M_XMLELEMENT)
    g = cfg_of(f.node)
    key_p, val_p = (f.params + ['key', 'value'])[1:3]
    calls = dom.nodes_calling(g, lambda c: unparse(c.func) == 'self._set_attributes')
    ok = False
    for n in calls:
        c = [x for e in n.exprs() for x in walk_local(e) if isinstance(x, ast.Call) and unparse(x.func) == 'self._set_attributes'][0]
        a = c.args[0] if c.args else None
        if isinstance(a, ast.Dict) and len(a.keys) == 1 and unparse(a.keys[0]) == key_p and unparse(a.values[0]) == val_p:
            guards = [(unparse(t.ast), lab) for t, lab in dom.guards_of(g, n) if t.kind == 'test']
            ok = all(lab == 'F' for _, lab in guards) and 2 <= len(guards) <= 3
            detail = str(guards)
    res.check(ok, 'R-TAB.routing', f.fq, "the fall-through branch of __setattr__ is self._set_attributes({key: value})", key='R-TAB.routing|setattr-shape')
    xe = sm.get_class('XMLElement', T.M_XMLELEMENT)
    props = set()
    pb = xe.bindings.get('_PROPERTIES')
    if isinstance(pb, (ast.Set, ast.List, ast.Tuple)):
        props = {const_value(e) for e in pb.elts}
    else:
        raise AnalysisError("XMLElement._PROPERTIES is not a literal set")
    resolvable = xe.all_attr_names()
    # per-type attribute names
    seen = set()
    n_names = 0
    for label, ct in sc.all_complex_types().items():
        if label.startswith('score-timewise'):
            continue
        for a in ct.attributes():
            nm = a.name.split(':')[-1].replace('-', '_')
            if nm in seen:
                continue
            seen.add(nm)
            n_names += 1
            why = None
            if nm in props:
                why = f"'{nm}' is in _PROPERTIES: the assignment is handed to object.__setattr__"
            elif nm.startswith('_') or nm.startswith('xml_'):
                why = f"'{nm}' has a reserved prefix"
            elif nm in resolvable:
                why = f"'{nm}' is resolvable by ordinary lookup on XMLElement instances: reads never reach __getattr__"
            res.check(why is None, 'R-TAB.routing', f"attribute '{a.name}' (first declared in {a.owner})", "dot access of the attribute reaches the attribute path",
                      fail_detail=why or '', key=f"R-TAB.routing|collision|{nm}")
    res.extra['attribute_names_checked'] = n_names
    res.floor('R-TAB.routing attribute names', n_names, 150)
