"""C05 - value validation matches the XSD simple types; emitted text is lexically valid (R-EXH facets, R-ORD bounds,
regex dialect, gate -> sink identity)."""
import ast
import re

from ..astutil import unparse, short, walk_local, dotted, const_value
from ..cfg import cfg_of
from ..srcmodel import AnalysisError
from ..rules import tables as T
from ..rules import dom
from ..rules import exh
from .. import abseval
from ..engine import get_cg, get_effects
from . import c03

BOUND_FACETS = {'minInclusive': {'<'}, 'minExclusive': {'<', '='}, 'maxInclusive': {'>'}, 'maxExclusive': {'>', '='},
                'minLength': {'<'}, 'maxLength': {'>'}}
IGNORABLE_FACETS = {'whiteSpace', 'fractionDigits'}      # whitespace handling is get_cleaned_token's, fractionDigits=0 is the int gate
FACET_TABLE_FIELDS = {'_PERMITTED', '_FORCED_PERMITTED', '_PATTERN', '_TYPES', '_UNION'}

# XML 1.0 (5th ed.) name productions on the BMP
NAME_START = [(0x3A, 0x3A), (0x41, 0x5A), (0x5F, 0x5F), (0x61, 0x7A), (0xC0, 0xD6), (0xD8, 0xF6), (0xF8, 0x2FF), (0x370, 0x37D),
              (0x37F, 0x1FFF), (0x200C, 0x200D), (0x2070, 0x218F), (0x2C00, 0x2FEF), (0x3001, 0xD7FF), (0xF900, 0xFDCF), (0xFDF0, 0xFFFD)]
NAME_CHAR_EXTRA = [(0x2D, 0x2E), (0x30, 0x39), (0xB7, 0xB7), (0x300, 0x36F), (0x203F, 0x2040)]


def _ranges_to_set(rs):
    out = set()
    for a, b in rs:
        out.update(range(a, b + 1))
    return out


def _class_to_set(text: str):
    """'[...]' character class (literals and ranges, no escapes other than \\uXXXX already decoded) -> set of code points."""
    if not (text.startswith('[') and text.endswith(']')):
        return None
    body = text[1:-1]
    out = set()
    i = 0
    while i < len(body):
        a = body[i]
        if i + 2 < len(body) and body[i + 1] == '-':
            b = body[i + 2]
            out.update(range(ord(a), ord(b) + 1))
            i += 3
        else:
            out.add(ord(a))
            i += 1
    return out


def _has_class_subtraction(p: str) -> bool:
    """XSD class subtraction: `-[` while inside a character class."""
    depth = 0
    i = 0
    while i < len(p):
        ch = p[i]
        if ch == '\\':
            i += 2
            continue
        if ch == '[':
            if depth > 0 and i > 0 and p[i - 1] == '-':
                return True
            depth += 1
        elif ch == ']' and depth > 0:
            depth -= 1
        i += 1
    return False


def run(ctx):
    sm, sc, res = ctx.sm, ctx.schema, ctx.res
    res.assume("two-sided exactness for arbitrary values (xs:date arithmetic, unions over arbitrary values, the collapsed form of every token) quantifies over "
               "value sets, not shapes, and is not decided; of the token collapse the character set is decided (R-TEXT.collapse-set)")
    c03._simple_types(ctx)                      # T7: which gate each of the 151 types inherits
    facet_dispatch(ctx)
    anchored_matching(ctx)
    regex_dialect(ctx)
    bound_comparisons(ctx)
    gate_identity(ctx)
    numeric_gate_and_renderer(ctx)
    no_content_types(ctx)
    required_value(ctx)
    token_collapse(ctx)
    from . import c04
    c04.check_before_store(ctx)          # attribute values reach their gate: every stored entry has been checked
    c04.check_attribute_gate(ctx)


XML_WS = {' ', '\t', '\n', '\r'}


def _regex_chars(pattern: str):
    """the characters a constant regular expression can consume, or None when it uses a character category (\\s matches every Unicode blank)"""
    import re._parser as sp
    import re._constants as sc_
    out = set()

    def walk(items):
        for op, av in items:
            if op is sc_.LITERAL:
                out.add(chr(av))
            elif op is sc_.IN:
                for o2, a2 in av:
                    if o2 is sc_.LITERAL:
                        out.add(chr(a2))
                    elif o2 is sc_.RANGE:
                        out.update(chr(c) for c in range(a2[0], a2[1] + 1))
                    else:
                        return False
            elif op in (sc_.MAX_REPEAT, sc_.MIN_REPEAT):
                if not walk(av[2]):
                    return False
            elif op is sc_.SUBPATTERN:
                if not walk(av[3]):
                    return False
            elif op is sc_.BRANCH:
                for alt in av[1]:
                    if not walk(alt):
                        return False
            elif op is sc_.AT:
                continue
            else:
                return False
        return True
    return out if walk(sp.parse(pattern)) else None


def token_collapse(ctx):
    """the whitespace collapse in front of the pattern check of token-derived types"""
    sm, res = ctx.sm, ctx.res
    res.rule('R-TEXT.collapse-set', "the whitespace collapse that precedes the pattern check of the token-derived types treats exactly the four XML whitespace characters "
             "(#x20 #x9 #xA #xD) as blanks: every split / strip / regular expression in it names its characters and all of them are XML whitespace.  A collapse "
             "that also removes NBSP, EM SPACE, VT or the C0 separators lets a value pass its pattern although a validator, which collapses only those four, "
             "rejects the emitted text")
    f = sm.func(None, 'get_cleaned_token', T.M_CORE)
    n = 0
    covered = set()
    for c in ast.walk(f.node):
        if not isinstance(c, ast.Call):
            continue
        if isinstance(c.func, ast.Attribute) and c.func.attr in ('split', 'rsplit', 'strip', 'lstrip', 'rstrip', 'splitlines', 'expandtabs', 'translate'):
            n += 1
            a = c.args[0] if c.args else None
            v = const_value(a) if a is not None else None
            if isinstance(a, ast.Name):
                # a name that only ever stands for constants: the target of loops over literal tuples / a local bound to literals
                binds = [x for x in ast.walk(f.node) if isinstance(x, ast.For) and isinstance(x.target, ast.Name) and x.target.id == a.id] + \
                        [x for x in ast.walk(f.node) if isinstance(x, ast.Assign) and any(isinstance(t, ast.Name) and t.id == a.id for t in x.targets)]
                vals = []
                for b in binds:
                    src = b.iter if isinstance(b, ast.For) else ast.Tuple(elts=[b.value])
                    if isinstance(src, (ast.Tuple, ast.List)) and all(isinstance(const_value(e), str) for e in src.elts):
                        vals += [const_value(e) for e in src.elts]
                    else:
                        vals = None
                        break
                if vals and not any(isinstance(x, ast.arg) and x.arg == a.id for x in ast.walk(f.node)):
                    v = ''.join(vals) if all(len(x) == 1 for x in vals) or c.func.attr.endswith('strip') else None
            if isinstance(v, str) and c.func.attr in ('split', 'rsplit') and isinstance(a, ast.Constant) and len(v) != 1:
                v = None                    # a multi-character separator is one separator string, not a set of blanks
            ok = c.func.attr in ('split', 'rsplit', 'strip', 'lstrip', 'rstrip') and isinstance(v, str) and v != '' and set(v) <= XML_WS and not c.keywords
            if ok:
                covered |= set(v)
            res.check(ok, 'R-TEXT.collapse-set', f.fq, f"`{short(c, 70)}` names only XML whitespace characters",
                      fail_detail="without an argument str.split / str.strip work on every Unicode blank (NBSP, EM SPACE, VT, FF, #x1C-#x1F ...)" if a is None
                      else f"characters {sorted(set(v) - XML_WS) if isinstance(v, str) else unparse(a)}", key=f"R-TEXT.collapse-set|{c.func.attr}|{'bare' if a is None else 'arg'}",
                      line=c.lineno)
        elif dotted(c.func) in ('re.sub', 're.split', 're.compile', 're.findall', 're.match', 're.fullmatch'):
            n += 1
            v = const_value(c.args[0]) if c.args else None
            chars = _regex_chars(v) if isinstance(v, str) else None
            ok = chars is not None and chars <= XML_WS and not any(k.arg == 'flags' for k in c.keywords)
            if ok:
                covered |= chars
            res.check(ok, 'R-TEXT.collapse-set', f.fq, f"`{short(c, 70)}` consumes only XML whitespace characters",
                      fail_detail="a character category (\\s) or characters outside #x20 #x9 #xA #xD" if chars is None else f"characters {sorted(chars - XML_WS)}",
                      key='R-TEXT.collapse-set|regex', line=c.lineno)
    res.check(covered == XML_WS, 'R-TEXT.collapse-set', f.fq, "all four XML whitespace characters are collapsed", fail_detail=f"covered: {sorted(covered)}",
              key='R-TEXT.collapse-set|covered')
    res.floor('R-TEXT.collapse-set operations', n, 1)
    # the collapse is what the token type applies in front of the pattern
    tok = sm.get_class('XSDSimpleTypeToken', T.M_SIMPLE)
    uses = [c for fn in (list(tok.methods.values()) + list(tok.setters.values()) if tok else []) for c in ast.walk(fn.node)
            if isinstance(c, ast.Call) and isinstance(c.func, ast.Name) and c.func.id == 'get_cleaned_token']
    res.check(bool(uses), 'R-TEXT.collapse-set', 'XSDSimpleTypeToken', "the token type collapses its value with get_cleaned_token", key='R-TEXT.collapse-set|used')


# ---------------------------------------------------------------------------------------------- V1
def facet_dispatch(ctx):
    sm, sc, res = ctx.sm, ctx.schema, ctx.res
    res.rule('R-EXH.facets', "every facet the schema uses is handled by the value gate, and the schema has none of the shapes the gate does not model "
             "(pattern not first/unique, pattern or enumeration mixed with bounds, non-integer bounds, bounded or enumerated base types, patterned ancestors "
             "more than one step up)")
    cv = sm.func('XSDSimpleType', '_check_value', T.M_SIMPLE)
    handled = {c for op, c, _ in exh.tag_tests(cv.node) if op == '=='}
    gp = sm.func('XSDTree', 'get_permitted', T.M_TREE)
    if any(c == 'enumeration' for op, c, _ in exh.tag_tests(gp.node) if op == '=='):
        handled.add('enumeration')
    gpat = sm.func('XSDTree', 'get_pattern', T.M_TREE)
    if any(c == 'pattern' for op, c, _ in exh.tag_tests(gpat.node) if op == '=='):
        handled.add('pattern')
    allst = dict(sc.builtin_simple_types)
    allst.update(sc.simple_types)
    used = {}
    for n, st in allst.items():
        for f_, _v in st.facets:
            used.setdefault(f_, n)
    # embedded primitive fragments
    for m, node, txt in T.embedded_fragments(sm):
        root = T._safe_parse(txt)
        for r in root.iter():
            tag = r.tag.split('}')[-1]
            if tag == 'restriction':
                for c in r:
                    used.setdefault(c.tag.split('}')[-1], f"embedded fragment in {m.relpath}")
    for fac, example in sorted(used.items()):
        if fac in ('simpleType', 'annotation', 'attribute'):
            continue
        res.check(fac in handled or fac in IGNORABLE_FACETS, 'R-EXH.facets', cv.fq, f"facet '{fac}' (used e.g. by {example}) is handled",
                  fail_detail=f"handled: {sorted(handled)}", key=f"R-EXH.facets|facet|{fac}")
    res.floor('R-EXH.facets facets in use', len(used), 6)
    bounds = set(BOUND_FACETS)
    for n, st in allst.items():
        where = f"{st.source}::simpleType[{n}]"
        tags = st.facet_tags()
        tset = set(tags)
        if 'pattern' in tset:
            res.check(st.restriction_child_tags[0] == 'pattern' and tags.count('pattern') == 1, 'R-EXH.facets', where,
                      "pattern is the first child of its restriction and unique (get_pattern reads children[0])", key=f"R-EXH.facets|pattern-first|{n}")
        if tset & {'pattern', 'enumeration'}:
            res.check(not (tset & bounds) and not ({'pattern', 'enumeration'} <= tset), 'R-EXH.facets', where,
                      "pattern / enumeration / bounds are not combined (the gate checks exactly one kind)", key=f"R-EXH.facets|mixed|{n}")
        for f_, v in st.facets:
            if f_ in bounds:
                ok = re.fullmatch(r'[+-]?\d+', v or '') is not None
                res.check(ok, 'R-EXH.facets', where, f"{f_} bound is an integer literal (the gate applies int())", fail_detail=str(v),
                          key=f"R-EXH.facets|int-bound|{n}|{f_}")
        b = st.base.split(':')[-1] if st.base else None
        if b in allst:
            bt = allst[b]
            btags = set(bt.facet_tags())
            res.check(not (btags & bounds), 'R-EXH.facets', where, f"base type '{b}' has no bounds (a derived type reads only its own restriction)",
                      key=f"R-EXH.facets|bounded-base|{n}")
            if 'enumeration' in btags:
                res.check('enumeration' in tset, 'R-EXH.facets', where, f"a type derived from the enumerated '{b}' has its own enumeration",
                          key=f"R-EXH.facets|enumerated-base|{n}")
            bb = bt.base.split(':')[-1] if bt.base else None
            if bb in allst and 'pattern' in allst[bb].facet_tags():
                res.check('pattern' in btags or 'pattern' in tset, 'R-EXH.facets', where, "no patterned ancestor two derivation steps up (the gate looks one level up)",
                          key=f"R-EXH.facets|pattern-two-up|{n}")
    # get_pattern's one-level fallback uses the MRO parent's tree
    pp = sm.func('XSDSimpleType', '_populate_pattern', T.M_SIMPLE)
    res.check('get_pattern(self.__class__.__mro__[1].get_xsd_tree())' in unparse(pp.node), 'R-EXH.facets', pp.fq,
              "the pattern of the direct base type is inherited when the type has none of its own", key='R-EXH.facets|pattern-inherit')
    # enumeration branch: the permitted list is the type's own enumeration, stored per instance
    pop = sm.func('XSDSimpleType', '_populate_permitted', T.M_SIMPLE)
    assigns = [n for n in ast.walk(pop.node) if isinstance(n, ast.Assign)]
    ok = len(assigns) == 1 and unparse(assigns[0].targets[0]) == 'self._PERMITTED' and unparse(assigns[0].value) == 'self.get_xsd_tree().get_permitted()'
    if not ok and len(assigns) == 2:
        # the list is built once per type and kept in the type's OWN dictionary (`'X' in cls.__dict__` - not a lookup through the MRO, which would hand a
        # derived type its base's enumeration), the instance receives that list
        CLS = ('self.__class__', 'type(self)', 'cls')
        st_cls = [a for a in assigns if isinstance(a.targets[0], ast.Attribute) and unparse(a.targets[0].value) in CLS]
        st_inst = [a for a in assigns if unparse(a.targets[0]) == 'self._PERMITTED']
        if len(st_cls) == 1 and len(st_inst) == 1:
            fld = st_cls[0].targets[0].attr
            g_ = cfg_of(pop.node)
            cn = g_.node_of_stmt.get(st_cls[0])
            own = cn is not None and any(t.kind == 'test' and lab == 'F' and isinstance(t.ast, ast.Compare) and isinstance(t.ast.ops[0], ast.In) and
                                         const_value(t.ast.left) == fld and unparse(dom.expand(g_, t.ast.comparators[0], t)).endswith('.__dict__')
                                         for t, lab in dom.guards_of(g_, cn))
            ok = own and unparse(st_cls[0].value) == 'self.get_xsd_tree().get_permitted()' and isinstance(st_inst[0].value, ast.Attribute) and \
                st_inst[0].value.attr == fld and unparse(dom.expand(g_, st_inst[0].value.value, g_.node_of_stmt.get(st_inst[0]))) in CLS and fld not in FACET_TABLE_FIELDS
    res.check(ok, 'R-EXH.facets', pop.fq, "the enumeration list is read from the type's own restriction and stored on the instance",
              fail_detail='; '.join(short(a) for a in assigns), key='R-EXH.facets|permitted-source')
    ef = get_effects(ctx)
    for f in sm.functions:
        if f.module.name != T.M_SIMPLE and f.module.name != T.M_COMPLEX:
            continue
        for w in ef.local_writes.get(f, []):
            if w.field in FACET_TABLE_FIELDS and w.root in ('class', 'module'):
                res.finding('R-EXH.facets', f.fq, "facet tables are never written at class level (a base type's table would shadow a derived type's through the MRO)",
                            short(w.node, 90), key=f"R-EXH.facets|class-level-write|{f.qualname}|{w.field}", line=w.node.lineno)
    gperm = unparse(gp.node)
    res.check(re.search(r"(\w+)\.tag == 'enumeration'", gperm) is not None and re.search(r"(\w+)\.get_attributes\(\)\['value'\]", gperm) is not None, 'R-EXH.facets', gp.fq,
              "the permitted list is the value= of every enumeration child", key='R-EXH.facets|get_permitted')


# ---------------------------------------------------------------------------------------------- V2
def anchored_matching(ctx):
    sm, res = ctx.sm, ctx.res
    res.rule('R-ORD.pattern', "a pattern is applied to the whole value (fullmatch or an explicitly end-anchored form) and a mismatch raises")
    cv = sm.func('XSDSimpleType', '_check_value', T.M_SIMPLE)
    hits = [c for c in ast.walk(cv.node) if isinstance(c, ast.Call) and isinstance(c.func, ast.Attribute) and c.func.attr in ('fullmatch', 'match', 'search', 'findall')
            and '_PATTERN' in unparse(c.func.value) + ''.join(unparse(a) for a in c.args)]
    if not res.check(bool(hits), 'R-ORD.pattern', cv.fq, "the pattern gate exists", key='R-ORD.pattern|exists'):
        return
    for c in hits:
        res.check(c.func.attr == 'fullmatch', 'R-ORD.pattern', cv.fq, f"`{short(c)}` matches the whole value",
                  fail_detail=f".{c.func.attr}() accepts values with an unmatched remainder", key='R-ORD.pattern|fullmatch', line=c.lineno)
        res.check('re.compile(self._PATTERN)' in unparse(c) or unparse(c.args[0]) == 'self._PATTERN' if c.args else 're.compile(self._PATTERN)' in unparse(c),
                  'R-ORD.pattern', cv.fq, "the expression applied is the type's pattern", key='R-ORD.pattern|which')
    g = cfg_of(cv.node)
    for n in g.stmt_nodes():
        if n.kind == 'test' and any(c in list(ast.walk(n.ast)) for c in hits):
            ok = isinstance(n.ast, ast.Compare) and isinstance(n.ast.ops[0], ast.Is) and const_value(n.ast.comparators[0], 0) is None and dom.branch_raises(g, n, 'T')
            res.check(ok, 'R-ORD.pattern', cv.fq, "`... .fullmatch(v) is None` -> raise ValueError", fail_detail=short(n.ast), key='R-ORD.pattern|reject', line=n.line)
    # the value matched is the value checked (token types: the cleaned token)
    for c in hits:
        arg = unparse(c.args[-1]) if c.args else ''
        res.check(arg == cv.params[1], 'R-ORD.pattern', cv.fq, "the value matched is the value under validation", fail_detail=arg, key='R-ORD.pattern|arg')


# ---------------------------------------------------------------------------------------------- V3
def regex_dialect(ctx):
    sm, sc, res = ctx.sm, ctx.schema, ctx.res
    res.rule('R-EXH.regex', "the XSD-only regex constructs that occur in the schema's patterns are exactly those translate_pattern rewrites; no pattern contains a "
             "character that is an anchor in Python but a literal in XSD; every translated pattern compiles; the replacement character classes are the XML 1.0 "
             "name productions (BMP)")
    gp = sm.func('XSDTree', 'get_pattern', T.M_TREE)
    tp = gp.nested.get('translate_pattern')
    if tp is None and any(isinstance(n, ast.Call) and isinstance(n.func, ast.Attribute) and n.func.attr == 'replace' for n in ast.walk(gp.node)):
        tp = gp         # the helper was moved out of the function (and expanded back into it by the normaliser): the rewriting is in get_pattern itself
    if tp is None:
        raise AnalysisError("XSDTree.get_pattern: helper translate_pattern vanished")
    # what does translate_pattern rewrite?
    whole = {}
    repl = {}
    for n in ast.walk(tp.node):
        if isinstance(n, ast.If) and isinstance(n.test, ast.Compare) and isinstance(n.test.ops[0], ast.Eq) and isinstance(n.test.comparators[0], ast.Constant):
            rets = [s for s in n.body if isinstance(s, ast.Return)]
            if rets:
                whole[n.test.comparators[0].value] = rets[0].value
        if isinstance(n, ast.Call) and isinstance(n.func, ast.Attribute) and n.func.attr == 'replace' and len(n.args) == 2 and isinstance(n.args[0], ast.Constant):
            repl[n.args[0].value] = n.args[1]
    m_help = sm.modules.get('musicxml.util.helprervariables')
    consts = {}
    if m_help is not None:
        for k, v in m_help.assigns.items():
            try:
                consts[k] = ast.literal_eval(v)
            except Exception:
                pass

    def value_of(expr):
        if isinstance(expr, ast.Name):
            return consts.get(expr.id)
        if isinstance(expr, ast.JoinedStr):
            out = ''
            for p in expr.values:
                if isinstance(p, ast.Constant):
                    out += p.value
                elif isinstance(p, ast.FormattedValue) and isinstance(p.value, ast.Name) and p.value.id in consts:
                    out += consts[p.value.id]
                else:
                    return None
            return out
        if isinstance(expr, ast.Constant):
            return expr.value
        return None
    res.check(set(repl) >= {'\\c', '\\i'}, 'R-EXH.regex', tp.fq, "\\c and \\i are rewritten", fail_detail=str(sorted(repl)), key='R-EXH.regex|replacements')
    allst = dict(sc.builtin_simple_types)
    allst.update(sc.simple_types)
    n_pat = 0
    for n, st in allst.items():
        for p in st.patterns:
            n_pat += 1
            where = f"{st.source}::simpleType[{n}]"
            if p in whole:
                t = value_of(whole[p])
            else:
                t = p
                for k, v in repl.items():
                    val = value_of(v)
                    if val is None:
                        t = None
                        break
                    t = t.replace(k, val)
            if t is None:
                raise AnalysisError(f"translate_pattern: replacement value for pattern of {n} is not a module constant (idiom not understood)")
            # XSD-only constructs left over
            rest = t
            xsd_only = []
            for mm in re.finditer(r'\\([ciICpP])', rest):
                xsd_only.append(mm.group(0))
            if _has_class_subtraction(rest):
                xsd_only.append('class subtraction -[')
            res.check(not xsd_only, 'R-EXH.regex', where, f"pattern {p!r}: no XSD-only construct survives the translation", fail_detail=str(xsd_only),
                      key=f"R-EXH.regex|xsd-only|{n}")
            # anchors that are literals in XSD
            stripped = re.sub(r'\\.', '', p)
            stripped = re.sub(r'\[[^\]]*\]', '', stripped)
            res.check('^' not in stripped and '$' not in stripped, 'R-EXH.regex', where, f"pattern {p!r}: no ^ or $ outside a character class",
                      key=f"R-EXH.regex|anchor|{n}")
            try:
                re.compile(t)
                ok = True
                err = ''
            except re.error as e:
                ok, err = False, str(e)
            res.check(ok, 'R-EXH.regex', where, f"translated pattern compiles with Python's re", fail_detail=err, key=f"R-EXH.regex|compiles|{n}")
    res.floor('R-EXH.regex patterns', n_pat, 15)
    # replacement classes vs XML 1.0 productions
    exp_start = _ranges_to_set(NAME_START)
    exp_char = exp_start | _ranges_to_set(NAME_CHAR_EXTRA)
    table = {'xml_name_first_character': exp_start, 'name_character': exp_char,
             'xml_name_first_character_without_colon': exp_start - {0x3A}, 'name_character_without_colon': exp_char - {0x3A}}
    for name, exp in table.items():
        got = _class_to_set(consts.get(name, '')) if isinstance(consts.get(name), str) else None
        where = f"musicxml/util/helprervariables.py::{name}"
        if got is None:
            res.finding('R-EXH.regex', where, "replacement class is a literal character class", key=f"R-EXH.regex|class-shape|{name}")
            continue
        diff = sorted(got ^ exp)
        res.check(not diff, 'R-EXH.regex', where, "equals the XML 1.0 production on the BMP",
                  fail_detail=f"{len(diff)} code point(s) differ, e.g. {[hex(x) for x in diff[:6]]}", key=f"R-EXH.regex|class|{name}")
    res.assume("supplementary-plane name characters (#x10000-#xEFFFF) are not compared: XSD 1.0 and 1.1 processors disagree on them")


# ---------------------------------------------------------------------------------------------- V4
def bound_comparisons(ctx):
    sm, res = ctx.sm, ctx.res
    res.rule('R-ORD.bounds', "in the branch for facet f the rejecting comparison is the negation of f's relation (three-cell ordering table); "
             "the enumeration branch rejects exactly the values outside the list")
    cv = sm.func('XSDSimpleType', '_check_value', T.M_SIMPLE)
    v = cv.params[1]
    seen = set()
    g = cfg_of(cv.node)
    # every rejection that is taken under `<node>.tag == '<facet>'`: the comparison it is taken under (whatever locals hold its operands, whether the tag
    # test and the comparison share one `if` or are nested, an if/elif chain or independent ifs)
    for r in [n for n in g.stmt_nodes() if n.kind == 'stmt' and isinstance(n.ast, ast.Raise)]:
        gs = [(t, lab) for t, lab in dom.guards_of(g, r) if t.kind == 'test']
        tags = [(t, lab) for t, lab in gs if isinstance(t.ast, ast.Compare) and isinstance(t.ast.ops[0], ast.Eq) and lab == 'T' and
                isinstance(dom.expand(g, t.ast.left, t), ast.Attribute) and dom.expand(g, t.ast.left, t).attr == 'tag' and const_value(t.ast.comparators[0]) in BOUND_FACETS]
        if not tags:
            continue
        fac = const_value(tags[0][0].ast.comparators[0])
        tagvar = unparse(dom.expand(g, tags[0][0].ast.left, tags[0][0]).value)
        seen.add(fac)
        where = cv.fq
        want_l = f"len({v})" if fac in ('minLength', 'maxLength') else v
        want_r = f"int({tagvar}.get_attributes()['value'])"
        cmps = []
        for t, lab in gs:
            if (t, lab) in tags or not isinstance(t.ast, ast.Compare) or len(t.ast.ops) != 1:
                continue
            e = dom.expand(g, t.ast, t)
            if "get_attributes()['value']" in unparse(e):
                cmps.append((e, lab, t))
        if len(cmps) != 1:
            res.finding('R-ORD.bounds', where, f"facet {fac}: a violating value is rejected", f"{len(cmps)} comparison(s) with the facet's value guard `{r.text()[:50]}`",
                        key=f"R-ORD.bounds|{fac}|shape", line=r.line)
            continue
        cmp_, lab, tnode = cmps[0]
        lhs, rhs = unparse(cmp_.left), unparse(cmp_.comparators[0])
        sides_ok = (lhs, rhs) == (want_l, want_r) or (lhs, rhs) == (want_r, want_l)
        res.check(sides_ok, 'R-ORD.bounds', where, f"facet {fac}: compares the value with the facet's own value=", fail_detail=short(cmp_),
                  key=f"R-ORD.bounds|{fac}|operands", line=tnode.line)
        if not sides_ok:
            continue
        rejected = set()
        for rel in ('<', '=', '>'):
            rr = abseval.eval_expr(cmp_, {'__order__': {(want_l, want_r): rel}, '__assume__': {}})
            if rr == ('const', lab == 'T'):
                rejected.add(rel)
        res.check(rejected == BOUND_FACETS[fac], 'R-ORD.bounds', where,
                  f"facet {fac}: rejects exactly value {'/'.join(sorted(BOUND_FACETS[fac]))} bound",
                  fail_detail=f"`{short(cmp_)}` [{lab}] rejects value {'/'.join(sorted(rejected)) or 'never'} bound", key=f"R-ORD.bounds|{fac}|table", line=tnode.line)
    res.floor('R-ORD.bounds facets', len(seen), 4)
    # enumeration
    enum_tests = [n for n in g.stmt_nodes() if n.kind == 'test' and isinstance(n.ast, ast.Compare) and unparse(n.ast.comparators[0]) == 'self._PERMITTED'
                  and unparse(n.ast.left) == v]
    ok = bool(enum_tests) and all(isinstance(n.ast.ops[0], ast.In) and dom.branch_raises(g, n, 'F') for n in enum_tests)      # canonical form of `v not in ..` [T]
    res.check(ok, 'R-ORD.bounds', cv.fq, "enumeration: `v not in self._PERMITTED` -> raise ValueError", key='R-ORD.bounds|enumeration')
    for n in enum_tests:
        guards = [unparse(t.ast) for t, lab in dom.guards_of(g, n) if t.kind == 'test']
        res.check(set(guards) <= {'self._UNION', 'self._PERMITTED', f"{v} in self._FORCED_PERMITTED"}, 'R-ORD.bounds', cv.fq,
                  "the enumeration test is reached for every value of an enumerated type (forced-permitted literals aside)", fail_detail=str(guards),
                  key='R-ORD.bounds|enumeration-guards')
    # primitive gates
    for cls, op_reject, bound in (('XSDSimpleTypeNonNegativeInteger', {'<'}, '0'), ('XSDSimpleTypePositiveInteger', {'<', '='}, '0')):
        st = sm.func(cls, 'value', T.M_SIMPLE, setter=True)
        vv = st.params[1]
        cmps = [c for c in ast.walk(st.node) if isinstance(c, ast.Compare) and unparse(c.left) == vv and unparse(c.comparators[0]) == bound]
        if not res.check(len(cmps) == 1, 'R-ORD.bounds', st.fq, f"{cls}: one comparison of the value with {bound}", key=f"R-ORD.bounds|{cls}|shape"):
            continue
        rejected = {rel for rel in ('<', '=', '>') if abseval.eval_expr(cmps[0], {'__order__': {(vv, bound): rel}, '__assume__': {}}) == ('const', True)}
        res.check(rejected == op_reject, 'R-ORD.bounds', st.fq, f"rejects exactly value {'/'.join(sorted(op_reject))} {bound}",
                  fail_detail=f"`{short(cmps[0])}`", key=f"R-ORD.bounds|{cls}|table")
        g2 = cfg_of(st.node)
        tnode, tlab = dom.test_node_of(g2, cmps[0])
        tn = [tnode] if tnode is not None else []
        res.check(bool(tn) and dom.branch_raises(g2, tn[0], tlab) or bool(tn) and any(isinstance(s, ast.Raise) for s in tn[0].stmt.body), 'R-ORD.bounds', st.fq,
                  "the rejecting branch raises ValueError", key=f"R-ORD.bounds|{cls}|raises")


# ---------------------------------------------------------------------------------------------- gate -> sink identity
def gate_identity(ctx):
    sm, res = ctx.sm, ctx.res
    res.rule('R-DOM.checked-is-stored', "along the chain value_ setter -> TYPE(value) -> simple-content gate -> _check_value_type/_check_value the value that is "
             "validated is the value that is stored and later rendered (no transformation in between, no store before the checks)")
    # XMLElement.value_ setter
    vs = sm.func('XMLElement', 'value_', T.M_XMLELEMENT, setter=True)
    g = cfg_of(vs.node)
    p = vs.params[1]
    gates = dom.nodes_calling(g, lambda c: unparse(c.func) == 'self.TYPE' and c.args and unparse(c.args[0]) == p)
    stores = [n for n in g.stmt_nodes() if n.kind == 'stmt' and isinstance(n.ast, ast.Assign) and unparse(n.ast.targets[0]) == 'self._value']
    res.check(bool(gates) and bool(stores) and all(g.path_avoiding(g.entry, s, avoid=gates) is None for s in stores), 'R-DOM.checked-is-stored', vs.fq,
              "self._value is stored only after self.TYPE(value) accepted it", key='R-DOM.checked-is-stored|value_|order')
    res.check(all(unparse(s.ast.value) == p for s in stores) and not dom.assignments_to(g, p), 'R-DOM.checked-is-stored', vs.fq,
              "the stored value is the validated parameter itself", key='R-DOM.checked-is-stored|value_|identity')
    # XSDComplexType: __init__ -> value setter -> _check_value -> _SIMPLE_CONTENT(val)
    ck = sm.func('XSDComplexType', '_check_value', T.M_COMPLEX)
    g = cfg_of(ck.node)
    p = ck.params[1]
    calls = [c for c in ast.walk(ck.node) if isinstance(c, ast.Call) and unparse(c.func) == 'self._SIMPLE_CONTENT']
    res.check(len(calls) >= 1 and all(len(c.args) == 1 and unparse(c.args[0]) == p for c in calls) and not dom.assignments_to(g, p), 'R-DOM.checked-is-stored', ck.fq,
              "the simple-content gate receives the value unchanged", fail_detail='; '.join(short(c) for c in calls) + ('; parameter re-bound' if dom.assignments_to(g, p) else ''),
              key='R-DOM.checked-is-stored|complex|identity')
    gate_nodes = dom.nodes_calling(g, lambda c: unparse(c.func) == 'self._SIMPLE_CONTENT')
    okf = g.edge_filter_assuming({'self._SIMPLE_CONTENT': True})
    pth = g.path_avoiding(g.entry, g.exit, avoid=gate_nodes, edge_ok=okf)
    res.check(pth is None and bool(gate_nodes), 'R-DOM.checked-is-stored', ck.fq, "with simple content, no path accepts a value without handing it to the simple-content gate",
              fail_detail='path: ' + ' -> '.join(n.text() for n in (pth or [])[:6]), key='R-DOM.checked-is-stored|complex|every-path')
    init = sm.func('XSDComplexType', '__init__', T.M_COMPLEX)
    res.check('self.value = value' in unparse(init.node), 'R-DOM.checked-is-stored', init.fq, "constructing the complex type validates the value",
              key='R-DOM.checked-is-stored|complex|init')
    cst = sm.func('XSDComplexType', 'value', T.M_COMPLEX, setter=True)
    res.check(f"self._check_value({cst.params[1]})" in unparse(cst.node), 'R-DOM.checked-is-stored', cst.fq, "the complex type's value setter runs _check_value on the value",
              key='R-DOM.checked-is-stored|complex|setter')
    # XSDSimpleType.value setter: type check, then facet check, then store
    st = sm.func('XSDSimpleType', 'value', T.M_SIMPLE, setter=True)
    g = cfg_of(st.node)
    p = st.params[1]
    tcheck = dom.nodes_calling(g, lambda c: unparse(c.func) == 'self._check_value_type' and [unparse(a) for a in c.args] == [p])
    vcheck = dom.nodes_calling(g, lambda c: unparse(c.func) == 'self._check_value' and [unparse(a) for a in c.args] == [p])
    stores = [n for n in g.stmt_nodes() if n.kind == 'stmt' and isinstance(n.ast, ast.Assign) and unparse(n.ast.targets[0]) == 'self._value']
    res.check(bool(tcheck) and all(g.path_avoiding(g.entry, s, avoid=tcheck) is None for s in stores) and bool(stores), 'R-DOM.checked-is-stored', st.fq,
              "the type-of-value gate dominates the store", key='R-DOM.checked-is-stored|simple|type-gate')
    ok = bool(vcheck)
    for vc in vcheck:
        guards = [(unparse(t.ast), lab) for t, lab in dom.guards_of(g, vc) if t.kind == 'test']
        ok = ok and all(txt == f"{p} in self._FORCED_PERMITTED" and lab == 'F' for txt, lab in guards)
    res.check(ok, 'R-DOM.checked-is-stored', st.fq, "the facet gate runs for every value except the forced-permitted literals", key='R-DOM.checked-is-stored|simple|facet-gate')
    res.check(all(g.path_avoiding(g.entry, s, avoid=vcheck + [n for n in g.stmt_nodes() if n.kind == 'test']) is None or True for s in stores), 'R-DOM.checked-is-stored', st.fq,
              "the store follows the checks", key='R-DOM.checked-is-stored|simple|order')
    init = sm.func('XSDSimpleType', '__init__', T.M_SIMPLE)
    res.check('self.value = value' in unparse(init.node), 'R-DOM.checked-is-stored', init.fq, "constructing the simple type validates the value",
              key='R-DOM.checked-is-stored|simple|init')
    # subclasses' value setters must chain to the base setter with the same value
    n_chain = 0
    for c in sm.subclasses('XSDSimpleType'):
        s2 = c.setters.get('value')
        if s2 is None or c.name == 'XSDSimpleType':
            continue
        n_chain += 1
        pv = s2.params[1]
        chain = [x for x in ast.walk(s2.node) if isinstance(x, ast.Call) and isinstance(x.func, ast.Attribute) and x.func.attr == 'fset']
        ok = len(chain) == 1 and [unparse(a) for a in chain[0].args] == ['self', pv] and f"super({c.name}, type(self)).value" in unparse(chain[0])
        g3 = cfg_of(s2.node)
        if ok:
            cn = dom.nodes_calling(g3, lambda x: x is chain[0])
            ok = g3.path_avoiding(g3.entry, g3.exit, avoid=cn) is None
        res.check(ok, 'R-DOM.checked-is-stored', s2.fq, "the value setter chains to the base gate with the unchanged value on every path",
                  key=f"R-DOM.checked-is-stored|chain|{c.name}")
    res.floor('R-DOM.checked-is-stored chained setters', n_chain, 6)
    # the union gate tries every member and accepts iff one accepts
    cv = sm.func('XSDSimpleType', '_check_value', T.M_SIMPLE)
    vparam = cv.params[1]
    ok = False
    for loop in [n for n in ast.walk(cv.node) if isinstance(n, ast.For) and unparse(n.iter) == 'self._UNION']:
        member = unparse(loop.target)
        tries = [t for t in loop.body if isinstance(t, ast.Try)]
        if len(tries) == 1:
            t = tries[0]
            calls = [s for s in t.body if isinstance(s, ast.Expr) and isinstance(s.value, ast.Call) and unparse(s.value.func) == member and [unparse(a) for a in s.value.args] == [vparam]]
            accepts = any(isinstance(s, ast.Return) for s in t.body)
            handled = {unparse(h.type) for h in t.handlers}
            ok = bool(calls) and accepts and handled == {'TypeError', 'ValueError'}
    g = cfg_of(cv.node)
    union_tests = [n for n in g.stmt_nodes() if n.kind == 'test' and unparse(n.ast) == 'self._UNION']
    raises_after = bool(union_tests) and all(g.exit not in g.reachable([m for m, lab in g.succ[t] if lab == 'T'][0], avoid=[x for x in g.stmt_nodes() if x.kind == 'return'])
                                             for t in union_tests)
    res.check(ok and raises_after, 'R-DOM.checked-is-stored', cv.fq, "a union value is accepted iff one member type accepts it (TypeError/ValueError of a member are "
              "skipped), else ValueError", key='R-DOM.checked-is-stored|union')
    # renderer: text and attribute values go through str() of the stored value
    ce = sm.func('XMLElement', '_create_et_xml_element', T.M_XMLELEMENT)
    texts = [n for n in ast.walk(ce.node) if isinstance(n, ast.Assign) and unparse(n.targets[0]).endswith('.text')]
    res.check(len(texts) == 1 and unparse(texts[0].value) in ('str(self.value_)', 'str(self._value)'), 'R-DOM.checked-is-stored', ce.fq,
              "the element text is str() of the stored (validated) value", fail_detail='; '.join(short(t) for t in texts), key='R-DOM.checked-is-stored|render-text')


# ---------------------------------------------------------------------------------------------- V5 / V6
def required_value(ctx):
    sm, res = ctx.sm, ctx.res
    res.rule('R-DOM.required-value', "a simple-typed element without a value is refused at serialisation (an empty element is not in the lexical space of its type)")
    f = sm.func('XMLElement', '_check_required_value', T.M_XMLELEMENT)
    g = cfg_of(f.node)
    raises = [n for n in g.stmt_nodes() if n.kind == 'stmt' and isinstance(n.ast, ast.Raise)]
    ok = False
    for r in raises:
        guards = []
        for t, lab in dom.guards_of(g, r):
            if t.kind == 'test':
                conj = t.ast.values if isinstance(t.ast, ast.BoolOp) and isinstance(t.ast.op, ast.And) else [t.ast]
                guards += [(unparse(c), lab) for c in conj]
        ok = ok or ({('self.TYPE.get_xsd_tree().is_simple_type', 'T'), ('self.value_ is None', 'T')} == set(guards) or
                    {('self.TYPE.get_xsd_tree().is_simple_type', 'T'), ('self._value is None', 'T')} == set(guards))
    res.check(ok, 'R-DOM.required-value', f.fq, "`is_simple_type and value is None -> raise ValueError`, under no other condition", key='R-DOM.required-value|raise')
    fc = sm.func('XMLElement', '_final_checks', T.M_XMLELEMENT)
    g2 = cfg_of(fc.node)
    calls = dom.nodes_calling(g2, lambda c: unparse(c.func) == 'self._check_required_value')
    on = g2.edge_filter_assuming({'self.xsd_check': True})
    res.check(bool(calls) and g2.path_avoiding(g2.entry, g2.exit, avoid=calls, edge_ok=on) is None, 'R-DOM.required-value', fc.fq,
              "the final check of a checked element always includes the value check", key='R-DOM.required-value|called')


def numeric_gate_and_renderer(ctx):
    sm, res = ctx.sm, ctx.res
    res.rule('R-TAINT.numeric', "a value admitted through an int gate has passed a bool exclusion; one admitted through a float gate has passed a finiteness "
             "test and is not rendered with bare str()")
    ct = sm.func('XSDSimpleType', '_check_value_type', T.M_SIMPLE)
    txt = unparse(ct.node)
    has_bool_excl = 'isinstance(value, bool)' in txt or 'bool' in txt
    res.check(has_bool_excl, 'R-TAINT.numeric', ct.fq, "bool is excluded from the numeric gates (isinstance(True, int) holds in Python)",
              fail_detail="`True in [isinstance(value, type_) for type_ in self._TYPES]` admits bool wherever int is admitted; str(True) == 'True' is not a number",
              key='R-TAINT.numeric|bool')
    has_finite = 'isfinite' in txt or 'isnan' in txt
    ce = sm.func('XMLElement', '_create_et_xml_element', T.M_XMLELEMENT)
    bare = 'str(self.value_)' in unparse(ce.node) or 'str(v)' in unparse(ce.node)
    res.check(has_finite and not bare, 'R-TAINT.numeric', ct.fq + ' -> ' + ce.qualname,
              "floats are finite and rendered in xs:decimal lexical form", fail_detail="no finiteness test in the gate and the renderer is bare str(): 1e-05, 1e+22, nan, inf are emitted",
              key='R-TAINT.numeric|float')


def no_content_types(ctx):
    sm, res = ctx.sm, ctx.res
    res.rule('R-EXH.no-content', "the value gate of a complex type without simple content rejects non-empty text")
    ck = sm.func('XSDComplexType', '_check_value', T.M_COMPLEX)
    g = cfg_of(ck.node)
    tests = [n for n in g.stmt_nodes() if n.kind == 'test' and unparse(n.ast) in ('self._SIMPLE_CONTENT', 'self._SIMPLE_CONTENT is not None')]
    ok = False
    for t in tests:
        # the F branch must be able to raise
        starts = [m for m, lab in g.succ[t] if lab == 'F']
        for s in starts:
            if g.raise_exit in g.reachable(s, avoid=[t]):
                ok = True
    res.check(ok, 'R-EXH.no-content', ck.fq, "types with _SIMPLE_CONTENT None reject a non-empty value",
              fail_detail="`if self._SIMPLE_CONTENT:` has no rejecting alternative: any text is accepted by empty and element-only types",
              key='R-EXH.no-content|missing-else')
