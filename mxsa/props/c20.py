"""C20 - independent documents can be built concurrently: data-race freedom by construction (R-EFF shared)."""
from ..rules import shared
from ..rules import tables as T
from ..engine import get_cg, get_effects


def run(ctx):
    sm, res = ctx.sm, ctx.res
    cg = get_cg(ctx)
    ef = get_effects(ctx)
    res.assume("trusted base: a single attribute store and list.append are atomic under the GIL; ElementTree reads are thread-safe; "
               "each thread works on its own element trees (the statement's premise)")
    res.assume("a racing second initialiser of a lazy cache stores an equal value (the value depends on class-level inputs only - checked)")
    res.rule('R-EFF.shared', "the only state shared between threads that the build/validate/serialise closure writes is the enumerated set of idempotent lazy caches; "
             "each is guarded by a test of its own location, stores a complete argument-independent value in one assignment, and is never edited in place or "
             "through an alias after the store (fill-then-publish); no process-global switch is reachable")
    entries = shared.api_entries(sm)
    ws, clo = shared.check_shared_state(ctx, cg, ef, 'R-EFF.shared', entries)
    shared.check_global_switches(ctx, cg, 'R-EFF.shared', entries)
    res.extra['api_closure_functions'] = len(clo)
    res.floor('R-EFF.shared shared writes', len(ws), 8)
    # information only: the same shape outside the closure
    seq = sm.func('XSDSequence', 'elements', T.M_IND, required=False)
    if seq is not None:
        res.note(f"XSDSequence.elements publishes an empty list and fills it (same defect shape as the repaired attribute tables); it is "
                 f"{'inside' if seq in clo else 'outside'} the API closure")
        if seq in clo:
            res.finding('R-EFF.shared', seq.fq, "XSDSequence.elements is not reachable from the API closure", key='R-EFF.shared|XSDSequence.elements-reachable')
