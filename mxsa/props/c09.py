"""C09 - nothing of the input is silently dropped: consumption, no swallowing, key spaces (the 42 lines of the parser)."""
import ast

from ..astutil import unparse, short, walk_local, const_value, dotted, get_kw
from ..cfg import cfg_of
from ..srcmodel import AnalysisError
from ..rules import tables as T
from ..rules import dom
from ..rules import parser as P
from . import c03


def run(ctx):
    sm, sc, res = ctx.sm, ctx.schema, ctx.res
    res.assume("'every schema-valid file is accepted' rests on the matcher accepting every valid word (C02) and is not decided; only the no-silent-loss half is")
    res.irrelevant_prefixes += ['R-TAB.T6|ref-use']      # a dropped use="required" loses nothing of the input (that is C04)
    c03.run_attribute_part(ctx)            # key spaces: xml:/xlink: references (KF-09, KF-10), declarations without type (KF-17)
    _data_driven_ladder(ctx)
    consumption(ctx)
    no_swallowing(ctx)
    tag_to_class(ctx)
    text_only_stripped(ctx)
    reserved_names(ctx)
    binary_input(ctx)


def _data_driven_ladder(ctx):
    """The conversion attempts written as a loop over a literal sequence of converter functions (`for convert in (str, float, int): try: ...`): which
    conversion is tried under which exception is then data, not control flow - the consumption / no-swallowing rules read control flow and do not apply."""
    conv = _parser_funcs(ctx)[0]
    callables = {'int', 'float', 'str', 'bool'} | set(conv.module.functions)
    for n in ast.walk(conv.node):
        if isinstance(n, ast.For) and isinstance(n.iter, (ast.Tuple, ast.List)) and any(isinstance(s, ast.Try) for b in n.body for s in ast.walk(b)):
            names = {x.id for e in n.iter.elts for x in ast.walk(e) if isinstance(x, ast.Name)}
            if names & callables:
                raise AnalysisError(f"{conv.fq}: the conversion attempts are a loop over the converter functions {sorted(names & callables)} (line {n.lineno}): the ladder is "
                                    "data, not control flow; the parser rules do not apply to this form (idiom not understood)")


def _parser_funcs(ctx):
    sm = ctx.sm
    return (sm.func(None, '_et_xml_to_music_xml', T.M_PARSER), sm.func(None, '_parse_node', T.M_PARSER), sm.func(None, 'parse_musicxml', T.M_PARSER))


def consumption(ctx):
    sm, res = ctx.sm, ctx.res
    res.rule('R-CONSUME', "the parser reads every information-bearing member of each ElementTree node: tag, text, all attributes, all children in document order, tail")
    conv, pn, pm = _parser_funcs(ctx)
    node_p = conv.params[0]
    reads = {n.attr for n in ast.walk(conv.node) if isinstance(n, ast.Attribute) and isinstance(n.value, ast.Name) and n.value.id == node_p}
    pn_p = pn.params[0]
    reads_pn = {n.attr for n in ast.walk(pn.node) if isinstance(n, ast.Attribute) and isinstance(n.value, ast.Name) and n.value.id == pn_p}
    # the children of the node are nodes too: what is read from the loop variable over them counts (e.g. child.tail)
    for lp_ in [x for x in ast.walk(pn.node) if isinstance(x, ast.For) and unparse(x.iter) in (pn_p, f"list({pn_p})", f"iter({pn_p})") and isinstance(x.target, ast.Name)]:
        reads_pn |= {n.attr for n in ast.walk(lp_) if isinstance(n, ast.Attribute) and isinstance(n.value, ast.Name) and n.value.id == lp_.target.id}
    for member in ('tag', 'text', 'attrib'):
        res.check(member in reads, 'R-CONSUME', conv.fq, f"node.{member} is read", key=f"R-CONSUME|{member}")
    res.check('tail' in reads | reads_pn, 'R-CONSUME', conv.fq, "node.tail (text after the element's end tag) is read or rejected",
              fail_detail="character data between child elements is dropped without an error", key='R-CONSUME|tail')
    # all attributes, unconditionally
    g = cfg_of(conv.node)
    loops = [n for n in g.stmt_nodes() if n.kind == 'for' and unparse(n.stmt.iter) in (f"{node_p}.attrib.items()", f"{node_p}.items()")]
    ok = len(loops) == 1 and g.path_avoiding(g.entry, g.exit, avoid=loops) is None
    res.check(ok, 'R-CONSUME', conv.fq, "every path iterates all attributes of the node", key='R-CONSUME|attr-loop')
    for ln in loops:
        body = ln.stmt.body
        res.check(len(body) == 1 and isinstance(body[0], ast.Try), 'R-CONSUME', conv.fq, "each attribute is applied (no filter, no skip)", fail_detail=short(body),
                  key='R-CONSUME|attr-unconditional')
    # all children, in order, each attached
    g2 = cfg_of(pn.node)
    loops = [n for n in g2.stmt_nodes() if n.kind == 'for' and unparse(n.stmt.iter) in (pn_p, f"list({pn_p})", f"iter({pn_p})")]
    ok = len(loops) == 1 and g2.path_avoiding(g2.entry, g2.exit, avoid=loops) is None
    res.check(ok, 'R-CONSUME', pn.fq, "every path iterates all children of the node in document order", key='R-CONSUME|child-loop')
    for ln in loops:
        tgt = unparse(ln.stmt.target)
        body = list(ln.stmt.body)
        # rejections may precede the add (`if <cond>: raise ...` guard clauses); the add itself is the last statement, at the top level of the body
        while len(body) > 1 and isinstance(body[0], ast.If) and not body[0].orelse and body[0].body and isinstance(body[0].body[-1], ast.Raise):
            body = body[1:]
        good = len(body) == 1 and isinstance(body[0], ast.Expr) and isinstance(body[0].value, ast.Call) and \
            unparse(body[0].value.func).endswith('.add_child') and [unparse(a) for a in body[0].value.args] == [f"{pn.name}({tgt})"] and not body[0].value.keywords
        res.check(good, 'R-CONSUME', pn.fq, "each child is parsed recursively and added, unconditionally", fail_detail=short(body), key='R-CONSUME|child-add')
    rets = [n for n in ast.walk(pn.node) if isinstance(n, ast.Return)]
    outs = {unparse(n.targets[0]) for n in ast.walk(pn.node) if isinstance(n, ast.Assign) and isinstance(n.value, ast.Call) and unparse(n.value.func) == conv.name}
    res.check(len(rets) == 1 and unparse(rets[0].value) in outs, 'R-CONSUME', pn.fq, "the element built from the node is what is returned", key='R-CONSUME|return')
    # the root
    res.check(f"return {pn.name}(xml.getroot())" in unparse(pm.node) or f"{pn.name}(" in unparse(pm.node) and 'getroot()' in unparse(pm.node), 'R-CONSUME', pm.fq,
              "parsing starts at the document root", key='R-CONSUME|root')


def no_swallowing(ctx):
    sm, res = ctx.sm, ctx.res
    res.rule('R-NOSWALLOW', "every except handler of the parser retries the same target with another conversion or re-raises; none passes, continues or "
             "substitutes a default")
    n = 0
    for f in _parser_funcs(ctx):
        for h in [x for x in ast.walk(f.node) if isinstance(x, ast.ExceptHandler)]:
            n += 1
            ok = True
            why = ''
            class_exprs = P.class_lookup_exprs(f.node, f.params[0]) if f.params else set()
            for st in h.body:
                if isinstance(st, ast.Try) or isinstance(st, ast.Raise):
                    continue
                if isinstance(st, ast.Assign) and isinstance(st.value, ast.Call) and unparse(st.value.func) in class_exprs:
                    continue
                if isinstance(st, ast.Expr) and isinstance(st.value, ast.Call) and unparse(st.value.func) == 'setattr':
                    continue
                # a conversion of the text prepared for the next attempt (`number = float(text)`): it either yields the value that is tried next or raises
                # out of the handler - nothing is swallowed or substituted
                conv_ = st.value if isinstance(st, (ast.Expr, ast.Assign)) else None
                if isinstance(conv_, ast.Call) and isinstance(conv_.func, ast.Name) and conv_.func.id in ('float', 'int', 'str') and len(conv_.args) == 1 and \
                        isinstance(conv_.args[0], ast.Name) and not conv_.keywords and (isinstance(st, ast.Expr) or all(isinstance(t_, ast.Name) for t_ in st.targets)):
                    continue
                ok = False
                why = short(st)
            res.check(ok, 'R-NOSWALLOW', f.fq, f"handler `except {short(h.type)}` retries or re-raises", fail_detail=why,
                      key=f"R-NOSWALLOW|{f.name}|{short(h.type)}|{why[:30]}", line=h.lineno)
    # handlers anywhere else in the parser module (e.g. around the open) are subject to the same rule
    m = sm.modules[T.M_PARSER]
    others = [x for x in ast.walk(m.tree) if isinstance(x, ast.ExceptHandler)]
    res.check(len(others) == n, 'R-NOSWALLOW', m.relpath, "all handlers of the parser module were examined", key='R-NOSWALLOW|coverage')
    res.floor('R-NOSWALLOW handlers', n, 4)


def tag_to_class(ctx):
    sm, sc, res = ctx.sm, ctx.schema, ctx.res
    res.rule('R-TAB.tag-class', "every partwise tag maps, through the naming rule evaluated in the parser's namespace, to the class bound to that element")
    missing = []
    for n in sc.partwise_names():
        cn = T.xml_class_name(n)
        r = sm.resolve_name(T.M_PARSER, cn)
        if not (r and r[0] == 'class' and r[1].name == cn):
            missing.append(cn)
    res.check(not missing, 'R-TAB.tag-class', sm.modules[T.M_PARSER].relpath + '::eval(convert_to_xml_class_name(tag))',
              f"all {len(sc.partwise_names())} element classes resolve in the parser's namespace", fail_detail=str(missing[:5]), key='R-TAB.tag-class|resolve')
    conv = _parser_funcs(ctx)[0]
    evals = [c for c in ast.walk(conv.node) if isinstance(c, ast.Call) and isinstance(c.func, ast.Name) and c.func.id == 'eval']
    res.check(bool(evals) and all(unparse(c.args[0]) == f"convert_to_xml_class_name({conv.params[0]}.tag)" for c in evals), 'R-TAB.tag-class', conv.fq,
              "the class is looked up by the node's own tag", key='R-TAB.tag-class|by-tag')


def _string_content_elements(ctx):
    """names of the partwise elements whose text content derives from xs:string without a whitespace-collapsing step (xs:token, xs:NMTOKEN, ...)"""
    sc = ctx.schema
    simple = dict(sc.builtin_simple_types)
    simple.update(sc.simple_types)
    cts = sc.all_complex_types()

    def primitive(tn, depth=0):
        tn = (tn or '').split(':')[-1]
        if depth > 12 or not tn:
            return None
        if tn == 'string':
            return 'string'
        if tn in ('token', 'normalizedString', 'NMTOKEN', 'Name', 'NCName', 'ID', 'IDREF', 'language', 'decimal', 'integer', 'positiveInteger', 'nonNegativeInteger',
                  'date', 'anyURI', 'boolean', 'float', 'double'):
            return 'collapsing'
        st = simple.get(tn)
        if st is not None:
            if set(st.facet_tags()) & {'enumeration', 'pattern'}:
                return 'collapsing'          # literals / patterns of the schema leave no room for surrounding blanks
            if st.union_members:
                kinds = {primitive(m_, depth + 1) for m_ in st.union_members}
                return 'string' if 'string' in kinds else 'collapsing'
            return primitive(st.base, depth + 1) if st.base else None
        ct = cts.get(tn)
        if ct is not None and getattr(ct, 'simple_base', None):
            return primitive(ct.simple_base, depth + 1)
        return None
    out = []
    for d in sc.partwise_decls():
        if d.type and primitive(d.type) == "string" and d.name not in out:
            out.append(d.name)
    return sorted(out)


def text_only_stripped(ctx):
    sm, res = ctx.sm, ctx.res
    res.rule('R-TEXT', "the only transformation between node.text and the element value is removal of surrounding whitespace (and the numeric conversions of the ladder)")
    conv = _parser_funcs(ctx)[0]
    node_p = conv.params[0]
    g = cfg_of(conv.node)
    defs = [n for n in g.stmt_nodes() if n.kind == 'stmt' and isinstance(n.ast, ast.Assign) and isinstance(n.ast.targets[0], ast.Name) and
            (f"{node_p}.text" in unparse(n.ast.value) or unparse(n.ast.value) in ("''", '""'))]
    vals = sorted({unparse(n.ast.value) for n in defs})
    ok = set(vals) <= {f"{node_p}.text.strip()", f"{node_p}.text", "''"} and any('text' in v for v in vals)
    res.check(ok, 'R-TEXT', conv.fq, "text = node.text.strip() (or '' when absent)", fail_detail=str(vals), key='R-TEXT|strip-only')
    # stripping is the schema's own whitespace handling for token-like and numeric content, not for xs:string content (whiteSpace=preserve)
    if any('.strip()' in v for v in vals):
        preserving = _string_content_elements(ctx)
        res.check(not preserving, 'R-TEXT', conv.fq, "surrounding whitespace is removed only from content whose type collapses whitespace anyway",
                  fail_detail=f"{len(preserving)} element(s) have xs:string-based content (whiteSpace=preserve), e.g. {preserving[:6]}: leading / trailing blanks and line breaks "
                              "of their text are lost on reading although the library accepted and wrote them", key='R-TEXT|strip-of-string-content')
    # the stripped text is taken exactly when there is text, the empty default exactly when there is none
    for n in defs:
        v = unparse(n.ast.value)
        guards = {(unparse(t.ast), lab) for t, lab in dom.guards_of(g, n) if t.kind == 'test'}
        present = {(f"{node_p}.text", 'T'), (f"{node_p}.text is not None", 'T'), (f"{node_p}.text is None", 'F')}
        absent = {(f"{node_p}.text", 'F'), (f"{node_p}.text is not None", 'F'), (f"{node_p}.text is None", 'T')}
        if 'text' in v:
            res.check(bool(guards & present) or v == f"{node_p}.text", 'R-TEXT', conv.fq, f"`{short(n.ast)}` is taken when the node has text", fail_detail=f"guards: {sorted(guards)}",
                      key='R-TEXT|text-when-present', line=n.line)
            res.check(not (guards & absent), 'R-TEXT', conv.fq, f"`{short(n.ast)}` is not confined to nodes without text", fail_detail=f"guards: {sorted(guards)}",
                      key='R-TEXT|text-not-when-absent', line=n.line)
        else:
            res.check(bool(guards & absent), 'R-TEXT', conv.fq, f"the empty default `{short(n.ast)}` is taken only when the node has no text", fail_detail=f"guards: {sorted(guards)}",
                      key='R-TEXT|default-when-absent', line=n.line)
    # the variable is bound on every path before its first use
    names = {n.ast.targets[0].id for n in defs}
    for name in names:
        dnodes = [n for n in defs if n.ast.targets[0].id == name]
        uses = [n for n in g.stmt_nodes() if n not in dnodes and any(isinstance(x, ast.Name) and x.id == name and isinstance(x.ctx, ast.Load) for e in n.exprs() for x in walk_local(e))]
        unbound = [u for u in uses if g.path_avoiding(g.entry, u, avoid=dnodes) is not None]
        res.check(bool(uses) and not unbound, 'R-TEXT', conv.fq, f"`{name}` is bound on every path before it is used (a node without text included)",
                  fail_detail='; '.join(u.text() for u in unbound[:2]) or 'never used', key='R-TEXT|bound')
    # what the converter returns is the element it constructed from the node
    rets = [n for n in g.stmt_nodes() if n.kind == 'return']
    ok = bool(rets)
    detail = ''
    class_exprs = P.class_lookup_exprs(conv.node, conv.params[0])
    for r in rets:
        v = r.ast.value
        if not isinstance(v, ast.Name):
            ok, detail = False, short(r.ast)
            continue
        ds = dom.reaching_defs(g, v.id, r)
        if not ds or not all(isinstance(d.ast, ast.Assign) and isinstance(d.ast.value, ast.Call) and unparse(d.ast.value.func) in class_exprs for d in ds):
            ok, detail = False, f"{short(r.ast)}: defined by {[short(d.ast, 50) for d in ds]}"
    res.check(ok and g.path_avoiding(g.entry, g.exit, avoid=rets) is None, 'R-CONSUME', conv.fq,
              "every normal path returns the element constructed from the node's tag", fail_detail=detail or 'a path ends without a return', key='R-CONSUME|converter-return')


def reserved_names(ctx):
    """setattr(output, k, v) goes through XMLElement.__setattr__: attribute names that are diverted are C04.A4's business."""
    from . import c04
    sm = ctx.sm
    el_classes = {c.name: c for c in T.direct_subclasses(sm, T.M_XMLELEMENT, 'XMLElement')}
    c04.routing(ctx, el_classes)


def binary_input(ctx):
    sm, res = ctx.sm, ctx.res
    res.rule('R-ENC.input', "the input file is handed to ElementTree undecoded (binary mode, or by path), so that the XML declaration of the document decides the "
             "encoding: a text-mode file, with whatever fixed encoding, fails or garbles every valid document in another encoding (UTF-16, ISO-8859-1)")
    pm = _parser_funcs(ctx)[2]
    opens = [c for c in ast.walk(pm.node) if isinstance(c, ast.Call) and dotted(c.func) == 'open']
    # with every optional parameter at its default: an open that is only reached when the caller passes an explicit encoding is the caller's decision
    g_ = cfg_of(pm.node)
    a_ = pm.node.args
    defaults = dict(zip([x.arg for x in a_.args][len(a_.args) - len(a_.defaults):], a_.defaults))
    assume = {}
    for p_, d_ in defaults.items():
        if isinstance(d_, ast.Constant) and d_.value is None:
            assume[f"{p_} is None"] = True
            assume[p_] = False
    live = g_.reachable(g_.entry, edge_ok=g_.edge_filter_assuming(assume)) if assume else set(g_.stmt_nodes())
    for c in list(opens):
        n_ = next((x for x in g_.stmt_nodes() if any(y is c for e_ in x.exprs() for y in ast.walk(e_))), None)
        if n_ is not None and n_ not in live:
            opens.remove(c)
            res.ok('R-ENC.input', pm.fq, f"`{short(c)}` is reached only when the caller passes an explicit value for {sorted(defaults)} (not with the default arguments)")
    for c in opens:
        mode = c.args[1] if len(c.args) > 1 else get_kw(c, 'mode')
        m = const_value(mode) if mode is not None else 'r'
        enc = get_kw(c, 'encoding')
        res.check(isinstance(m, str) and 'b' in m and enc is None, 'R-ENC.input', pm.fq, f"`{short(c)}` opens the document in binary mode",
                  fail_detail="text mode: the bytes are decoded before the XML parser sees the encoding declaration", key='R-ENC.input|open', line=c.lineno)
    parses = [c for c in ast.walk(pm.node) if isinstance(c, ast.Call) and dotted(c.func) in ('ET.parse', 'ET.fromstring', 'ET.XML')]
    res.check(bool(parses), 'R-ENC.input', pm.fq, "the document is parsed by ElementTree", key='R-ENC.input|parse')
